------------------------------- MODULE Display -------------------------------
(***************************************************************************)
(* minicbor::display (the Display impl of the Tokenizer), property C19.    *)
(*                                                                         *)
(* Output is a sequence of bytes (UTF-8).  A float is rendered as the      *)
(* placeholder <<-1, w, b1..bw>> (w = 2, 4, 8 and the big-endian bit       *)
(* pattern): scientific notation of floats is not transcribed into TLA+,   *)
(* the harness substitutes Rust's `{:e}` of exactly that value.            *)
(*                                                                         *)
(* Property layer:                                                         *)
(*   Diag(buf)      the documented notation of a well-formed data item,    *)
(*                  a structural recursion on the RFC 8949 grammar         *)
(*   OutBound(n)    the size bound for arbitrary input of n bytes          *)
(* Implementation-shaped layer:                                            *)
(*   Tok(buf, p)    the token stream of the Tokenizer iterator             *)
(*   the control-stack machine (E::N, T, A, M, B, D, S, X) over it         *)
(* MC_C19 checks that the machine refines the property layer.              *)
(***************************************************************************)
EXTENDS SkipProp

\* ---- literals (ASCII) -------------------------------------------------------
LBrack == <<91>>            RBrack == <<93>>           LBrace == <<123>>         RBrace == <<125>>
LParen == <<40>>            RParen == <<41>>           Comma  == <<44, 32>>      Colon  == <<58, 32>>
IndefArr == <<91, 95, 32>>  IndefMap == <<123, 95, 32>>  IndefStr == <<40, 95, 32>>
EmptyBytesIndef == <<39, 39, 95>>      EmptyTextIndef == <<34, 34, 95>>
Quote == <<34>>
STrue == <<116, 114, 117, 101>>        SFalse == <<102, 97, 108, 115, 101>>
SNull == <<110, 117, 108, 108>>        SUndefined == <<117, 110, 100, 101, 102, 105, 110, 101, 100>>
SSimple == <<115, 105, 109, 112, 108, 101, 40>>
Two64 == <<49, 56, 52, 52, 54, 55, 52, 52, 48, 55, 51, 55, 48, 57, 53, 53, 49, 54, 49, 54>>   \* "18446744073709551616"

\* ---- decimal and hex ----------------------------------------------------------
RECURSIVE DivR(_, _, _, _)
DivR(v, i, rem, acc) == IF i > 8 THEN <<acc, rem>>
                        ELSE LET cur == rem * 256 + v[i] IN DivR(v, i + 1, cur % 10, Append(acc, cur \div 10))
DivMod10(v) == DivR(v, 1, 0, <<>>)
RECURSIVE DecDigits(_)
DecDigits(v) == IF IsZero(v) THEN <<>> ELSE LET qr == DivMod10(v) IN Append(DecDigits(qr[1]), 48 + qr[2])
Dec64(v) == IF IsZero(v) THEN <<48>> ELSE DecDigits(v)
DecInt(neg, mag) == IF ~neg THEN Dec64(mag) ELSE <<45>> \o (IF mag = Max64 THEN Two64 ELSE Dec64(Inc(mag)))
DecNat(n) == Dec64(FromNat(n))
HexDigit(d) == IF d < 10 THEN 48 + d ELSE 87 + d
RECURSIVE HexBytes(_, _)
HexBytes(bs, i) == IF i > Len(bs) THEN <<>>
                   ELSE <<HexDigit(bs[i] \div 16), HexDigit(bs[i] % 16)>> \o (IF i < Len(bs) THEN <<32>> ELSE <<>>) \o HexBytes(bs, i + 1)
RenderBytes(bs) == <<104, 39>> \o HexBytes(bs, 1) \o <<39>>              \* h'01 02 ef'
RenderText(bs)  == Quote \o bs \o Quote
FloatAtom(w, bits) == <<-1, w>> \o bits

\* ---- property layer: the documented notation of the item at offset p ----------------
\* (only evaluated where the item is well-formed and all its text is valid UTF-8)
Payload(buf, p, h) == SubSeq(buf, p + h.hl + 1, p + h.hl + ToNat(h.arg))
RECURSIVE DiagAt(_, _), DiagItems(_, _, _, _), DiagIndef(_, _, _, _), DiagChunks(_, _, _)
\* k items joined by ", " (arrays) or alternately ": " and ", " (maps; i = index of the item, from 0)
DiagItems(buf, p, k, ismap) ==
   LET RECURSIVE Go(_, _)
       Go(q, i) == IF i = k THEN <<>> ELSE
                   (IF i = 0 THEN <<>> ELSE IF ismap /\ i % 2 = 1 THEN Colon ELSE Comma)
                   \o DiagAt(buf, q) \o Go(ItemEnd(buf, q), i + 1)
   IN Go(p, 0)
DiagIndef(buf, p, i, ismap) ==
   IF IsBreak(HeadAt(buf, p)) THEN <<>>
   ELSE (IF i = 0 THEN <<>> ELSE IF ismap /\ i % 2 = 1 THEN Colon ELSE Comma)
        \o DiagAt(buf, p) \o DiagIndef(buf, ItemEnd(buf, p), i + 1, ismap)
DiagChunks(buf, p, i) ==
   LET h == HeadAt(buf, p) IN
   IF IsBreak(h) THEN <<>>
   ELSE (IF i = 0 THEN <<>> ELSE Comma)
        \o (IF h.major = 2 THEN RenderBytes(Payload(buf, p, h)) ELSE RenderText(Payload(buf, p, h)))
        \o DiagChunks(buf, p + h.hl + ToNat(h.arg), i + 1)
DiagAt(buf, p) ==
   LET h == HeadAt(buf, p) IN
   CASE h.major = 0 -> DecInt(FALSE, h.arg)
     [] h.major = 1 -> DecInt(TRUE, h.arg)
     [] h.major \in {2, 3} ->
          IF ~h.indef THEN (IF h.major = 2 THEN RenderBytes(Payload(buf, p, h)) ELSE RenderText(Payload(buf, p, h)))
          ELSE IF IsBreak(HeadAt(buf, p + 1)) THEN (IF h.major = 2 THEN EmptyBytesIndef ELSE EmptyTextIndef)
          ELSE IndefStr \o DiagChunks(buf, p + 1, 0) \o RParen
     [] h.major = 4 -> IF h.indef THEN IndefArr \o DiagIndef(buf, p + 1, 0, FALSE) \o RBrack
                       ELSE LBrack \o DiagItems(buf, p + h.hl, Cap(h.arg), FALSE) \o RBrack
     [] h.major = 5 -> IF h.indef THEN IndefMap \o DiagIndef(buf, p + 1, 0, TRUE) \o RBrace
                       ELSE LBrace \o DiagItems(buf, p + h.hl, 2 * Cap(h.arg), TRUE) \o RBrace
     [] h.major = 6 -> Dec64(h.arg) \o LParen \o DiagAt(buf, p + h.hl) \o RParen
     [] h.major = 7 ->
          CASE h.info < 20  -> SSimple \o DecNat(h.info) \o RParen
            [] h.info = 20  -> SFalse
            [] h.info = 21  -> STrue
            [] h.info = 22  -> SNull
            [] h.info = 23  -> SUndefined
            [] h.info = 24  -> SSimple \o DecNat(ToNat(h.arg)) \o RParen
            [] h.info = 25  -> FloatAtom(2, Low(h.arg, 2))
            [] h.info = 26  -> FloatAtom(4, Low(h.arg, 4))
            [] h.info = 27  -> FloatAtom(8, h.arg)
Diag(buf) == DiagAt(buf, 0)
\* the input is one well-formed data item whose text strings are all valid: the exact rendering is pinned
Renderable(buf) == LET r == Scan(buf, 0, FALSE) IN r.e = Len(buf) /\ Len(buf) > 0 /\ r.t
\* the size bound for arbitrary input
OutBound(n) == 32 * n + 256
\* length of an output in bytes once float atoms are expanded: an atom stands for at most 32 bytes
RECURSIVE OutLen(_, _)
OutLen(o, i) == IF i > Len(o) THEN 0 ELSE IF o[i] = -1 THEN 32 + OutLen(o, i + 2 + o[i + 1]) ELSE 1 + OutLen(o, i + 1)

\* ---- the token stream of the Tokenizer iterator ----------------------------------------
(* Tok(buf, p): the next token as the Display machine sees it.                                        *)
(*   k = "end"   end of input, or an end-of-input error (the iterator ends silently)                   *)
(*   k = "err"   a decoding error (the iterator yields it once and is then drained)                    *)
(*   k = "A" / "M" with count n (capped), "AI" "MI" "BI" "SI" indefinite starts, "tag", "brk"          *)
(*   k = "atom"  anything else, r = its rendering                                                      *)
T(k, n, r, nx) == [k |-> k, n |-> n, r |-> r, next |-> nx]
TEnd == T("end", 0, <<>>, 0)
Tok(buf, p) ==
   IF p >= Len(buf) THEN TEnd ELSE
   LET b == At(buf, p)  h == HeadAt(buf, p) IN
   IF h.st = "eoi" THEN TEnd
   ELSE IF h.st = "bad" THEN T("err", 0, <<>>, Len(buf))
   ELSE CASE h.major = 0 -> T("atom", 0, DecInt(FALSE, h.arg), p + h.hl)
          [] h.major = 1 -> T("atom", 0, DecInt(TRUE, h.arg), p + h.hl)
          [] h.major \in {2, 3} ->
               IF h.indef THEN T(IF h.major = 2 THEN "BI" ELSE "SI", 0, <<>>, p + 1)
               ELSE IF ~IsSmall(h.arg) \/ ToNat(h.arg) > Len(buf) - p - h.hl THEN TEnd
               ELSE IF h.major = 3 /\ ~ValidUtf8(Payload(buf, p, h)) THEN T("err", 0, <<>>, Len(buf))
               ELSE T("atom", 0, IF h.major = 2 THEN RenderBytes(Payload(buf, p, h)) ELSE RenderText(Payload(buf, p, h)),
                      p + h.hl + ToNat(h.arg))
          [] h.major = 4 -> IF h.indef THEN T("AI", 0, <<>>, p + 1) ELSE T("A", Cap(h.arg), <<>>, p + h.hl)
          [] h.major = 5 -> IF h.indef THEN T("MI", 0, <<>>, p + 1) ELSE T("M", Cap(h.arg), <<>>, p + h.hl)
          [] h.major = 6 -> T("tag", 0, Dec64(h.arg), p + h.hl)
          [] h.major = 7 ->
               CASE h.info < 20  -> T("atom", 0, SSimple \o DecNat(h.info) \o RParen, p + 1)
                 [] h.info = 20  -> T("atom", 0, SFalse, p + 1)
                 [] h.info = 21  -> T("atom", 0, STrue, p + 1)
                 [] h.info = 22  -> T("atom", 0, SNull, p + 1)
                 [] h.info = 23  -> T("atom", 0, SUndefined, p + 1)
                 [] h.info = 24  -> T("atom", 0, SSimple \o DecNat(ToNat(h.arg)) \o RParen, p + 2)
                 [] h.info = 25  -> T("atom", 0, FloatAtom(2, Low(h.arg, 2)), p + 3)
                 [] h.info = 26  -> T("atom", 0, FloatAtom(4, Low(h.arg, 4)), p + 5)
                 [] h.info = 27  -> T("atom", 0, FloatAtom(8, h.arg), p + 9)
                 [] h.info = 31  -> T("brk", 0, RBrack, p + 1)
=============================================================================
