------------------------------- MODULE MC_C14W -------------------------------
EXTENDS BlockingIO, Json
ValsA == <<1, -1, 3, 2, 0>>
ValsB == <<2, 2, 1>>
FNone == <<>>
Init == RInit /\ WInit /\ cut = 0
Next == WNext /\ UNCHANGED rvars
view == wview
Settled == IF wph' = "writing" /\ woff' >= Len(wbuf') THEN Append(wout', <<"ok", Len(wbuf') - 4>>) ELSE wout'
Emit == wsched' # wsched =>
   PrintT(<<"CASE", ToJson([fam |-> "bwrite", name |-> "script",
                            in |-> [vals |-> WVals, maxlen |-> WMaxLen, sched |-> wsched'],
                            exp |-> [out |-> Settled, sinkids |-> sink', desync |-> ""]])>>)
=============================================================================
