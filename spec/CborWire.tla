----------------------------- MODULE CborWire -----------------------------
(***************************************************************************)
(* RFC 8949 section 3: the wire grammar.  Written from the RFC, not from   *)
(* the code.  `buf` is a sequence of bytes, offsets are 0-based counts of  *)
(* consumed bytes (the same convention as Decoder::position), so the byte  *)
(* at offset p is buf[p + 1].                                              *)
(***************************************************************************)
EXTENDS U64

At(buf, p) == buf[p + 1]
Major(b) == b \div 32
Info(b)  == b % 32

\* number of argument bytes announced by the additional information
ArgBytes(info) == CASE info < 24 -> 0 [] info = 24 -> 1 [] info = 25 -> 2
                    [] info = 26 -> 4 [] info = 27 -> 8 [] OTHER -> 0

(* HeadAt: the head starting at offset p.                                  *)
(*   st = "eoi"  the input ends before the head is complete                *)
(*   st = "bad"  reserved additional information 28..30, or 31 on a major  *)
(*               type that has no indefinite form                          *)
(*   st = "ok"   major, info, arg (8-byte tuple), hl = head length,        *)
(*               indef = additional information 31                         *)
HeadAt(buf, p) ==
  IF p >= Len(buf) THEN [st |-> "eoi", major |-> 0, info |-> 0, arg |-> Zero64, hl |-> 0, indef |-> FALSE]
  ELSE LET b == At(buf, p)  mj == Major(b)  inf == Info(b) IN
    IF inf < 24 THEN [st |-> "ok", major |-> mj, info |-> inf, arg |-> FromNat(inf), hl |-> 1, indef |-> FALSE]
    ELSE IF inf <= 27 THEN
       LET n == ArgBytes(inf) IN
       IF p + 1 + n > Len(buf)
       THEN [st |-> "eoi", major |-> mj, info |-> inf, arg |-> Zero64, hl |-> 0, indef |-> FALSE]
       ELSE [st |-> "ok", major |-> mj, info |-> inf, arg |-> Pad8(SubSeq(buf, p + 2, p + 1 + n)), hl |-> 1 + n, indef |-> FALSE]
    ELSE IF inf = 31 /\ mj \in {2, 3, 4, 5, 7}
       THEN [st |-> "ok", major |-> mj, info |-> 31, arg |-> Zero64, hl |-> 1, indef |-> TRUE]
    ELSE [st |-> "bad", major |-> mj, info |-> inf, arg |-> Zero64, hl |-> 0, indef |-> FALSE]

IsBreak(h) == h.st = "ok" /\ h.major = 7 /\ h.info = 31

\* The bytes of a head: major type, argument, width in {0,1,2,4,8} (0 = immediate, needs arg < 24)
HeadBytes(mj, arg, w) ==
  IF w = 0 THEN <<mj * 32 + ToNat(arg)>>
  ELSE <<mj * 32 + (CASE w = 1 -> 24 [] w = 2 -> 25 [] w = 4 -> 26 [] w = 8 -> 27)>> \o Low(arg, w)
PreferredHead(mj, arg) == HeadBytes(mj, arg, PreferredWidth(arg))
IndefHead(mj) == <<mj * 32 + 31>>
BreakByte == 255

(* ItemEnd(buf, p): offset just after the data item starting at offset p,  *)
(*   -1  the input ends inside the item (every byte so far is consistent   *)
(*       with a well-formed item): buf from p is a strict prefix           *)
(*   -2  the bytes at p are not the start of a well-formed item            *)
Trunc == -1
Bad   == -2
Cap(n) == IF IsSmall(n) /\ ToNat(n) < 536870912 THEN ToNat(n) ELSE 536870912      \* counts beyond any input length are all alike (and 2 * Cap stays a TLC integer)

RECURSIVE ItemEnd(_, _), ItemsEnd(_, _, _), IndefItems(_, _, _), Chunks(_, _, _)
ItemsEnd(buf, p, k) == IF k = 0 THEN p ELSE
   LET e == ItemEnd(buf, p) IN IF e < 0 THEN e ELSE ItemsEnd(buf, e, k - 1)
\* items up to a break; par: 2 = any count (array), 0/1 = parity of items seen so far (map needs even)
IndefItems(buf, p, par) ==
   LET h == HeadAt(buf, p) IN
   IF h.st = "eoi" THEN Trunc
   ELSE IF IsBreak(h) THEN (IF par = 1 THEN Bad ELSE p + 1)
   ELSE LET e == ItemEnd(buf, p) IN
        IF e < 0 THEN e ELSE IndefItems(buf, e, IF par = 2 THEN 2 ELSE 1 - par)
\* definite-length chunks of major type mj up to a break
Chunks(buf, p, mj) ==
   LET h == HeadAt(buf, p) IN
   IF h.st = "eoi" THEN Trunc
   ELSE IF h.st = "bad" THEN Bad
   ELSE IF IsBreak(h) THEN p + 1
   ELSE IF h.major # mj \/ h.indef THEN Bad
   ELSE IF ~IsSmall(h.arg) \/ ToNat(h.arg) > Len(buf) - p - h.hl THEN Trunc
   ELSE Chunks(buf, p + h.hl + ToNat(h.arg), mj)
ItemEnd(buf, p) ==
   LET h == HeadAt(buf, p) IN
   IF h.st = "eoi" THEN Trunc
   ELSE IF h.st = "bad" THEN Bad
   ELSE CASE h.major \in {0, 1} -> p + h.hl
          [] h.major \in {2, 3} ->
               IF h.indef THEN Chunks(buf, p + 1, h.major)
               ELSE IF ~IsSmall(h.arg) \/ ToNat(h.arg) > Len(buf) - p - h.hl THEN Trunc
               ELSE p + h.hl + ToNat(h.arg)
          [] h.major = 4 -> IF h.indef THEN IndefItems(buf, p + 1, 2) ELSE ItemsEnd(buf, p + h.hl, Cap(h.arg))
          [] h.major = 5 -> IF h.indef THEN IndefItems(buf, p + 1, 0)
                            ELSE LET e == ItemsEnd(buf, p + h.hl, Cap(h.arg)) IN
                                 IF e < 0 THEN e ELSE ItemsEnd(buf, e, Cap(h.arg))
          [] h.major = 6 -> ItemEnd(buf, p + h.hl)
          [] h.major = 7 ->
               IF h.indef THEN Bad                                   \* a break is not a data item
               ELSE IF h.info = 24 /\ ToNat(h.arg) < 32 THEN Bad     \* RFC 8949 3.3: two-byte simple values < 32 are not well-formed
               ELSE p + h.hl

WellFormedAt(buf, p) == ItemEnd(buf, p) >= 0
\* buf is exactly one well-formed data item
WellFormedItem(buf) == ItemEnd(buf, 0) = Len(buf)
\* buf is a concatenation of well-formed data items (a CBOR sequence)
RECURSIVE WellFormedSeqFrom(_, _)
WellFormedSeqFrom(buf, p) == IF p = Len(buf) THEN TRUE
                             ELSE LET e == ItemEnd(buf, p) IN e >= 0 /\ WellFormedSeqFrom(buf, e)
WellFormedSeq(buf) == WellFormedSeqFrom(buf, 0)

Prefix(buf, n) == SubSeq(buf, 1, n)
=============================================================================
