INIT Init
NEXT Next
CONSTANT MaxCap = 4
CONSTANT MaxCalls = 4
ACTION_CONSTRAINT Emit
INVARIANT PositionLaw WholeChunks RefusedIffNoFit
CHECK_DEADLOCK FALSE
