------------------------------- MODULE Floats -------------------------------
(* Float accessors and encoders (properties C12, C03, C04), on top of Half. *)
EXTENDS SkipProp, Half

VFloatNaN(w) == [k |-> "floatnan", w |-> w]               \* some NaN of width w bytes
VBytes(b)    == [k |-> "enc", b |-> b]                    \* bytes produced by an encoder call
VF16NaN      == [k |-> "encf16nan"]                       \* f9 followed by some half NaN

\* value of the float item at p read through an accessor of width `to` (4: f32()/f16(), 8: f64())
FloatValue(buf, p, info, to) ==
   LET a == SubSeq(buf, p + 2, p + 1 + ArgBytes(info)) IN
   CASE info = 25 -> LET h == F16Of(a) IN
                     IF IsNaN16(h) THEN VFloatNaN(to)
                     ELSE IF to = 4 THEN VFloat(4, F32Bytes(F16ToF32(h))) ELSE VFloat(8, F32ToF64Bytes(F16ToF32(h)))
     [] info = 26 -> IF to = 4 THEN VFloat(4, a)
                     ELSE IF IsNaN32B(a) THEN VFloatNaN(8) ELSE VFloat(8, F32ToF64Bytes(F32Of(a)))
     [] info = 27 -> VFloat(8, a)
\* name in {"f16", "f32", "f64"}; halfOn: built with the `half` feature
FloatAcc(name, halfOn, buf, p) ==
   IF p >= Len(buf) THEN {Err("eoi")} ELSE
   LET b == At(buf, p)  h == HeadAt(buf, p)
       accepts == CASE name = "f16" -> {249} [] name = "f32" -> (IF halfOn THEN {249} ELSE {}) \cup {250}
                    [] name = "f64" -> (IF halfOn THEN {249} ELSE {}) \cup {250, 251}
       to == IF name = "f64" THEN 8 ELSE 4 IN
   IF b \notin accepts THEN {Err("*")}                       \* a wider float is never accepted by a narrower accessor
   ELSE IF h.st = "eoi" THEN {Err("eoi")}
   ELSE {Ok(FloatValue(buf, p, h.info, to), p + h.hl)}

\* Encoder::f32 / f64 write the bit pattern at the width of the type; f16 narrows with round-to-nearest-even
EncFloat(name, bits) ==
   CASE name = "f32" -> {Ok(VBytes(<<250>> \o bits), 5)}
     [] name = "f64" -> {Ok(VBytes(<<251>> \o bits), 9)}
     [] name = "f16" -> LET r == F32ToF16(F32Of(bits)) IN
                        IF r[3] = -1 THEN {Ok(VF16NaN, 3)} ELSE {Ok(VBytes(<<249>> \o F16Bytes(r)), 3)}

FMatch(obs, pat) ==
   CASE pat.p = "any" -> obs.p \in {"ok", "err"}
     [] pat.p = "err" -> obs.p = "err" /\ (pat.cls = "*" \/ obs.cls = pat.cls)
     [] pat.p = "ok"  -> /\ obs.p = "ok" /\ obs.pos = pat.pos
                         /\ CASE pat.v.k = "floatnan" -> obs.v.k = "float" /\ obs.v.w = pat.v.w /\
                                                         (IF pat.v.w = 4 THEN IsNaN32B(obs.v.bits) ELSE IsNaN64B(obs.v.bits))
                              [] pat.v.k = "encf16nan" -> obs.v.k = "enc" /\ Len(obs.v.b) = 3 /\ obs.v.b[1] = 249 /\ IsNaN16B(SubSeq(obs.v.b, 2, 3))
                              [] OTHER -> obs.v = pat.v
FObsOK(obs, pats) == \E x \in pats : FMatch(obs, x)
=============================================================================
