SPECIFICATION LiveSpec
CONSTANT Frames <- FramesA
CONSTANT MaxLen = 3
CONSTANT MaxPend = 2
CONSTANT MaxErr = 1
CONSTANT MaxReads <- Unbounded
CONSTANT KeepSched = FALSE
PROPERTY EventuallyTerminal AllDeliveredAtEnd NoReadHangs
INVARIANT InOrderNoLossNoDupNoTear NeverValueFromCutFrame BufferBounded StaysInSync
CHECK_DEADLOCK FALSE
