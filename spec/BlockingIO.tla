----------------------------- MODULE BlockingIO -----------------------------
(***************************************************************************)
(* minicbor_io::Reader and minicbor_io::Writer (blocking; property C14).   *)
(*                                                                         *)
(* Reader: the stream is the concatenation of frames, cut after `cut`      *)
(* bytes; every read() of the underlying io::Read is one action of the     *)
(* environment: Deliver(k) with 1 <= k <= min(wanted, available),          *)
(* Interrupted (retried by the reader, at most MaxIntr in a row) or Eof    *)
(* (only when the cut stream is exhausted).  A frame is                    *)
(* [n, good, huge]: payload length, whether the payload decodes, and       *)
(* whether the prefix on the wire claims an enormous length (such a frame  *)
(* has n > MaxLen; the model only needs to know that it is rejected).      *)
(* After invalid_len or unexpected_eof the reader is no longer in sync     *)
(* with the stream and the model stops (ph = "dead").                      *)
(*                                                                         *)
(* Writer: values 1..NV with payload lengths WVals[v] (-1: Encode fails);  *)
(* every write() of the underlying io::Write is one action: Accept(k),     *)
(* Interrupted, Zero (-> WriteZero), Fail.                                 *)
(***************************************************************************)
EXTENDS Integers, Sequences, FiniteSets, TLC, SequencesExt

CONSTANTS Frames, MaxLen, MaxIntr, MaxReads,          \* reader
          WVals, WMaxLen, MaxFaults                   \* writer

Min2(a, b) == IF a < b THEN a ELSE b
\* ================================ Reader =====================================
NF == Len(Frames)
RECURSIVE StreamFrom(_)
StreamFrom(f) == IF f > NF THEN <<>> ELSE
    [i \in 1..4 |-> <<f, 0, i>>] \o [i \in 1..Frames[f].n |-> <<f, 1, i>>] \o StreamFrom(f + 1)
Full   == StreamFrom(1)
Total  == Len(Full)
RECURSIVE FrameEnd(_)
FrameEnd(f) == IF f = 0 THEN 0 ELSE FrameEnd(f - 1) + 4 + Frames[f].n

VARIABLES cut, ph,     \* "idle" | "len" | "val" | "dead"
          lenbuf, need, buf, rd, out, nintr, nreads, rsched
rvars == <<cut, ph, lenbuf, need, buf, rd, out, nintr, nreads, rsched>>
rview == <<cut, ph, lenbuf, need, buf, rd, out, nintr, nreads>>
Stream == SubSeq(Full, 1, cut)
Avail  == Len(Stream) - rd
RInit == /\ cut \in 0..Total /\ ph = "idle" /\ lenbuf = <<>> /\ need = 0 /\ buf = <<>> /\ rd = 0 /\ out = <<>>
         /\ nintr = 0 /\ nreads = 0 /\ rsched = <<>>
RLog(e) == rsched' = Append(rsched, e)
RRet(r, p) == out' = Append(out, r) /\ ph' = p
RStart == /\ ph = "idle" /\ nreads < MaxReads /\ nreads' = nreads + 1 /\ ph' = "len" /\ lenbuf' = <<>> /\ RLog([a |-> "read", k |-> 0])
          /\ UNCHANGED <<cut, need, buf, rd, out, nintr>>
PrefixFrame == lenbuf[1][1]
InSync == \A i \in 1..Len(lenbuf) : lenbuf[i] = <<PrefixFrame, 0, i>>
RLenComplete == /\ ph = "len" /\ Len(lenbuf) = 4
                /\ LET n == IF InSync THEN Frames[PrefixFrame].n ELSE MaxLen + 1 IN
                   IF n > MaxLen THEN RRet(<<"invalid_len">>, "dead") /\ UNCHANGED <<need, buf>>
                   ELSE ph' = "val" /\ need' = n /\ buf' = <<>> /\ UNCHANGED out
                /\ UNCHANGED <<cut, lenbuf, rd, nintr, nreads, rsched>>
Decoded(b) == IF b # <<>> /\ (\A i \in 1..Len(b) : b[i] = <<b[1][1], 1, i>>) /\ Len(b) = Frames[b[1][1]].n /\ Frames[b[1][1]].good
              THEN <<"val", b[1][1]>> ELSE <<"decode_err">>
RValComplete == /\ ph = "val" /\ Len(buf) >= need /\ RRet(Decoded(buf), "idle")
                /\ UNCHANGED <<cut, lenbuf, need, buf, rd, nintr, nreads, rsched>>
Want == IF ph = "len" THEN 4 - Len(lenbuf) ELSE need - Len(buf)
Reading == (ph = "len" /\ Len(lenbuf) < 4) \/ (ph = "val" /\ Len(buf) < need)
\* (RDeliverK(k) / WAcceptK(k): the actions for a given k - what a recorded event binds)
RDeliverK(k) == /\ Reading /\ Avail > 0 /\ k \in 1..Min2(Want, Avail)
                /\ LET got == SubSeq(Stream, rd + 1, rd + k) IN
                   /\ rd' = rd + k /\ RLog([a |-> "deliver", k |-> k])
                   /\ IF ph = "len" THEN lenbuf' = lenbuf \o got /\ UNCHANGED buf ELSE buf' = buf \o got /\ UNCHANGED lenbuf
                /\ nintr' = 0 /\ UNCHANGED <<cut, ph, need, out, nreads>>
RDeliver == \E k \in 1..Min2(Want, Avail) : RDeliverK(k)
RIntr == /\ Reading /\ nintr < MaxIntr /\ nintr' = nintr + 1 /\ RLog([a |-> "intr", k |-> 0])
         /\ UNCHANGED <<cut, ph, lenbuf, need, buf, rd, out, nreads>>
REof == /\ Reading /\ Avail = 0 /\ RLog([a |-> "eof", k |-> 0])
        /\ IF ph = "len" /\ Len(lenbuf) = 0 THEN RRet(<<"end">>, "idle") ELSE RRet(<<"unexpected_eof">>, "dead")
        /\ UNCHANGED <<cut, lenbuf, need, buf, rd, nintr, nreads>>
RNext == RStart \/ RLenComplete \/ RValComplete \/ RDeliver \/ RIntr \/ REof

IsVal(r) == r[1] \in {"val", "decode_err"}
RVals == SelectSeq(out, IsVal)
\* exactly the written values in order; a payload that does not decode does not desynchronise its successors
InOrder == \A i \in 1..Len(RVals) : i <= NF /\ RVals[i] = IF Frames[i].good THEN <<"val", i>> ELSE <<"decode_err">>
\* a stream cut inside a frame never yields a value for that frame
NeverValueFromCutFrame == \A i \in 1..Len(RVals) : FrameEnd(i) <= cut
CleanEndOnlyAtBoundary == \A i \in 1..Len(out) : out[i] = <<"end">> =>
     \E f \in 0..NF : FrameEnd(f) = cut /\ Len(SelectSeq(SubSeq(out, 1, i), IsVal)) = f
UEofOnlyInsideFrame == \A i \in 1..Len(out) : out[i] = <<"unexpected_eof">> => ~\E f \in 0..NF : FrameEnd(f) = cut
InvalidLenJustified == \A i \in 1..Len(out) : out[i] = <<"invalid_len">> =>
     \E f \in 1..NF : Frames[f].n > MaxLen /\ Len(SelectSeq(SubSeq(out, 1, i), IsVal)) = f - 1
\* never buffers more than max_len for a frame
BufferBounded == Len(buf) <= MaxLen /\ need <= MaxLen
\* once everything was delivered and the reader is idle, all complete frames have been handed out
AllDelivered == (ph = "idle" /\ out # <<>> /\ out[Len(out)] = <<"end">>) => Len(RVals) = CHOOSE f \in 0..NF : FrameEnd(f) = cut

\* ================================ Writer =====================================
NV == Len(WVals)
WFrame(v) == [i \in 1..(4 + WVals[v]) |-> <<v, i>>]
VARIABLES wph,        \* "idle" | "writing" | "dead"
          wbuf, woff, sink, wn, wout, nfault, wintr, wsched, done
wvars == <<wph, wbuf, woff, sink, wn, wout, nfault, wintr, wsched, done>>
wview == <<wph, wbuf, woff, sink, wn, wout, nfault, wintr, done>>
WInit == wph = "idle" /\ wbuf = <<>> /\ woff = 0 /\ sink = <<>> /\ wn = 0 /\ wout = <<>> /\ nfault = 0 /\ wintr = 0 /\ wsched = <<>> /\ done = <<>>
WLog(e) == wsched' = Append(wsched, e)
WStart == /\ wph = "idle" /\ wn < NV /\ wn' = wn + 1 /\ WLog([a |-> "write", k |-> wn + 1])
          /\ LET v == wn + 1 IN
             IF WVals[v] = -1 THEN wout' = Append(wout, <<"encode_err">>) /\ UNCHANGED <<wph, wbuf, woff, done>>
             ELSE IF WVals[v] > WMaxLen THEN wout' = Append(wout, <<"invalid_len">>) /\ UNCHANGED <<wph, wbuf, woff, done>>
             ELSE wph' = "writing" /\ wbuf' = WFrame(v) /\ woff' = 0 /\ UNCHANGED <<wout, done>>
          /\ UNCHANGED <<sink, nfault, wintr>>
WComplete == /\ wph = "writing" /\ woff >= Len(wbuf) /\ wph' = "idle" /\ wout' = Append(wout, <<"ok", Len(wbuf) - 4>>)
             /\ done' = Append(done, wbuf[1][1])
             /\ UNCHANGED <<wbuf, woff, sink, wn, nfault, wintr, wsched>>
Writing == wph = "writing" /\ woff < Len(wbuf)
WAcceptK(k) == /\ Writing /\ k \in 1..(Len(wbuf) - woff)
               /\ sink' = sink \o SubSeq(wbuf, woff + 1, woff + k) /\ woff' = woff + k /\ WLog([a |-> "accept", k |-> k])
               /\ wintr' = 0 /\ UNCHANGED <<wph, wbuf, wn, wout, nfault, done>>
WAccept == \E k \in 1..(Len(wbuf) - woff) : WAcceptK(k)
WIntr == /\ Writing /\ wintr < MaxIntr /\ wintr' = wintr + 1 /\ WLog([a |-> "intr", k |-> 0])
         /\ UNCHANGED <<wph, wbuf, woff, sink, wn, wout, nfault, done>>
\* a failed write leaves a torn frame in the sink: the stream is broken from there on (dead)
WZero == /\ Writing /\ nfault < MaxFaults /\ nfault' = nfault + 1 /\ WLog([a |-> "zero", k |-> 0])
         /\ wout' = Append(wout, <<"write_zero">>) /\ wph' = "dead" /\ UNCHANGED <<wbuf, woff, sink, wn, wintr, done>>
WFail == /\ Writing /\ nfault < MaxFaults /\ nfault' = nfault + 1 /\ WLog([a |-> "fail", k |-> 0])
         /\ wout' = Append(wout, <<"io_error">>) /\ wph' = "dead" /\ UNCHANGED <<wbuf, woff, sink, wn, wintr, done>>
WNext == WStart \/ WComplete \/ WAccept \/ WIntr \/ WZero \/ WFail

RECURSIVE WCat(_)
WCat(vs) == IF vs = <<>> THEN <<>> ELSE WFrame(Head(vs)) \o WCat(Tail(vs))
\* the sink is the concatenation of the complete frames of the successfully written values, plus a prefix of the frame in flight
WholeFrames == \/ sink = WCat(done) /\ (wph = "writing" => woff = 0)
               \/ wph \in {"writing", "dead"} /\ sink = WCat(done) \o SubSeq(wbuf, 1, woff)
\* the writer returns the payload length and never emits a frame above its maximum
OkIsLength == \A i \in 1..Len(wout) : wout[i][1] = "ok" => wout[i][2] \in 0..WMaxLen
NoOversizedFrame == \A i \in 1..Len(sink) : WVals[sink[i][1]] \in 0..WMaxLen
=============================================================================
