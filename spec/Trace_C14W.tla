----------------------------- MODULE Trace_C14W -----------------------------
(* Trace validation of recorded runs of the blocking Writer against BlockingIO (writer part). *)
EXTENDS BlockingIO, Json, IOUtils
VARIABLES l, nret
Rec == ndJsonDeserialize(IOEnv.TRACE)
TrVals == Rec[1].vals
TrMaxLen == Rec[1].maxlen
Big == 1000000000
None == <<>>
BE32(n, i) == (n \div (256 ^ (4 - i))) % 256
ByteOf(v, i) == IF i <= 4 THEN BE32(WVals[v], i) ELSE IF i = 5 THEN v % 24 ELSE (v * 41 + (i - 5) * 13) % 256
SinkBytes == [i \in 1..Len(sink) |-> ByteOf(sink[i][1], sink[i][2])]
TInit == RInit /\ WInit /\ cut = 0 /\ l = 2 /\ nret = 0 /\ TLCSet(1, 0)
IntEn == wph = "writing" /\ woff >= Len(wbuf)
LastK == wsched'[Len(wsched')].k
Ev(e) == \/ e.ev = "write"  /\ WStart  /\ LastK = e.k /\ UNCHANGED nret
         \/ e.ev = "accept" /\ WAcceptK(e.k) /\ LastK = e.k /\ UNCHANGED nret
         \/ e.ev = "intr"   /\ WIntr   /\ UNCHANGED nret
         \/ e.ev = "zero"   /\ WZero   /\ UNCHANGED nret
         \/ e.ev = "fail"   /\ WFail   /\ UNCHANGED nret
         \/ e.ev = "ret" /\ wph \in {"idle", "dead"} /\ Len(wout) = nret + 1 /\ wout[Len(wout)] = e.r /\ Len(sink) = e.sinklen
                         /\ nret' = nret + 1 /\ UNCHANGED wvars
         \/ e.ev = "end" /\ SinkBytes = e.sink /\ UNCHANGED <<wvars, nret>>
TNext == /\ UNCHANGED rvars
         /\ \/ IntEn /\ WComplete /\ UNCHANGED <<l, nret>>
            \/ ~IntEn /\ l <= Len(Rec) /\ Ev(Rec[l]) /\ l' = l + 1
Progress == TLCSet(1, IF TLCGet(1) < l THEN l ELSE TLCGet(1))
Accepted == \/ TLCGet(1) = Len(Rec) + 1
            \/ PrintT(<<"MISMATCH", TLCGet(1), ToJson([ev |-> Rec[TLCGet(1)], header |-> Rec[1], at |-> TLCGet(1)])>>)
=============================================================================
