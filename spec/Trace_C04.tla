------------------------------ MODULE Trace_C04 ------------------------------
(* Trace validation for C04 (accessor level): every recorded accessor call against AccExpect. *)
EXTENDS C04, TLC, Json, IOUtils
VARIABLE l
Rec == ndJsonDeserialize(IOEnv.TRACE)
\* the position never exceeds the input, whatever happened (C02 bound)
PosOK(e) == e.obs.p \notin {"ok", "err"} \/ e.obs.pos <= Len(e.in.buf)
EventOK(e) == /\ FObsOK(e.obs, AccExpect(e.name, TRUE, e.in.buf, e.in.pos)) /\ PosOK(e)
              /\ (e.fam = "probe" => e.obs.opos = e.in.pos)          \* C04!ProbeExpect
Init == l = 1
Next == /\ l <= Len(Rec) /\ l' = l + 1
        /\ IF EventOK(Rec[l]) THEN TRUE ELSE PrintT(<<"MISMATCH", l, ToJson(Rec[l])>>)
AllConsumed == TLCGet("stats").diameter - 1 = Len(Rec) \/ PrintT(<<"NOTCONSUMED", TLCGet("stats").diameter - 1, Len(Rec)>>)
=============================================================================
