------------------------------ MODULE Trace_C06 ------------------------------
(* Trace validation for C06: skip() (alloc and no-alloc builds) and full decoding of the same item. *)
EXTENDS SkipProp, TLC, Json, IOUtils
VARIABLE l
Rec == ndJsonDeserialize(IOEnv.TRACE)
Match(obs, pat) == CASE pat.p = "any" -> obs.p \in {"ok", "err"}
                     [] pat.p = "err" -> obs.p = "err" /\ (pat.cls = "*" \/ obs.cls = pat.cls)
                     [] pat.p = "ok"  -> obs.p = "ok" /\ obs.pos = pat.pos /\ obs.v = pat.v
ObsOK(obs, pats) == \E x \in pats : Match(obs, x)
\* the position never exceeds the input (C02 bound), whatever happened
PosOK(e) == e.obs.p = "panic" \/ e.obs.pos <= Len(e.in.buf)
Expect(e) == CASE e.name = "skip" -> SkipExpect(e.cfg # "none", e.in.buf, e.in.pos)
               [] e.name = "item" -> SkipExpect(TRUE, e.in.buf, e.in.pos)
EventOK(e) == ObsOK(e.obs, Expect(e)) /\ PosOK(e)
Init == l = 1
Next == /\ l <= Len(Rec) /\ l' = l + 1
        /\ IF EventOK(Rec[l]) THEN TRUE ELSE PrintT(<<"MISMATCH", l, ToJson(Rec[l])>>)
AllConsumed == TLCGet("stats").diameter - 1 = Len(Rec) \/ PrintT(<<"NOTCONSUMED", TLCGet("stats").diameter - 1, Len(Rec)>>)
=============================================================================
