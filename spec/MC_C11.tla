------------------------------- MODULE MC_C11 -------------------------------
(* (1) byte strings made of up to MaxTok token groups: token stream, re-encoding identity, count bound;  *)
(* (2) token sequences up to MaxToks: encode then tokenise gives value-equal tokens.                    *)
EXTENDS Token, TLC, Json
CONSTANTS MaxTok, MaxToks, Rich
VARIABLES ph, buf, ntok, ts
vars == <<ph, buf, ntok, ts>>
Core == { <<1>>, <<24, 24>>, <<25, 1, 0>>, <<56, 128>>, <<193>>, <<128>>, <<130>>, <<161>>, <<159>>, <<191>>, <<255>>, <<95>>, <<127>>, <<65, 7>>, <<97, 97>>,
          <<246>>, <<245>>, <<224>>, <<248, 32>>, <<249, 60, 0>> }
More == { <<24, 1>>, <<25, 0, 1>>, <<26, 0, 0, 0, 1>>, <<27, 0, 0, 0, 0, 0, 0, 0, 1>>, <<59, 128, 0, 0, 0, 0, 0, 0, 0>>, <<152, 1>>, <<184, 0>>, <<216, 1>>,
          <<88, 1, 9>>, <<120, 1, 98>>, <<247>>, <<244>>, <<250, 63, 128, 0, 0>>, <<251, 63, 240, 0, 0, 0, 0, 0, 0>>, <<249, 126, 1>>, <<28>>, <<97, 255>>, <<248, 5>> }
Groups == IF Rich THEN Core \cup More ELSE Core
TokAlphabet == { TkInt(FALSE, FromNat(5)), TkInt(FALSE, FromNat(300)), TkInt(TRUE, FromNat(0)), TkInt(TRUE, Max64), [m |-> "bool", b |-> TRUE], [m |-> "null"],
                 [m |-> "undefined"], [m |-> "simple", i |-> 3], [m |-> "simple", i |-> 20], [m |-> "simple", i |-> 22], [m |-> "simple", i |-> 23],
                 [m |-> "simple", i |-> 200], [m |-> "f16", bits |-> <<63, 128, 0, 0>>], [m |-> "f32", bits |-> <<63, 128, 0, 1>>],
                 [m |-> "f64", bits |-> <<63, 240, 0, 0, 0, 0, 0, 1>>], [m |-> "bytes", b |-> <<1, 2>>], [m |-> "str", b |-> <<104, 105>>],
                 [m |-> "array", n |-> FromNat(2)], [m |-> "map", n |-> FromNat(300)], [m |-> "tag", n |-> Max64], [m |-> "end"],
                 [m |-> "begin_bytes"], [m |-> "begin_str"], [m |-> "begin_array"], [m |-> "begin_map"], [m |-> "str", b |-> <<>>] }
Init == ph = "start" /\ buf = <<>> /\ ntok = 0 /\ ts = <<>>
Next == \/ ph = "start" /\ ph' \in {"bytes", "toks"} /\ UNCHANGED <<buf, ntok, ts>>
        \/ ph = "bytes" /\ ntok < MaxTok /\ (\E g \in Groups : buf' = buf \o g) /\ ntok' = ntok + 1 /\ UNCHANGED <<ph, ts>>
        \/ ph = "toks" /\ Len(ts) < MaxToks /\ (\E t \in TokAlphabet : ts' = Append(ts, t)) /\ UNCHANGED <<ph, buf, ntok>>
BytesExpect(b) == [pinned |-> Pinned(b), toks |-> IF Pinned(b) THEN TokSeq(b).toks ELSE <<>>,
                   reenc |-> IF Pinned(b) THEN ToksBytes(TokSeq(b).toks) ELSE <<>>, maxcount |-> Len(b)]
Emit == /\ (ph = "bytes" /\ buf' # buf) => PrintT(<<"CASE", ToJson([fam |-> "tok", name |-> "bytes", in |-> [buf |-> buf'], exp |-> BytesExpect(buf')])>>)
        /\ (ph = "toks" /\ ts' # ts) => PrintT(<<"CASE", ToJson([fam |-> "tok", name |-> "toks", in |-> [toks |-> ts'],
                                                                 exp |-> [bytes |-> ToksBytes(ts'), toks |-> NormSeq(ts')]])>>)
S == TokSeq(buf)
\* at most one token per input byte
CountBound == ph = "bytes" => Len(S.toks) <= Len(buf)
\* a well-formed sequence tokenises completely, without error
PinnedComplete == (ph = "bytes" /\ Pinned(buf)) => S.fin = "end"
\* re-encoding the tokens of a well-formed sequence gives its preferred form (indefinite framing is kept as it is):
\* the same data items, and the identity when the input already uses shortest heads
ReencodeSame == (ph = "bytes" /\ Pinned(buf)) =>
                   LET r == ToksBytes(S.toks) IN
                   /\ WellFormedSeq(r) /\ NormSeq(TokSeq(r).toks) = NormSeq(S.toks)
                   /\ Len(r) <= Len(buf)
                   /\ (Len(r) = Len(buf) => r = buf)
\* encode-then-tokenise gives value-equal tokens
TokRoundTrip == (ph = "toks" /\ \A i \in 1..Len(ts) : Encodable(ts[i])) =>
                   LET r == TokSeq(ToksBytes(ts)) IN r.fin = "end" /\ NormSeq(r.toks) = NormSeq(ts)
=============================================================================
