-------------------------------- MODULE C05 --------------------------------
(***************************************************************************)
(* Property C05: integer decoding is value-preserving across widths.       *)
(* Expect(fam, name, in) is the set of acceptable outcomes of one call;    *)
(* it is used both to emit cases for replay on the implementation and to   *)
(* validate traces recorded from it.                                       *)
(***************************************************************************)
EXTENDS Decoder

Pow2(k) == [i \in 1..8 |-> IF i = 8 - (k \div 8) THEN 2^(k % 8) ELSE 0]       \* 2^k, k in 0..63

\* ---- typed decode::<T>() of integer-like types -----------------------------
\* each is documented as the accessor of its underlying primitive, NonZero* additionally rejects 0
Under(T) == CASE T \in {"u8", "nzu8", "au8", "wu8"} -> "u8"
              [] T \in {"u16", "nzu16", "au16"} -> "u16"
              [] T \in {"u32", "nzu32", "au32"} -> "u32"
              [] T \in {"u64", "nzu64", "au64", "usize", "nzusize", "ausize"} -> "u64"
              [] T \in {"i8", "nzi8", "ai8"} -> "i8"
              [] T \in {"i16", "nzi16", "ai16"} -> "i16"
              [] T \in {"i32", "nzi32", "ai32"} -> "i32"
              [] T \in {"i64", "nzi64", "ai64", "isize", "nzisize", "aisize", "wi64"} -> "i64"
              [] T = "int" -> "int"
NonZeroTypes == {"nzu8", "nzu16", "nzu32", "nzu64", "nzusize", "nzi8", "nzi16", "nzi32", "nzi64", "nzisize"}
DecTypes == {"u8", "u16", "u32", "u64", "usize", "i8", "i16", "i32", "i64", "isize", "int",
             "au8", "au16", "au32", "au64", "ausize", "ai8", "ai16", "ai32", "ai64", "aisize", "wu8", "wi64"}
            \cup NonZeroTypes
DecAcc(T, buf, p) ==
   IF T = "char" THEN CharAcc(buf, p)
   ELSE LET r == IntAcc(Under(T), buf, p) IN
        IF T \in NonZeroTypes
        THEN { IF x.p = "ok" /\ ~x.v.neg /\ IsZero(x.v.mag) THEN Err("*") ELSE x : x \in r }
        ELSE r

\* ---- Int <-> primitive conversions ---------------------------------------------
\* wide values are (neg, 16-byte magnitude)
VWide(neg, mag16) == [k |-> "wide", neg |-> neg, mag |-> mag16]
Hi8(m) == SubSeq(m, 1, 8)
Lo8(m) == SubSeq(m, 9, 16)
Widen(m8) == Zero64 \o m8
\* Int::from / try_from(primitive): exact whenever the value lies in [-2^64, 2^64-1], else an error
IntFrom(neg, mag16) == IF Hi8(mag16) = Zero64 THEN {Ok(VInt(neg, Lo8(mag16)), 0)} ELSE {Err("*")}
\* T::try_from(Int): exact or fails
WideRepr(T, neg, mag) == CASE T = "u128" -> ~neg [] T = "i128" -> TRUE [] OTHER -> Representable(T, neg, mag)
IntInto(T, neg, mag) == IF WideRepr(T, neg, mag) THEN {Ok(VWide(neg, Widen(mag)), 0)} ELSE {Err("*")}

Expect(fam, name, in) ==
   CASE fam = "acc" /\ name \in IntTypes -> IntAcc(name, in.buf, in.pos)
     [] fam = "acc" /\ name = "char"     -> CharAcc(in.buf, in.pos)
     [] fam = "acc" /\ name = "datatype" -> DatatypeAcc(in.buf, in.pos)
     [] fam = "dec"                      -> DecAcc(name, in.buf, in.pos)
     [] fam = "int_from"                 -> IntFrom(in.neg, in.mag)
     [] fam = "int_into"                 -> IntInto(name, in.neg, in.mag)

Match(obs, pat) == CASE pat.p = "any" -> obs.p \in {"ok", "err"}
                     [] pat.p = "err" -> obs.p = "err" /\ (pat.cls = "*" \/ obs.cls = pat.cls)
                     [] pat.p = "ok"  -> obs.p = "ok" /\ obs.pos = pat.pos /\ obs.v = pat.v
ObsOK(obs, pats) == \E x \in pats : Match(obs, x)

\* ---- self-consistency of the definitions (checked by TLC on the boundary set) ----
\* Representable, defined on bit lengths above, restated with explicit bounds
MaxOf(T) == CASE T = "u8" -> FromNat(255) [] T = "u16" -> FromNat(65535) [] T = "u32" -> Dec(Pow2(32)) [] T = "u64" -> Max64
              [] T = "i8" -> FromNat(127) [] T = "i16" -> FromNat(32767) [] T = "i32" -> Dec(Pow2(31)) [] T = "i64" -> Dec(Pow2(63))
              [] T = "int" -> Max64
ReprByBound(T, neg, mag) == (T \in {"u8", "u16", "u32", "u64"} => ~neg) /\ Le(mag, MaxOf(T))
=============================================================================
