INIT Init
NEXT Next
CONSTANT Frames <- FramesA
CONSTANT MaxLen = 3
CONSTANT MaxPend = 2
CONSTANT MaxErr = 1
CONSTANT MaxReads = 6
CONSTANT KeepSched = TRUE
VIEW view
ACTION_CONSTRAINT Emit
INVARIANT InOrderNoLossNoDupNoTear NeverValueFromCutFrame CleanEndOnlyAtBoundary UEofOnlyInsideFrame ErrorsReportedOnce InvalidLenJustified BufferBounded StaysInSync
CHECK_DEADLOCK FALSE
