------------------------------ MODULE MC_Tables ------------------------------
(* Decision tables for the full 2^32 sweeps (DESIGN.md section 8).  For integer reads and for head selection the            *)
(* specification's outcome depends only on a finite class of the argument, (major, BitLen(arg)): TLC emits the complete      *)
(* table over the classes and checks on the least, the greatest and a middle element of every class that the outcome is      *)
(* constant on the class and, where it is `ok`, is the identity on the value.  The harness then sweeps all 2^32 arguments    *)
(* of the 4-byte head width (and all of the narrower ones) and checks every point against the row of its class.             *)
EXTENDS C05, Encoder, TLC, Json
VARIABLES ph, t, mj, bl
vars == <<ph, t, mj, bl>>
Targets == DecTypes \cup IntTypes
EncMethods == {"u8", "u16", "u32", "u64", "i8", "i16", "i32", "i64", "int"}
Lo(b) == IF b = 0 THEN Zero64 ELSE Pow2(b - 1)
Hi(b) == IF b = 0 THEN Zero64 ELSE IF b = 64 THEN Max64 ELSE Dec(Pow2(b))
Mid(b) == IF b < 3 THEN Lo(b) ELSE Add(Lo(b), Pow2(b - 2))
Reps(b) == {Lo(b), Hi(b), Mid(b)}
\* reading (major, arg) as T from an 8-byte head (the width is irrelevant to the outcome: checked by MC_C05 on the boundary set)
ReadOK(T, major, a) == LET r == DecAcc(T, HeadBytes(major, a, 8), 0) IN \E x \in r : x.p = "ok"
ReadIsIdentity(T, major, a) == \A x \in DecAcc(T, HeadBytes(major, a, 8), 0) : x.p = "ok" => (x.v = VInt(major = 1, a) /\ x.pos = 9)
\* the head width an integer method must choose for (neg, arg)
EncWidth(a) == PreferredWidth(a)
Init == ph = "t" /\ t = "u8" /\ mj = 0 /\ bl = 0
Next == \/ ph = "t" /\ t' \in Targets /\ ph' = "mj" /\ UNCHANGED <<mj, bl>>
        \/ ph = "mj" /\ mj' \in {0, 1} /\ ph' = "bl" /\ UNCHANGED <<t, bl>>
        \/ ph = "bl" /\ bl' \in 0..64 /\ ph' = "done" /\ UNCHANGED <<t, mj>>
Emit == (ph' = "done") =>
   /\ PrintT(<<"TABLE", ToJson([kind |-> "read", t |-> t, mj |-> mj, bl |-> bl', ok |-> ReadOK(t, mj, Lo(bl'))])>>)
   /\ (t = "u8" /\ mj = 0) => PrintT(<<"TABLE", ToJson([kind |-> "width", t |-> "*", mj |-> 0, bl |-> bl', ok |-> TRUE, w |-> EncWidth(Lo(bl'))])>>)
\* the outcome is constant on every class, and a successful read returns exactly the value
ClassConstant == ph = "done" => \A a \in Reps(bl) : ReadOK(t, mj, a) = ReadOK(t, mj, Lo(bl))
Identity      == ph = "done" => \A a \in Reps(bl) : ReadIsIdentity(t, mj, a)
\* the preferred width is constant on a class except where a class straddles the immediate / 1-byte boundary (bit length 5: 16..23 | 24..31)
WidthConstant == ph = "done" => (bl # 5 => \A a \in Reps(bl) : EncWidth(a) = EncWidth(Lo(bl)))
=============================================================================
