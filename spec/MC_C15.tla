------------------------------- MODULE MC_C15 -------------------------------
EXTENDS AsyncReader, Json
\* payload lengths: 0 = empty (never decodes), one frame above MaxLen, one that does not decode
FramesA == << [n |-> 2, good |-> TRUE], [n |-> 0, good |-> FALSE], [n |-> 3, good |-> TRUE], [n |-> 1, good |-> TRUE] >>
FramesB == << [n |-> 1, good |-> TRUE], [n |-> 2, good |-> FALSE], [n |-> 5, good |-> TRUE], [n |-> 1, good |-> TRUE] >>
Unbounded == -1
FramesC == << [n |-> 3, good |-> TRUE], [n |-> 3, good |-> TRUE] >>
\* The implementation runs the internal steps (LenComplete, ValComplete) in the same poll that delivered the last
\* byte; the expected results of a schedule are therefore those of the state after these steps have settled.
Settled == IF fut' = "run" /\ tag' = "len" /\ Len(lenbuf') = 4 THEN
              LET f == lenbuf'[1][1]
                  sync == \A i \in 1..4 : lenbuf'[i] = <<f, 0, i>>
                  n == IF sync THEN Frames[f].n ELSE MaxLen + 1 IN
              IF n > MaxLen THEN Append(out', <<"invalid_len">>)
              ELSE IF n = 0 THEN Append(out', Decoded(<<>>)) ELSE out'
           ELSE IF fut' = "run" /\ tag' = "val" /\ off' >= need' THEN Append(out', Decoded(buf'))
           ELSE out'
Emit == sched' # sched =>
   PrintT(<<"CASE", ToJson([fam |-> "aread", name |-> "script",
                            in |-> [frames |-> Frames, cut |-> cut, maxlen |-> MaxLen, sched |-> sched'],
                            exp |-> [out |-> Settled, rd |-> rd', desync |-> ""]])>>)
=============================================================================
