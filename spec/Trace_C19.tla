------------------------------ MODULE Trace_C19 ------------------------------
(* Trace validation for C19: one event per display call: the input, the output bytes, whether the size-limited *)
(* sink overflowed, and for generated items the floats they contain with Rust's `{:e}` rendering of each.       *)
EXTENDS Display, TLC, Json, IOUtils
VARIABLE l
Rec == ndJsonDeserialize(IOEnv.TRACE)
\* replace every float atom by the rendering supplied for exactly that width and bit pattern
RECURSIVE Subst(_, _, _)
Subst(o, i, fl) ==
   IF i > Len(o) THEN <<>>
   ELSE IF o[i] = -1 THEN
        LET w == o[i + 1]  bits == SubSeq(o, i + 2, i + 1 + w)
            hits == { k \in 1..Len(fl) : fl[k].w = w /\ fl[k].bits = bits } IN
        IF hits # {} THEN fl[CHOOSE k \in hits : TRUE].text \o Subst(o, i + 2 + w, fl)
        ELSE <<-3>>                                                     \* no rendering supplied: cannot match
   ELSE <<o[i]>> \o Subst(o, i + 1, fl)
EventOK(e) ==
   /\ e.obs.p = "run" /\ ~e.obs.overflow /\ ~e.obs.fmt_err
   /\ Len(e.obs.out) <= OutBound(Len(e.in.buf))
   /\ Renderable(e.in.buf) => e.obs.out = Subst(Diag(e.in.buf), 1, e.fl)
Init == l = 1
Next == /\ l <= Len(Rec) /\ l' = l + 1
        /\ IF EventOK(Rec[l]) THEN TRUE ELSE PrintT(<<"MISMATCH", l, ToJson(Rec[l])>>)
AllConsumed == TLCGet("stats").diameter - 1 = Len(Rec) \/ PrintT(<<"NOTCONSUMED", TLCGet("stats").diameter - 1, Len(Rec)>>)
=============================================================================
