----------------------------- MODULE Trace_Serde -----------------------------
(* Trace validation of the serde bridge (C17) and of its agreement with the native impls (C18).  Events:           *)
(*   serde/rt    a value of a family type, the bytes the bridge wrote, the result of deserialising them back       *)
(*   serde/alt   the same item re-framed at random (other head widths, indefinite containers, chunked strings)     *)
(*   serde/mut   a mutated encoding deserialised as the type (totality only, belongs to C02)                       *)
(*   both/x      a value of a shared type: native bytes, bridge bytes, each decoded by the other side, and a       *)
(*               re-framing decoded by both                                                                         *)
EXTENDS SerdeTable, TLC, Json, IOUtils
VARIABLE l
Rec == ndJsonDeserialize(IOEnv.TRACE)
DecIs(o, v, n) == o.p = "run" /\ o.dec_ok /\ o.dec = v /\ o.pos = n
\* a decoder given an alternative encoding of the item returns that value or an error, never another value
AltOK(o, v, n) == o.p = "run" /\ (~o.dec_ok \/ DecIs(o, v, n))
SameData(alt, ref) == WellFormedItem(alt) /\ Tree(alt) = Tree(ref)
Why(e) ==
   CASE e.fam = "serde" /\ e.name = "rt" ->
          IF ~e.ser_ok THEN "ser"                                                     \* every value of the family is serialisable
          ELSE IF e.bytes # SerEnc(STable[e.ty], e.val) THEN "enc"                     \* the documented representation (one well-formed item: MC_C17)
          ELSE IF ~DecIs(e.obs, e.val, Len(e.bytes)) THEN "rt"                         \* deserialises to an equal value, consuming exactly the item
          ELSE IF e.obs.reenc # e.bytes THEN "reenc" ELSE "ok"
     [] e.fam = "serde" /\ e.name = "alt" ->
          IF ~SameData(e.alt, e.bytes) THEN "HARNESS"
          ELSE IF AltOK(e.obs, e.val, Len(e.alt)) THEN "ok" ELSE "alt"
     [] e.fam = "serde" /\ e.name = "mut" ->
          IF e.obs.p = "run" /\ e.obs.pos <= Len(e.buf) /\ e.obs.alloc <= 256 * Len(e.buf) + 16384 THEN "ok" ELSE "mut"
     [] e.fam = "both" ->
          LET d == TypeTable[e.ty] IN
          IF ~IsEncodingOf(d, e.val, e.nb) THEN "nenc"                                 \* (C01/C03: the native reference encoding)
          ELSE IF e.sb # e.nb THEN "bytes"                                             \* identical bytes from both codecs
          ELSE IF ~(d.d \in {"seq", "map"} /\ d.unordered) /\ e.sb # SerEnc(Embed(d), e.val) THEN "senc"
          ELSE IF ~DecIs(e.n_of_s, e.val, Len(e.sb)) THEN "n_of_s"                     \* bridge bytes through the native decoder
          ELSE IF ~DecIs(e.s_of_n, e.val, Len(e.nb)) THEN "s_of_n"                     \* native bytes through the bridge
          ELSE IF ~SameData(e.alt, e.nb) THEN "HARNESS"
          ELSE IF ~AltOK(e.n_alt, e.val, Len(e.alt)) THEN "n_alt"
          ELSE IF ~AltOK(e.s_alt, e.val, Len(e.alt)) THEN "s_alt" ELSE "ok"
Init == l = 1
Next == /\ l <= Len(Rec) /\ l' = l + 1
        /\ LET w == Why(Rec[l]) IN IF w = "ok" THEN TRUE ELSE PrintT(<<"MISMATCH", l, ToJson([why |-> w, ev |-> Rec[l]])>>)
AllConsumed == TLCGet("stats").diameter - 1 = Len(Rec) \/ PrintT(<<"NOTCONSUMED", TLCGet("stats").diameter - 1, Len(Rec)>>)
=============================================================================
