------------------------------ MODULE MC_Derive ------------------------------
(* Enumeration of schemas (families below), of all values of each, and of pairs (writer, reader) related by the       *)
(* documented compatible changes.  Emits, for replay on the real derive macros:                                        *)
(*   enc  (schema, value)        -> the documented bytes and their length            (C08, C07)                        *)
(*   dec  (reader schema, bytes) -> the value the reader must obtain, or an error     (C09: reader = writer, also       *)
(*                                  re-framed; C10: reader related to the writer by compatible changes)                *)
EXTENDS Derive, TLC, Json
CONSTANT Tier
VARIABLES ph, wsch, wv, rsch
vars == <<ph, wsch, wv, rsch>>

Types == {"u8", "str", "bytes", "cu", "inA", "inM", "e2", "io"}
\* ---- values ----
ValsT(ty) == CASE ty = "u8"    -> {FV(TRUE, 7, <<>>, <<>>), FV(TRUE, 200, <<>>, <<>>)}
               [] ty \in TextTys  -> {FV(TRUE, 0, <<>>, <<>>), FV(TRUE, 0, <<97, 98>>, <<>>)}
               [] ty \in BytesTys -> {FV(TRUE, 0, <<>>, <<>>), FV(TRUE, 0, <<1, 2>>, <<>>)}
               [] ty = "cu"    -> {FV(TRUE, 5, <<>>, <<>>)}
               [] ty = "any"   -> { FV(TRUE, k, <<>>, <<>>) : k \in 1..Len(AnyItems) }
               [] ty \in {"inA", "inM"} -> {FV(TRUE, 0, <<>>, <<FV(TRUE, 7, <<>>, <<>>), None>>), FV(TRUE, 0, <<>>, <<FV(TRUE, 200, <<>>, <<>>), FV(TRUE, 1, <<>>, <<>>)>>)}
               [] ty = "e2"    -> {FV(TRUE, 0, <<>>, [var |-> 1, fv |-> <<>>]), FV(TRUE, 0, <<>>, [var |-> 2, fv |-> <<FV(TRUE, 9, <<>>, <<>>)>>])}
               [] ty = "e2x"   -> {FV(TRUE, 0, <<>>, [var |-> 1, fv |-> <<>>]), FV(TRUE, 0, <<>>, [var |-> 3, fv |-> <<None, FV(TRUE, 0, <<120>>, <<>>)>>]),
                                   FV(TRUE, 0, <<>>, [var |-> 3, fv |-> <<FV(TRUE, 3, <<>>, <<>>), FV(TRUE, 0, <<>>, <<>>)>>])}
               [] ty = "e2u"   -> {FV(TRUE, 0, <<>>, [var |-> 1, fv |-> <<None, None>>]), FV(TRUE, 0, <<>>, [var |-> 1, fv |-> <<FV(TRUE, 3, <<>>, <<>>), FV(TRUE, 0, <<120>>, <<>>)>>]),
                                   FV(TRUE, 0, <<>>, [var |-> 2, fv |-> <<FV(TRUE, 9, <<>>, <<>>)>>])}
               [] ty \in {"e2m", "e2a"} -> {FV(TRUE, 0, <<>>, [var |-> 1, fv |-> <<>>]), FV(TRUE, 0, <<>>, [var |-> 2, fv |-> <<FV(TRUE, 9, <<>>, <<>>)>>])}
               [] ty = "e2mu"  -> {FV(TRUE, 0, <<>>, [var |-> 1, fv |-> <<None, None>>]), FV(TRUE, 0, <<>>, [var |-> 1, fv |-> <<FV(TRUE, 3, <<>>, <<>>), FV(TRUE, 0, <<120>>, <<>>)>>]),
                                   FV(TRUE, 0, <<>>, [var |-> 2, fv |-> <<FV(TRUE, 9, <<>>, <<>>)>>])}
               [] ty = "e2au"  -> {FV(TRUE, 0, <<>>, [var |-> 1, fv |-> <<None>>]), FV(TRUE, 0, <<>>, [var |-> 1, fv |-> <<FV(TRUE, 3, <<>>, <<>>)>>]),
                                   FV(TRUE, 0, <<>>, [var |-> 2, fv |-> <<FV(TRUE, 9, <<>>, <<>>)>>])}
               [] ty = "io"    -> {FV(TRUE, 0, <<>>, [var |-> 1, fv |-> <<>>]), FV(TRUE, 0, <<>>, [var |-> 2, fv |-> <<>>])}
               [] ty = "eu"    -> {FV(TRUE, 0, <<>>, [var |-> 1, fv |-> <<>>]), FV(TRUE, 0, <<>>, [var |-> 2, fv |-> <<>>])}
               [] ty = "eux"   -> {FV(TRUE, 0, <<>>, [var |-> 2, fv |-> <<>>]), FV(TRUE, 0, <<>>, [var |-> 3, fv |-> <<>>]), FV(TRUE, 0, <<>>, [var |-> 4, fv |-> <<FV(TRUE, 9, <<>>, <<>>)>>])}
               [] ty \in CodTys -> {FV(TRUE, 7, <<>>, <<>>), FV(TRUE, 24, <<>>, <<>>)}
               [] ty = "oo"    -> {FV(TRUE, 7, <<>>, <<>>), FV(TRUE, OoNone, <<>>, <<>>)}
               [] ty = "iox"   -> {FV(TRUE, 0, <<>>, [var |-> 1, fv |-> <<>>]), FV(TRUE, 0, <<>>, [var |-> 3, fv |-> <<>>])}
ValsF(f) == IF f.skip THEN {FV(TRUE, 0, <<>>, <<>>)}
            ELSE IF f.ty = "cu" THEN ValsT("cu") \cup (IF f.opt THEN {FV(TRUE, CuNil, <<>>, <<>>)} ELSE {})
            ELSE ValsT(f.ty) \cup (IF f.opt \/ f.ty \in CodTys THEN {None} ELSE {})
RECURSIVE ValsFields(_, _)
ValsFields(fs, i) == IF i > Len(fs) THEN {<<>>} ELSE { <<x>> \o rest : x \in ValsF(fs[i]), rest \in ValsFields(fs, i + 1) }
ValsS(S) == IF S.kind = "struct" THEN ValsFields(S.fields, 1)
            ELSE UNION { { [var |-> k, fv |-> fv] : fv \in ValsFields(S.variants[k].fields, 1) } : k \in 1..Len(S.variants) }

\* ---- schema families ----
Encs == {"array", "map"}
\* one field: every field type x optional x field tag x index (with and without a gap) x encoding x struct tag x shape
OneField == { Struct(e, st, sh, <<F(i, o, t, ty)>>) :
                e \in Encs, st \in {-1, 7}, sh \in {"named", "tuple"}, i \in {0, 2}, o \in BOOLEAN, t \in {-1, 7, 256}, ty \in Types }
OneFieldQ == { S \in OneField : (S.fields[1].tag = 256 => S.fields[1].ty = "u8") /\ (S.tag = 7 => S.fields[1].idx = 0 /\ S.fields[1].ty \in {"u8", "str"})
                                /\ (S.shape = "tuple" => S.fields[1].ty \in {"u8", "inA", "e2"}) }
\* three fields: index patterns with gaps, every presence pattern, a tag on the middle field
Idx3 == {<<0, 1, 2>>, <<0, 2, 5>>, <<1, 2, 24>>, <<0, 23, 24>>}
ThreeFields == { Struct(e, -1, sh, <<F(ix[1], o1, -1, "u8"), F(ix[2], o2, t, "str"), F(ix[3], o3, -1, "u8")>>) :
                   e \in Encs, sh \in {"named", "tuple"}, ix \in Idx3, o1 \in BOOLEAN, o2 \in BOOLEAN, o3 \in BOOLEAN, t \in {-1, 7} }
ThreeFieldsQ == { S \in ThreeFields : (S.shape = "tuple" => S.fields[2].tag = -1) /\ (S.fields[1].idx = 1 => S.shape = "named") }
\* wide indices: map keys and array positions at the next head widths, variant indices beyond 23 / 255
WideIdx == { Struct("map", -1, "named", <<F(23, FALSE, -1, "u8"), F(24, TRUE, -1, "u8"), F(255, FALSE, -1, "str"), F(256, TRUE, -1, "u8"), F(65536, TRUE, -1, "u8")>>),
             Struct("array", -1, "named", <<F(0, FALSE, -1, "u8"), F(30, TRUE, -1, "u8")>>) }
           \cup { Enum(e, -1, FALSE, <<Variant(23, e, -1, "unit", <<>>), Variant(24, e, -1, "tuple", <<F(0, FALSE, -1, "u8")>>), Variant(256, e, -1, "named", <<F(0, TRUE, -1, "u8")>>),
                                      Variant(70000, e, -1, "unit", <<>>)>>) : e \in Encs }
\* tag numbers that need the 8-byte head (2^32, 2^64 - 1) at each level
WideTags == { Struct(e, -2, "named", <<F(0, FALSE, -3, "u8"), F(1, TRUE, -2, "str")>>) : e \in Encs }
            \cup { Enum(e, -2, FALSE, <<Variant(0, e, -3, "unit", <<>>), Variant(1, e, -2, "named", <<F(0, TRUE, -3, "u8")>>)>>) : e \in Encs }
\* skipped fields, transparent newtypes
Misc == { Struct(e, -1, "named", <<F(0, FALSE, -1, "u8"), FSkip(1), F(2, TRUE, -1, "str")>>) : e \in Encs }
        \cup { Transparent(F(0, FALSE, -1, ty)) : ty \in {"u8", "str", "inA", "e2", "cu", "bytes"} }
        \cup { Struct(e, -1, "named", <<F(0, TRUE, 7, "cu"), F(1, TRUE, -1, "cu"), F(3, FALSE, -1, "cu")>>) : e \in Encs }
\* optional fields that are not spelled Option<T>: boxed, through a type alias, through a type parameter - in structs of both encodings
\* (as the last field, in the middle, tagged) and inside an enum variant
OptSpell == { Struct(e, -1, "named", <<F(0, FALSE, -1, "u8"), Fo(1, t, ty, sp), F(3, o3, -1, "u8")>>) :
                e \in Encs, t \in {-1, 7}, ty \in {"u8", "str"}, sp \in {"boxed", "alias", "generic"}, o3 \in BOOLEAN }
            \cup { Struct(e, -1, "named", <<Fo(0, -1, "u8", sp)>>) : e \in Encs, sp \in {"boxed", "alias", "generic"} }
            \cup { Enum(e, -1, FALSE, <<Variant(0, e, -1, "unit", <<>>), Variant(1, ve, -1, "named", <<F(0, FALSE, -1, "u8"), Fo(1, -1, "u8", sp)>>)>>) :
                    e \in Encs, ve \in Encs, sp \in {"boxed", "alias"} }
\* forwarding codecs without a nil of their own (CodTys): spelled Option (optional), boxed / aliased (mandatory, None is written as null);
\* in the middle, at the end (nothing is trimmed), tagged, in both encodings and inside a variant
Fc(idx, tag, ty, sp) == [idx |-> idx, opt |-> (sp = "plain"), tag |-> tag, ty |-> ty, skip |-> FALSE, osp |-> sp]
Codecs == { Struct(e, -1, sh, <<F(0, FALSE, -1, "u8"), Fc(1, t, ty, sp), F(3, TRUE, -1, "u8")>>) :
              e \in Encs, sh \in {"named", "tuple"}, t \in {-1, 7}, ty \in CodTys, sp \in {"plain", "boxed", "alias"} }
          \cup { Struct(e, -1, "named", <<F(0, TRUE, -1, "u8"), Fc(2, -1, ty, sp)>>) : e \in Encs, ty \in CodTys, sp \in {"plain", "boxed", "alias"} }
          \cup { Enum(e, -1, FALSE, <<Variant(0, e, -1, "unit", <<>>), Variant(1, ve, -1, "tuple", <<F(0, FALSE, -1, "u8"), Fc(1, -1, ty, sp)>>)>>) :
                  e \in Encs, ve \in Encs, ty \in {"pcd", "pce"}, sp \in {"boxed", "alias"} }
CodecsQ == { S \in Codecs : S.kind = "enum" \/ (S.shape = "tuple" => S.fields[2].tag = -1 /\ S.fields[2].ty \in {"pcd", "pcw"}) }
\* the four attributes of a nil-aware codec given function by function (encode_with, decode_with, nil, is_nil) in each of their 24 orders:
\* for a "cu" field osp = "pK" asks the generator for the K-th order (it is a spelling: the expected bytes do not depend on it)
PermNames == {"p0", "p1", "p2", "p3", "p4", "p5", "p6", "p7", "p8", "p9", "p10", "p11", "p12", "p13", "p14", "p15", "p16", "p17", "p18", "p19", "p20", "p21", "p22", "p23"}
CodecOrders == { Struct(e, -1, "named", <<F(0, FALSE, -1, "u8"), [F(1, TRUE, -1, "cu") EXCEPT !.osp = p]>>) : e \in Encs, p \in PermNames }
\* fields that borrow from the decoding input
Borrowing == { Struct(e, -1, "named", <<F(0, FALSE, -1, "u8"), F(1, o, t, bty)>>) : e \in Encs, o \in BOOLEAN, t \in {-1, 7}, bty \in {"bstr", "bslice", "bu8"} }
             \cup { Struct(e, -1, sh, <<F(0, FALSE, -1, "cowbu8"), F(1, TRUE, -1, "u8")>>) : e \in Encs, sh \in {"named", "tuple"} }
             \cup { Enum("array", -1, FALSE, <<Variant(0, ve, -1, "named", <<F(0, FALSE, -1, "cowbu8")>>)>>) : ve \in Encs }
             \cup { Struct(e, -1, sh, <<F(0, FALSE, -1, cty), F(2, TRUE, -1, "bstr")>>) : e \in Encs, sh \in {"named", "tuple"}, cty \in {"cowb", "cown"} }
             \cup { Enum("array", -1, FALSE, <<Variant(0, "array", -1, "unit", <<>>), Variant(1, ve, -1, "named", <<F(0, FALSE, -1, "bstr"), F(1, TRUE, -1, "bslice")>>)>>) : ve \in Encs }
\* enums: unit / tuple / named variants, encoding at enum and variant level, tags at both levels, index_only
EnumsF == { Enum(e, et, FALSE, <<Variant(0, ve, ut, "unit", <<>>), Variant(1, ve, vt, "tuple", <<F(0, o, ft, "u8"), F(1, TRUE, -1, "str")>>),
                                 Variant(5, e, -1, "named", <<F(1, FALSE, -1, "u8"), F(3, o, -1, "u8")>>)>>) :
              e \in Encs, ve \in Encs, et \in {-1, 7}, vt \in {-1, 7}, ut \in {-1, 7}, o \in BOOLEAN, ft \in {-1, 7} }
\* tuple variants whose fields have the same type (declaration order is shuffled by the generator: binding a field to the wrong position still compiles)
EnumsSame == { Enum(e, -1, FALSE, <<Variant(0, e, -1, "unit", <<>>), Variant(1, ve, -1, "tuple", <<F(0, FALSE, -1, "u8"), F(2, o, -1, "u8"), F(3, TRUE, -1, "u8")>>),
                                    Variant(2, ve, -1, "tuple", <<F(0, FALSE, -1, "str"), F(1, FALSE, -1, "str")>>)>>) : e \in Encs, ve \in Encs, o \in BOOLEAN }
EnumsIO == { Enum("array", et, TRUE, <<Variant(0, "array", -1, "unit", <<>>), Variant(3, "array", -1, "unit", <<>>), Variant(24, "array", -1, "unit", <<>>)>>) : et \in {-1} }      \* (the macro rejects a tag on an index_only enum)
EnumsQ == { S \in EnumsF : (S.tag = 7 => S.variants[2].tag = -1) /\ (S.variants[2].fields[1].tag = 7 => S.variants[2].tag = -1 /\ S.tag = -1)
                           /\ (S.variants[1].tag = 7 => S.tag = -1 /\ S.variants[2].tag = -1 /\ S.variants[2].fields[1].tag = -1) } \cup EnumsIO
\* many fields: the 23/24 boundary of the container head
Big(e) == Struct(e, -1, "named", [i \in 1..25 |-> F(i - 1, TRUE, -1, "u8")])
BigVals == { [i \in 1..25 |-> IF i \in s THEN FV(TRUE, 7, <<>>, <<>>) ELSE None] : s \in {{}, {1}, {24}, {25}, {1, 25}, 1..23, 1..24, 1..25, 2..25} }

Family == IF Tier = "quick" THEN { S \in OneFieldQ : S.fields[1].idx = 0 \/ S.fields[1].ty \in {"u8", "e2", "cu"} } \cup { S \in ThreeFieldsQ : S.shape = "named" } \cup Misc \cup WideIdx \cup WideTags \cup EnumsQ \cup EnumsSame \cup OptSpell \cup Borrowing \cup CodecsQ \cup CodecOrders
          ELSE OneFieldQ \cup ThreeFieldsQ \cup Misc \cup WideIdx \cup WideTags \cup EnumsQ \cup EnumsSame \cup OptSpell \cup Borrowing \cup Codecs \cup CodecOrders

\* ---- compatible changes (reader schemas derived from a writer schema) ----
SetField(S, i, f) == [S EXCEPT !.fields[i] = f]
DropField(S, i)   == [S EXCEPT !.fields = SubSeq(S.fields, 1, i - 1) \o SubSeq(S.fields, i + 1, Len(S.fields))]
AddField(S, f)    == LET k == Cardinality({ i \in 1..Len(S.fields) : S.fields[i].idx < f.idx }) IN
                     [S EXCEPT !.fields = SubSeq(S.fields, 1, k) \o <<f>> \o SubSeq(S.fields, k + 1, Len(S.fields))]
FreeAll(S) == {0, 1, 3, 4, 6, 25} \ { S.fields[i].idx : i \in 1..Len(S.fields) }
FreeIdx(S) == LET lo == CHOOSE x \in FreeAll(S) : \A y \in FreeAll(S) : x <= y
                  below == FreeAll(S) \ {25}
                  hi == CHOOSE x \in below : \A y \in below : y <= x IN
              IF Tier = "quick" THEN {lo, 25} ELSE {lo, hi, 25}
Readers(S) == { DropField(S, i) : i \in { j \in 1..Len(S.fields) : S.fields[j].opt } }
              \cup { AddField(S, F(n, TRUE, t, ty)) : n \in FreeIdx(S), t \in {-1, 7}, ty \in (IF Tier = "quick" THEN {"u8"} ELSE {"u8", "str"}) }
              \* a new optional field of a nested struct / enum / byte-string type (it meets the null of a gap, a short array, a missing key)
              \cup { AddField(S, F(n, TRUE, -1, ty)) : n \in FreeIdx(S), ty \in (IF Tier = "quick" THEN {"inA", "e2"} ELSE {"inA", "inM", "e2", "io", "bytes"}) }
              \* ... and one whose codec is a user function without a nil of its own (Option<Vec<u8>> with = minicbor::bytes), tagged and untagged
              \cup { AddField(S, F(n, TRUE, t, "bytes")) : n \in FreeIdx(S), t \in {-1, 7} }
\* nested enums used as optional fields: the writer knows more variants / has turned a unit variant into a struct variant
HostTys == {"e2", "e2x", "e2u", "io", "iox", "e2m", "e2mu", "e2a", "e2au", "eu", "eux"}
\* (the optional enum field in every spelling: Option<E>, Box<Option<E>>, a type alias, a type parameter)
EnumHosts == { Struct(e, -1, "named", <<F(0, FALSE, -1, "u8"), Fo(1, -1, ty, sp), F(2, TRUE, -1, "u8")>>) : e \in Encs, ty \in HostTys, sp \in {"plain", "boxed", "alias", "generic"} }
CompatTy(a, b) == a = b \/ {a, b} \in {{"e2", "e2x"}, {"e2", "e2u"}, {"io", "iox"}, {"e2m", "e2mu"}, {"e2a", "e2au"}, {"eu", "eux"}}
HostReaders(S) == { SetField(S, 2, [S.fields[2] EXCEPT !.ty = ty]) : ty \in { t \in HostTys : CompatTy(t, S.fields[2].ty) } }
\* a writer that fills an index it does not know with null, read by a version whose LAST field sits at that index - optional, tagged or not, of
\* every kind (the null of a gap must be accepted as "absent" wherever the field stands in the reader's own order)
GapWriters == { Struct(e, -1, sh, <<F(0, FALSE, -1, "u8"), F(3, TRUE, -1, "u8")>>) : e \in Encs, sh \in {"named", "tuple"} }
GapReaders(S) == { [S EXCEPT !.fields = <<S.fields[1], F(n, TRUE, t, ty)>>] : n \in {1, 2}, t \in {-1, 7}, ty \in {"u8", "str", "bytes", "inA", "e2"} }
PairWriters == GapWriters \cup IF Tier = "quick" THEN { S \in ThreeFieldsQ : S.shape = "named" /\ S.fields[3].idx \in {2, 5} } \cup EnumHosts ELSE ThreeFieldsQ \cup EnumHosts
\* (two changes in a row; an index the writer uses is never given another meaning: dropping a field and adding a different one
\* under its index is not among the documented compatible changes)
TwoStep(S) == S.shape = "named" /\ S.fields[3].idx \in {2, 5}          \* (the writers of the quick tier: the others get single changes)
KeepsMeaning(S, R) == \A j \in 1..Len(R.fields) : \A i \in 1..Len(S.fields) : R.fields[j].idx = S.fields[i].idx => R.fields[j] = S.fields[i]
ReadersOf(S) == IF S \in GapWriters THEN GapReaders(S) ELSE IF S \in EnumHosts THEN HostReaders(S)
                ELSE Readers(S) \cup { r2 \in UNION { Readers(r1) : r1 \in { x \in Readers(S) : Tier # "quick" /\ TwoStep(S) } } : KeepsMeaning(S, r2) }

\* writers with a field of arbitrary content that the reader does not know: in the middle (a gap / an unknown key) and at the end (surplus)
AnyWriters == { Struct(e, -1, "named", <<F(0, FALSE, -1, "u8"), F(k, TRUE, -1, "any"), F(5, TRUE, -1, "str")>>) : e \in Encs, k \in {2, 9} }
AnyReaders(S) == { DropField(S, 2) }
\* nested options: in the middle, at the end (a trailing Some(None) is a present null, not trimmed), tagged, in a variant - encoder side only
EncOnly == { Struct(e, -1, sh, <<F(0, FALSE, -1, "u8"), F(1, TRUE, t, "oo"), F(3, TRUE, -1, "u8")>>) : e \in Encs, sh \in {"named", "tuple"}, t \in {-1, 7} }
           \cup { Struct(e, -1, "named", <<F(0, TRUE, -1, "u8"), F(2, TRUE, -1, "oo")>>) : e \in Encs }
           \cup { Enum(e, -1, FALSE, <<Variant(0, e, -1, "unit", <<>>), Variant(1, ve, -1, "named", <<F(0, FALSE, -1, "u8"), F(1, TRUE, -1, "oo")>>)>>) : e \in Encs, ve \in Encs }
Init == ph = "fam" /\ wsch = Big("map") /\ wv = <<>> /\ rsch = Big("map")
Next == \/ ph = "fam" /\ wsch' \in Family /\ ph' = "val" /\ UNCHANGED <<wv, rsch>>
        \/ ph = "fam" /\ wsch' \in {Big("map"), Big("array")} /\ wv' \in BigVals /\ rsch' = wsch' /\ ph' = "done"
        \/ ph = "val" /\ wv' \in ValsS(wsch) /\ rsch' = wsch /\ ph' = "done" /\ UNCHANGED wsch
        \/ ph = "fam" /\ wsch' \in PairWriters /\ ph' = "pval" /\ UNCHANGED <<wv, rsch>>
        \/ ph = "pval" /\ wv' \in ValsS(wsch) /\ ph' = "pair" /\ UNCHANGED <<wsch, rsch>>
        \/ ph = "pair" /\ rsch' \in ReadersOf(wsch) /\ ph' = "pdone" /\ UNCHANGED <<wsch, wv>>
        \/ ph = "fam" /\ wsch' \in AnyWriters /\ ph' = "aval" /\ UNCHANGED <<wv, rsch>>
        \/ ph = "aval" /\ wv' \in ValsS(wsch) /\ ph' = "apair" /\ UNCHANGED <<wsch, rsch>>
        \/ ph = "apair" /\ rsch' \in AnyReaders(wsch) /\ ph' = "adone" /\ UNCHANGED <<wsch, wv>>
        \/ ph = "fam" /\ wsch' \in EncOnly /\ ph' = "eval" /\ UNCHANGED <<wv, rsch>>
        \/ ph = "eval" /\ wv' \in ValsS(wsch) /\ rsch' = wsch /\ ph' = "edone" /\ UNCHANGED wsch
Case(name, in, exp) == PrintT(<<"CASE", ToJson([fam |-> "derive", name |-> name, in |-> in, exp |-> exp])>>)
DecExp(w, r, v, b) == LET p == Project(w, r, v) IN
   IF p[1] = "ok" THEN [ok |-> TRUE, val |-> p[2], pos |-> Len(b), bor |-> TRUE] ELSE [ok |-> FALSE, val |-> <<>>, pos |-> 0, bor |-> TRUE]
Emit == /\ (ph' = "edone") => LET b == DocEnc(wsch', wv') IN Case("enc", [schema |-> wsch', val |-> wv'], [bytes |-> b, len |-> Len(b)])
        /\ (ph' = "done") =>
             LET b == DocEnc(wsch', wv') IN
             /\ Case("enc", [schema |-> wsch', val |-> wv'], [bytes |-> b, len |-> Len(b)])
             /\ Case("dec", [schema |-> wsch', bytes |-> b, rel |-> "same"], DecExp(wsch', wsch', wv', b))
             \* C09 is about what the derived encoder really writes: whatever that is, the derived decoder must turn it back into the value and consume it all
             /\ Case("xdec", [schema |-> wsch', wschema |-> wsch', val |-> wv', rel |-> "xsame"], DecExp(wsch', wsch', wv', b))
             /\ (wsch'.kind = "struct" /\ ~wsch'.transparent) =>
                   /\ Case("dec", [schema |-> wsch', bytes |-> WiderTop(wsch', b), rel |-> "wider"], DecExp(wsch', wsch', wv', WiderTop(wsch', b)))
                   /\ Case("dec", [schema |-> wsch', bytes |-> IndefTop(wsch', b), rel |-> "indef"], DecExp(wsch', wsch', wv', IndefTop(wsch', b)))
        \* C09: every array and map of the encoding (at every level, nested types and enum bodies included) as an indefinite-length
        \* container, and every head one width step wider than necessary: the same value, consumed exactly
        /\ (ph' = "done") =>
             LET b == DocEnc(wsch', wv')  bi == DocEncP(wsch', wv', IndefPt)  bw == EncFramed(Tree(b), "wide") IN
             /\ (bi # b) => Case("dec", [schema |-> wsch', bytes |-> bi, rel |-> "indefall"], DecExp(wsch', wsch', wv', bi))
             /\ (bw # b) => Case("dec", [schema |-> wsch', bytes |-> bw, rel |-> "wideall"], DecExp(wsch', wsch', wv', bw))
        \* C09: a wrong or missing tag anywhere in the encoding is an error, never a value
        /\ (ph' = "done") =>
             \A pt \in Perturbations(wsch', wv') :
                Case("dec", [schema |-> wsch', bytes |-> DocEncP(wsch', wv', pt), rel |-> "badtag", pt |-> pt], [ok |-> FALSE, val |-> <<>>, pos |-> 0])
        \* C09: a missing mandatory field and an unknown variant at top level are errors
        /\ (ph' = "done" /\ wsch'.kind = "struct" /\ ~wsch'.transparent) =>
             \* (not the forwarding codecs in an array: the null that fills the gap is the encoding of their None, a value)
             \A i \in { j \in 1..Len(wsch'.fields) : ~wsch'.fields[j].opt /\ ~wsch'.fields[j].skip /\ ~(wsch'.fields[j].ty \in CodTys /\ wsch'.enc = "array") } :
                LET w == DropField(wsch', i)  v == SubSeq(wv', 1, i - 1) \o SubSeq(wv', i + 1, Len(wv')) IN
                Case("dec", [schema |-> wsch', bytes |-> DocEnc(w, v), rel |-> "missing", dropped |-> i], [ok |-> FALSE, val |-> <<>>, pos |-> 0])
        /\ (ph' = "done" /\ wsch'.kind = "enum") =>
             Case("dec", [schema |-> wsch', bytes |-> TagPrefix(wsch'.tag) \o (IF wsch'.index_only THEN Uint(41) ELSE <<130>> \o Uint(41) \o <<128>>), rel |-> "unkvar"],
                  [ok |-> FALSE, val |-> <<>>, pos |-> 0])
        \* C10: a field unknown to the reader is ignored whatever its content (wide integers, tags, indefinite containers, chunked strings, ...)
        /\ (ph' = "adone") =>
             LET b == DocEnc(wsch, wv)  bi == DocEncP(wsch, wv, IndefPt) IN
             /\ Case("dec", [schema |-> rsch', bytes |-> b, rel |-> "fwdany"], DecExp(wsch, rsch', wv, b))
             /\ Case("dec", [schema |-> rsch', bytes |-> bi, rel |-> "fwdany"], DecExp(wsch, rsch', wv, bi))
        /\ (ph' = "pdone") =>
             LET b == DocEnc(wsch, wv) IN
             \* forward: the reader rsch' decodes what the writer wsch wrote; backward: wsch decodes what rsch' writes (for values rsch' has)
             /\ Case("dec", [schema |-> rsch', bytes |-> b, rel |-> "fwd"], DecExp(wsch, rsch', wv, b))
             \* ... and when the writer's containers are of indefinite length
             /\ LET bi == DocEncP(wsch, wv, IndefPt) IN Case("dec", [schema |-> rsch', bytes |-> bi, rel |-> "fwd"], DecExp(wsch, rsch', wv, bi))
             \* the same through the real encoder of the writer type: whatever it writes, the reader must obtain the projected value
             /\ Case("xdec", [schema |-> rsch', wschema |-> wsch, val |-> wv, rel |-> "xfwd"], DecExp(wsch, rsch', wv, b))
             /\ LET p == Project(wsch, rsch', wv) IN
                p[1] = "ok" => LET b2 == DocEnc(rsch', p[2]) IN
                               /\ Case("dec", [schema |-> wsch, bytes |-> b2, rel |-> "bwd"], DecExp(rsch', wsch, p[2], b2))
                               /\ Case("xdec", [schema |-> wsch, wschema |-> rsch', val |-> p[2], rel |-> "xbwd"], DecExp(rsch', wsch, p[2], b2))
\* ---- invariants on the documented format itself ----
B == DocEnc(wsch, wv)
Done == ph = "done"
\* the documented encoding of every value is one well-formed item in preferred form
DocWellFormed == (Done \/ ph = "edone") => WellFormedItem(B) /\ IsPreferred(B)
\* reading back with the same schema gives the same value (skipped fields at their default)
SelfProject == Done => Project(wsch, wsch, wv) = <<"ok", wv>>
\* a compatible reader never fails on what the writer wrote, unless the top-level type is an enum
CompatNeverFails == (ph = "pdone" /\ wsch.kind = "struct") => Project(wsch, rsch, wv)[1] = "ok"
=============================================================================
