------------------------------ MODULE Trace_C15 ------------------------------
(* Trace validation for C15: one recorded run of the real AsyncReader (header line, then one event per caller   *)
(* action, inner read and returned result) must be a behaviour of the AsyncReader specification.  The internal  *)
(* steps LenComplete / ValComplete are not logged: they are taken silently whenever enabled.  Every invariant   *)
(* of the specification is evaluated in every state of the matched behaviour.                                  *)
EXTENDS AsyncReader, Json, IOUtils
VARIABLES l, nret
Rec == ndJsonDeserialize(IOEnv.TRACE)
TrFrames == Rec[1].frames
TrMaxLen == Rec[1].maxlen
Big == 1000000000

tvars == <<vars, l, nret>>
TInit == Init /\ cut = Rec[1].cut /\ l = 2 /\ nret = 0 /\ TLCSet(1, 0)
IntEn == fut = "run" /\ ((tag = "len" /\ Len(lenbuf) = 4) \/ (tag = "val" /\ off >= need))
LastK == sched'[Len(sched')].k
Ev(e) == \/ e.ev = "start"   /\ Start   /\ UNCHANGED nret
         \/ e.ev = "resume"  /\ Resume  /\ UNCHANGED nret
         \/ e.ev = "drop"    /\ Drop    /\ UNCHANGED nret
         \/ e.ev = "deliver" /\ DeliverK(e.k) /\ LastK = e.k /\ UNCHANGED nret
         \/ e.ev = "pending" /\ Pending /\ UNCHANGED nret
         \/ e.ev = "fail"    /\ Fail    /\ UNCHANGED nret
         \/ e.ev = "eof"     /\ Eof     /\ UNCHANGED nret
         \* a returned result: the specification must have produced exactly this result, exactly once
         \/ e.ev = "ret" /\ fut = "none" /\ Len(out) = nret + 1 /\ out[Len(out)] = e.r /\ nret' = nret + 1 /\ UNCHANGED vars
TNext == \/ IntEn /\ (LenComplete \/ ValComplete) /\ UNCHANGED <<l, nret>>
         \/ ~IntEn /\ l <= Len(Rec) /\ Ev(Rec[l]) /\ l' = l + 1
\* progress register: the furthest event reached (single worker)
Progress == TLCSet(1, IF TLCGet(1) < l THEN l ELSE TLCGet(1))
Accepted == \/ TLCGet(1) = Len(Rec) + 1
            \/ PrintT(<<"MISMATCH", TLCGet(1), ToJson([ev |-> Rec[TLCGet(1)], header |-> Rec[1], at |-> TLCGet(1)])>>)
=============================================================================
