INIT Init
NEXT Next
ACTION_CONSTRAINT Emit
INVARIANT ClassConstant Identity WidthConstant
CHECK_DEADLOCK FALSE
