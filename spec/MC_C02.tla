------------------------------- MODULE MC_C02 -------------------------------
(* The Decoder object under every short sequence of public calls, set_position and probe, on every byte string up to  *)
(* MaxLen over a representative alphabet (one byte per (major, additional-information class) plus the bytes the code   *)
(* branches on).  Deadlock checking is ON: a state without an enabled action would mean some call is not total.        *)
EXTENDS C02, TLC, Json
CONSTANTS MaxLen, MaxCalls, Small
VARIABLES buf, pos, ph, ncalls, probe
vars == <<buf, pos, ph, ncalls, probe>>
Alpha == IF Small THEN {0, 23, 24, 27, 31, 56, 64, 65, 95, 97, 127, 128, 129, 159, 161, 191, 193, 224, 244, 246, 248, 249, 255, 195, 169}
         ELSE {0, 1, 23, 24, 25, 26, 27, 28, 31, 32, 55, 56, 57, 58, 59, 60, 63, 64, 65, 66, 88, 91, 92, 95, 96, 97, 98, 120, 123, 127, 128, 129, 130, 152, 155,
               159, 160, 161, 184, 187, 191, 192, 193, 216, 219, 220, 223, 224, 243, 244, 245, 246, 247, 248, 249, 250, 251, 252, 254, 255, 194, 195, 169, 237, 160,
               240, 144, 128 + 12, 16, 100, 200, 226}
Init == buf = <<>> /\ pos = 0 /\ ph = "build" /\ ncalls = 0 /\ probe = -1
Build == /\ ph = "build" /\ UNCHANGED <<pos, ncalls, probe>>
         /\ \/ Len(buf) < MaxLen /\ (\E b \in Alpha : buf' = Append(buf, b)) /\ ph' = "build"
            \/ buf' = buf /\ ph' = "run"
\* one public call: some acceptable outcome happens
Call == /\ ph = "run" /\ ncalls < MaxCalls /\ ncalls' = ncalls + 1 /\ UNCHANGED <<buf, ph, probe>>
        /\ \E name \in Entries : \E x \in EntryExpect(name, buf, pos) :
             \/ x.p = "ok" /\ pos' = x.pos
             \/ x.p \in {"err", "any"} /\ pos' \in { q \in pos..(IF pos > Len(buf) THEN pos ELSE Len(buf)) : TRUE }
SetPos == /\ ph = "run" /\ ncalls < MaxCalls /\ ncalls' = ncalls + 1 /\ pos' \in 0..(Len(buf) + 2) /\ UNCHANGED <<buf, ph, probe>>
\* a probe works on a copy: whatever is called on it, the parent position is unchanged when it is dropped
Probe == /\ ph = "run" /\ ncalls < MaxCalls /\ probe = -1 /\ probe' = pos /\ ncalls' = ncalls + 1 /\ UNCHANGED <<buf, pos, ph>>
ProbeDrop == /\ ph = "run" /\ probe >= 0 /\ pos' = probe /\ probe' = -1 /\ UNCHANGED <<buf, ph, ncalls>>
Stop == ph = "run" /\ ncalls = MaxCalls /\ probe = -1 /\ UNCHANGED vars
Next == Build \/ Call \/ SetPos \/ Probe \/ ProbeDrop \/ Stop
\* every (input, position, entry point) is emitted once for replay, when the input is complete
Emit == (ph = "build" /\ ph' = "run") =>
          \A p \in 0..(Len(buf) + 1) : \A name \in Entries :
             PrintT(<<"CASE", ToJson([fam |-> "acc", name |-> name, in |-> [buf |-> buf, pos |-> p], exp |-> EntryExpect(name, buf, p)])>>)
\* totality of the specification itself: every entry point has an outcome for every (buf, pos)
Total == ph = "run" => \A name \in Entries : EntryExpect(name, buf, pos) # {}
\* the position bound holds along every behaviour
PosInv == ph = "run" => pos <= Len(buf) + 2
\* a successful call never moves backwards and never beyond the input
OkMoves == ph = "run" => \A name \in Entries : \A x \in EntryExpect(name, buf, pos) : x.p = "ok" => x.pos >= pos /\ x.pos <= Len(buf)
\* beyond the input every call fails
BeyondFails == (ph = "run" /\ pos >= Len(buf)) => \A name \in Entries \ {"datatype"} : \A x \in EntryExpect(name, buf, pos) : x.p = "err"
=============================================================================
