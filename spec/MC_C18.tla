------------------------------- MODULE MC_C18 -------------------------------
(* The types both codecs know (SharedNames): for a boundary set of values of each, the bridge's documented representation *)
(* of the embedded value IS the native reference encoding (Agree), and each (type, bytes, value) is emitted in three       *)
(* framings: the common encoding, which both decoders must decode to the value consuming it exactly, and a wider-head and  *)
(* an indefinite-container re-framing of the same item, for which each side gives that value or an error.                 *)
EXTENDS SerdeTable, TLC, Json
VARIABLES ph, ty, val, mode
vars == <<ph, ty, val, mode>>
Init == ph = "ty" /\ ty = "u8" /\ val = [k |-> "unit"] /\ mode = "ref"
Next == \/ ph = "ty" /\ ty' \in SharedNames /\ ph' = "val" /\ UNCHANGED <<val, mode>>
        \/ ph = "val" /\ val' \in ValsOf(TypeTable[ty]) /\ ph' = "mode" /\ UNCHANGED <<ty, mode>>
        \/ ph = "mode" /\ mode' \in {"ref", "wide", "indef", "allindef"} /\ ph' = "done" /\ UNCHANGED <<ty, val>>
D == TypeTable[ty]
Emit == (ph' = "done") =>
   LET b == SerEncM(Embed(D), val, mode')  r == EncV(D, val) IN
   (mode' = "ref" \/ b # r) =>
   PrintT(<<"CASE", ToJson([fam |-> "both", name |-> ty, in |-> [bytes |-> b, mode |-> mode'],
                            exp |-> [dec |-> val, pos |-> Len(b), must |-> (mode' = "ref")]])>>)
\* the two transcriptions (native impl documentation, Serializer documentation) give identical bytes on the shared model
Agree    == ph \in {"mode", "done"} => SerEnc(Embed(D), val) = EncV(D, val)
SameItem == ph = "done" => LET b == SerEncM(Embed(D), val, mode) IN WellFormedItem(b) /\ Tree(b) = Tree(EncV(D, val))
\* the values enumerated here are values of the embedded serde type as well (scalars: the same boundary sets, minus zero for NonZero)
SameVals == ph = "val" => ValsOf(D) \subseteq SVals(Embed(D)) \/ D.d \in {"seq", "tuple", "map", "opt"}
=============================================================================
