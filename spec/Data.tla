-------------------------------- MODULE Data --------------------------------
(***************************************************************************)
(* Behaviour beyond the listed properties (data.rs): the registered tags,  *)
(* the names of the data types, the order and the decimal rendering of the *)
(* CBOR integer type, and how a decoding context is threaded through the   *)
(* built-in container impls.  Checked like everything else (events         *)
(* recorded from the implementation, validated by TLC), but a mismatch     *)
(* here is reported as a NOTE of the hosting check, never as a violation   *)
(* of a listed property.                                                   *)
(***************************************************************************)
EXTENDS Decoder

\* ---- IANA registered tags known to the crate (RFC 8949 3.4, RFC 8746) -------------------------------
IanaTable == {
   <<"DateTime", 0>>, <<"Timestamp", 1>>, <<"PosBignum", 2>>, <<"NegBignum", 3>>, <<"Decimal", 4>>, <<"Bigfloat", 5>>,
   <<"ToBase64Url", 21>>, <<"ToBase64", 22>>, <<"ToBase16", 23>>, <<"Cbor", 24>>, <<"Uri", 32>>, <<"Base64Url", 33>>, <<"Base64", 34>>,
   <<"Regex", 35>>, <<"Mime", 36>>, <<"MultiDimArrayR", 40>>, <<"HomogenousArray", 41>>,
   <<"TypedArrayU8", 64>>, <<"TypedArrayU16B", 65>>, <<"TypedArrayU32B", 66>>, <<"TypedArrayU64B", 67>>, <<"TypedArrayU8Clamped", 68>>,
   <<"TypedArrayU16L", 69>>, <<"TypedArrayU32L", 70>>, <<"TypedArrayU64L", 71>>, <<"TypedArrayI8", 72>>, <<"TypedArrayI16B", 73>>,
   <<"TypedArrayI32B", 74>>, <<"TypedArrayI64B", 75>>, <<"TypedArrayI16L", 77>>, <<"TypedArrayI32L", 78>>, <<"TypedArrayI64L", 79>>,
   <<"TypedArrayF16B", 80>>, <<"TypedArrayF32B", 81>>, <<"TypedArrayF64B", 82>>, <<"TypedArrayF128B", 83>>, <<"TypedArrayF16L", 84>>,
   <<"TypedArrayF32L", 85>>, <<"TypedArrayF64L", 86>>, <<"TypedArrayF128L", 87>>, <<"MultiDimArrayC", 1040>> }
IanaNumbers == { p[2] : p \in IanaTable }
IanaName(n) == (CHOOSE p \in IanaTable : p[2] = n)[1]
\* the table is a bijection (checked as an assumption by TLC when the module is loaded)
ASSUME \A p, q \in IanaTable : (p[1] = q[1] \/ p[2] = q[2]) => p = q
\* TryFrom<Tag> is the inverse of From<IanaTag> on the table and fails elsewhere; n is the tag as an 8-byte tuple
IanaOK(n, name, back) == IF IsSmall(n) /\ ToNat(n) \in IanaNumbers THEN name = IanaName(ToNat(n)) /\ back = n ELSE name = "unknown"

\* ---- Display of Type ---------------------------------------------------------------------------------------
TypeNameTable == { <<"Bool", "bool">>, <<"Null", "null">>, <<"Undefined", "undefined">>, <<"U8", "u8">>, <<"U16", "u16">>, <<"U32", "u32">>, <<"U64", "u64">>,
                   <<"I8", "i8">>, <<"I16", "i16">>, <<"I32", "i32">>, <<"I64", "i64">>, <<"Int", "int">>, <<"F16", "f16">>, <<"F32", "f32">>, <<"F64", "f64">>,
                   <<"Simple", "simple">>, <<"Bytes", "bytes">>, <<"BytesIndef", "indefinite bytes">>, <<"String", "string">>, <<"StringIndef", "indefinite string">>,
                   <<"Array", "array">>, <<"ArrayIndef", "indefinite array">>, <<"Map", "map">>, <<"MapIndef", "indefinite map">>, <<"Tag", "tag">>, <<"Break", "break">> }
TypeNameOK(ty, shown) == <<ty, shown>> \in TypeNameTable

\* ---- the CBOR integer type: its order is the numeric order ------------------------------------------------------
\* (neg, mag) denotes mag or -1 - mag; a < b numerically
IntLt(a, b) == IF a.neg /\ ~b.neg THEN TRUE ELSE IF ~a.neg /\ b.neg THEN FALSE
               ELSE IF a.neg THEN Lt(b.mag, a.mag) ELSE Lt(a.mag, b.mag)
IntCmp(a, b) == IF IntLt(a, b) THEN -1 ELSE IF IntLt(b, a) THEN 1 ELSE 0

\* ---- context threading: decode_with / encode_with pass the same context to every element, in order ---------------
\* the context counts visits; a container of n context-aware elements leaves it advanced by n and the elements see 0, 1, ..., n-1
CtxOK(n, seen, final) == final = n /\ seen = [i \in 1..n |-> i - 1]
=============================================================================
