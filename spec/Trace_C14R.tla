----------------------------- MODULE Trace_C14R -----------------------------
(* Trace validation of recorded runs of the blocking Reader against BlockingIO (reader part). *)
EXTENDS BlockingIO, Json, IOUtils
VARIABLES l, nret
Rec == ndJsonDeserialize(IOEnv.TRACE)
TrFrames == Rec[1].frames
TrMaxLen == Rec[1].maxlen
Big == 1000000000
None == <<>>
TInit == RInit /\ WInit /\ cut = Rec[1].cut /\ l = 2 /\ nret = 0 /\ TLCSet(1, 0)
IntEn == (ph = "len" /\ Len(lenbuf) = 4) \/ (ph = "val" /\ Len(buf) >= need)
LastK == rsched'[Len(rsched')].k
Ev(e) == \/ e.ev = "read"    /\ RStart   /\ UNCHANGED nret
         \/ e.ev = "deliver" /\ RDeliverK(e.k) /\ LastK = e.k /\ UNCHANGED nret
         \/ e.ev = "intr"    /\ RIntr    /\ UNCHANGED nret
         \/ e.ev = "eof"     /\ REof     /\ UNCHANGED nret
         \/ e.ev = "ret" /\ ph \in {"idle", "dead"} /\ Len(out) = nret + 1 /\ out[Len(out)] = e.r
                         /\ ~e.bigalloc            \* never allocates (much) more than max_len for a frame
                         /\ nret' = nret + 1 /\ UNCHANGED rvars
TNext == /\ UNCHANGED wvars
         /\ \/ IntEn /\ (RLenComplete \/ RValComplete) /\ UNCHANGED <<l, nret>>
            \/ ~IntEn /\ l <= Len(Rec) /\ Ev(Rec[l]) /\ l' = l + 1
Progress == TLCSet(1, IF TLCGet(1) < l THEN l ELSE TLCGet(1))
Accepted == \/ TLCGet(1) = Len(Rec) + 1
            \/ PrintT(<<"MISMATCH", TLCGet(1), ToJson([ev |-> Rec[TLCGet(1)], header |-> Rec[1], at |-> TLCGet(1)])>>)
=============================================================================
