------------------------------ MODULE Trace_C02 ------------------------------
(* Trace validation for C02.  Events of the totality sweep and of the typed mutations:                                *)
(*   acc       an accessor / skip call at (buf, pos): outcome allowed by the model, position bound, allocation bound   *)
(*   typed mut a typed decode of arbitrary or mutated bytes: Ok or Err, position bound, allocation bound                *)
(*   tokcount  at most one token per input byte          dispbound  the display output stayed within its bound         *)
(*   drop      every element created by a failed decode is dropped exactly once; nothing is dropped twice              *)
(*   size      decode::info::Size::head / tail                                                                        *)
EXTENDS C02, TLC, Json, IOUtils
VARIABLE l
Rec == ndJsonDeserialize(IOEnv.TRACE)
NoDup(s) == \A i, j \in 1..Len(s) : i # j => s[i] # s[j]
SameSet(s, t) == { s[i] : i \in 1..Len(s) } = { t[i] : i \in 1..Len(t) }
EventOK(e) ==
   CASE e.fam = "acc" ->
          /\ e.obs.p \in {"ok", "err"}                                                    \* returns, never panics
          /\ PosBound(e.in.pos, e.obs.pos, Len(e.in.buf))
          /\ AllocBound(e.alloc, Len(e.in.buf))
          /\ FObsOK(e.obs, EntryExpect(e.name, e.in.buf, e.in.pos))                       \* and what it returns is what the model allows
     [] e.fam = "probe" ->                                                                 \* the same through Decoder::probe()
          /\ e.obs.p \in {"ok", "err"} /\ PosBound(e.in.pos, e.obs.pos, Len(e.in.buf)) /\ AllocBound(e.alloc, Len(e.in.buf))
          /\ FObsOK(e.obs, EntryExpect(e.name, e.in.buf, e.in.pos)) /\ e.obs.opos = e.in.pos
     [] e.fam = "typed" /\ e.name = "mut" ->
          e.obs.p = "run" /\ e.obs.pos <= Len(e.buf) /\ AllocBound(e.obs.alloc, Len(e.buf))
     [] e.fam = "tokcount"  -> e.obs.p = "run" /\ e.obs.count <= Len(e.in.buf) /\ e.obs.bcount <= Len(e.in.buf)   \* (owning tokenizer; Decoder::tokens())
     [] e.fam = "dispbound" -> e.obs.p = "run" /\ ~e.obs.overflow /\ e.obs.n <= 32 * Len(e.in.buf) + 256
     [] e.fam = "drop" ->
          /\ e.obs.p = "run" /\ NoDup(e.obs.created) /\ NoDup(e.obs.before \o e.obs.after)
          /\ SameSet(e.obs.before \o e.obs.after, e.obs.created)                           \* everything created is dropped exactly once
          /\ (~e.obs.ok => SameSet(e.obs.before, e.obs.created))                           \* on failure nothing survives the call
     [] e.fam = "size" -> FObsOK(e.obs, IF e.name = "head" THEN SizeHead(e.in.fst) ELSE SizeTail(e.in.head))
Init == l = 1
Next == /\ l <= Len(Rec) /\ l' = l + 1
        /\ IF EventOK(Rec[l]) THEN TRUE ELSE PrintT(<<"MISMATCH", l, ToJson(Rec[l])>>)
AllConsumed == TLCGet("stats").diameter - 1 = Len(Rec) \/ PrintT(<<"NOTCONSUMED", TLCGet("stats").diameter - 1, Len(Rec)>>)
=============================================================================
