------------------------------- MODULE Builtin -------------------------------
(***************************************************************************)
(* The built-in Encode / Decode / CborLen impls (properties C01, C07, and  *)
(* the typed parts of C03 and C04).  Written from the documentation of     *)
(* each impl and RFC 8949.                                                 *)
(*                                                                         *)
(* A type is a descriptor; TypeTable maps the names the harness uses for   *)
(* its concrete Rust instantiations to descriptors (the harness knows the  *)
(* names only).  A value is a generic tree:                                *)
(*   [k "int", neg, mag]  [k "bool", b]  [k "char", ch]  [k "float", w, bits]  *)
(*   [k "text", b]  [k "bytes", b]  [k "none"]  [k "some", x]  [k "unit"]   *)
(*   [k "var", i, x]  (i-th alternative)   [k "seq", xs]   [k "map", xs]    *)
(*   [k "tagv", tg]   [k "tagged", x]                                       *)
(***************************************************************************)
EXTENDS Token

\* ---- descriptors ---------------------------------------------------------------
DInt(ty)        == [d |-> "int", ty |-> ty, nz |-> FALSE]
DBool           == [d |-> "bool"]
DChar           == [d |-> "char"]
DF32            == [d |-> "f32"]
DF64            == [d |-> "f64"]
DText           == [d |-> "text"]
DBytes          == [d |-> "bytes", n |-> -1]
DCStr           == [d |-> "cstr"]                    \* bytes with a trailing nul on the wire
DOpt(e)         == [d |-> "opt", e |-> e]
DVar(alts)      == [d |-> "var", alts |-> alts, lax |-> FALSE]      \* [index, content] as a 2-element array
DSeq(e)         == [d |-> "seq", e |-> e, unordered |-> FALSE, n |-> -1, set |-> FALSE]
DSet(e)         == [d |-> "seq", e |-> e, unordered |-> FALSE, n |-> -1, set |-> TRUE]    \* BTreeSet: ascending, no duplicates
DArr(e, n)      == [d |-> "seq", e |-> e, unordered |-> FALSE, n |-> n, set |-> FALSE]   \* [T; N]: exactly N elements
DBag(e)         == [d |-> "seq", e |-> e, unordered |-> TRUE, n |-> -1, set |-> TRUE]   \* HashSet, BinaryHeap: any element order
DBytesN(n)      == [d |-> "bytes", n |-> n]           \* ByteArray<N>, Ipv4Addr, Ipv6Addr: exactly n bytes
DNZ(ty)         == [d |-> "int", ty |-> ty, nz |-> TRUE]
DTuple(es)      == [d |-> "tuple", es |-> es, dur |-> FALSE, st |-> FALSE, lax |-> FALSE]
\* the range types: written like a tuple, read like a derived struct (fields by position, surplus elements ignored)
DFields(es)     == [d |-> "tuple", es |-> es, dur |-> FALSE, st |-> FALSE, lax |-> TRUE]
DMap(k, v)      == [d |-> "map", kd |-> k, vd |-> v, unordered |-> FALSE]
DHMap(k, v)     == [d |-> "map", kd |-> k, vd |-> v, unordered |-> TRUE]
DUnit           == [d |-> "unit"]                    \* (), PhantomData, the content of Bound::Unbounded: an empty array
DTag            == [d |-> "tag"]                     \* data::Tag: a tag head on its own
DTagged(n, e)   == [d |-> "tagged", n |-> n, e |-> e]

U8 == DInt("u8")   U16 == DInt("u16")   U32 == DInt("u32")   U64 == DInt("u64")
I8 == DInt("i8")   I16 == DInt("i16")   I32 == DInt("i32")   I64 == DInt("i64")   IntD == DInt("int")
DResult(a, b) == DVar(<<a, b>>)
\* (Bound::Unbounded is read like a derived unit variant: whatever stands in the content position is skipped)
DBound(e)     == [d |-> "var", alts |-> <<e, e, DUnit>>, lax |-> TRUE]
DIpv4   == DBytesN(4)
DIpv6   == DBytesN(16)
DIpAddr == DVar(<<DIpv4, DIpv6>>)
DSockV4 == DTuple(<<DIpv4, U16>>)
DSockV6 == DTuple(<<DIpv6, U16>>)
DSock   == DVar(<<DSockV4, DSockV6>>)
DDuration == [d |-> "tuple", es |-> <<U64, U32>>, dur |-> TRUE, st |-> FALSE, lax |-> TRUE]     \* [secs, nanos] with nanos < 10^9
DSysTime  == [d |-> "tuple", es |-> <<U64, U32>>, dur |-> TRUE, st |-> TRUE, lax |-> TRUE]      \* duration since the epoch, representable as a SystemTime

\* the harness' names for its Rust instantiations -> what the documentation says they are on the wire
TypeTable == [
   u8 |-> U8, u16 |-> U16, u32 |-> U32, u64 |-> U64, usize |-> U64, i8 |-> I8, i16 |-> I16, i32 |-> I32, i64 |-> I64, isize |-> I64,
   int |-> IntD, bool |-> DBool, char |-> DChar, f32 |-> DF32, f64 |-> DF64,
   string |-> DText, boxstr |-> DText, cowstr |-> DText, pathbuf |-> DText, boxpath |-> DText,
   bytevec |-> DBytes, bytearray0 |-> DBytesN(0), bytearray4 |-> DBytesN(4), bytearray24 |-> DBytesN(24), cstring |-> DCStr,
   nzu8 |-> DNZ("u8"), nzu16 |-> DNZ("u16"), nzu32 |-> DNZ("u32"), nzu64 |-> DNZ("u64"), nzusize |-> DNZ("u64"), nzi8 |-> DNZ("i8"), nzi16 |-> DNZ("i16"), nzi32 |-> DNZ("i32"), nzi64 |-> DNZ("i64"), nzisize |-> DNZ("i64"),
   wrapu16 |-> U16, cellu32 |-> U32, refcellstring |-> DText, boxu64 |-> U64,
   abool |-> DBool, au8 |-> U8, au16 |-> U16, au32 |-> U32, au64 |-> U64, ausize |-> U64, ai8 |-> I8, ai16 |-> I16, ai32 |-> I32, ai64 |-> I64, aisize |-> I64,
   optu8 |-> DOpt(U8), optstring |-> DOpt(DText), optvecu16 |-> DOpt(DSeq(U16)),
   resu8string |-> DResult(U8, DText), resunitu64 |-> DResult(DUnit, U64),
   boundi16 |-> DBound(I16),
   rangeu8 |-> DFields(<<U8, U8>>), rangefromu16 |-> DFields(<<U16>>), rangetoi8 |-> DFields(<<I8>>), rangetoinclu32 |-> DFields(<<U32>>), rangeincli64 |-> DFields(<<I64, I64>>),
   unit |-> DUnit, phantom |-> DUnit,
   tup1 |-> DTuple(<<U8>>), tup2 |-> DTuple(<<U8, DText>>), tup3 |-> DTuple(<<I16, DBool, DOpt(U8)>>), tup4 |-> DTuple(<<U64, DText, DF32, DUnit>>),
   tup16 |-> DTuple(<<U8, U8, U8, U8, U8, U8, U8, U8, U8, U8, U8, U8, U8, U8, U8, U8>>),
   tup5 |-> DTuple(<<U8, I16, U8, I16, U8>>), tup6 |-> DTuple(<<U8, I16, U8, I16, U8, I16>>), tup7 |-> DTuple(<<U8, I16, U8, I16, U8, I16, U8>>), tup8 |-> DTuple(<<U8, I16, U8, I16, U8, I16, U8, I16>>), tup9 |-> DTuple(<<U8, I16, U8, I16, U8, I16, U8, I16, U8>>), tup10 |-> DTuple(<<U8, I16, U8, I16, U8, I16, U8, I16, U8, I16>>), tup11 |-> DTuple(<<U8, I16, U8, I16, U8, I16, U8, I16, U8, I16, U8>>), tup12 |-> DTuple(<<U8, I16, U8, I16, U8, I16, U8, I16, U8, I16, U8, I16>>), tup13 |-> DTuple(<<U8, I16, U8, I16, U8, I16, U8, I16, U8, I16, U8, I16, U8>>), tup14 |-> DTuple(<<U8, I16, U8, I16, U8, I16, U8, I16, U8, I16, U8, I16, U8, I16>>), tup15 |-> DTuple(<<U8, I16, U8, I16, U8, I16, U8, I16, U8, I16, U8, I16, U8, I16, U8>>),
   cowsliceu16 |-> DSeq(U16), arr2tup |-> DArr(DTuple(<<U8, DBool>>), 2), vecarr |-> DSeq(DArr(U8, 3)), optbox |-> DOpt(I32), boxvec |-> DSeq(DText),
   arr0u8 |-> DArr(U8, 0), arr1string |-> DArr(DText, 1), arr3i32 |-> DArr(I32, 3), arr23u16 |-> DArr(U16, 23), arr24bool |-> DArr(DBool, 24), arr25i8 |-> DArr(I8, 25), arr16u8 |-> DArr(U8, 16), arr32u8 |-> DArr(U8, 32),
   vecu8 |-> DSeq(U8), vecstring |-> DSeq(DText), vecvecu16 |-> DSeq(DSeq(U16)), vecoptbool |-> DSeq(DOpt(DBool)), vecdequei32 |-> DSeq(I32), linkedlistu64 |-> DSeq(U64),
   btreesetu16 |-> DSet(U16), binaryheapu8 |-> DBag(U8), hashsetstring |-> DBag(DText), hashseti32 |-> DBag(I32),
   btreemapu8string |-> DMap(U8, DText), btreemapstringvecu8 |-> DMap(DText, DSeq(U8)), hashmapu16bool |-> DHMap(U16, DBool), hashmapstringi64 |-> DHMap(DText, I64),
   duration |-> DDuration, systemtime |-> DSysTime,
   ipv4 |-> DIpv4, ipv6 |-> DIpv6, ipaddr |-> DIpAddr, sockv4 |-> DSockV4, sockv6 |-> DSockV6, sockaddr |-> DSock,
   tag |-> DTag, tagged7u8 |-> DTagged(FromNat(7), U8), tagged256string |-> DTagged(FromNat(256), DText), tagged1vecu8 |-> DTagged(FromNat(1), DSeq(U8)),
   vectup |-> DSeq(DTuple(<<U8, DOpt(DText)>>)), optresult |-> DOpt(DResult(U8, DBool)), maptuple |-> DMap(U8, DTuple(<<I8, DF64>>)) ]
TypeNames == DOMAIN TypeTable

\* ---- the encoding of a value of a described type (preferred, definite) ----------------
RECURSIVE EncV(_, _), EncSeqV(_, _), EncTupleV(_, _, _), EncMapV(_, _, _)
EncSeqV(e, xs) == IF xs = <<>> THEN <<>> ELSE EncV(e, Head(xs)) \o EncSeqV(e, Tail(xs))
EncTupleV(es, xs, i) == IF i > Len(es) THEN <<>> ELSE EncV(es[i], xs[i]) \o EncTupleV(es, xs, i + 1)
EncMapV(kd, vd, xs) == IF xs = <<>> THEN <<>> ELSE EncV(kd, Head(xs)[1]) \o EncV(vd, Head(xs)[2]) \o EncMapV(kd, vd, Tail(xs))
EncV(d, v) ==
   CASE d.d = "int"    -> PreferredHead(IF v.neg THEN 1 ELSE 0, v.mag)
     [] d.d = "bool"   -> IF v.b THEN <<245>> ELSE <<244>>
     [] d.d = "char"   -> PreferredHead(0, FromNat(v.ch))
     [] d.d = "f32"    -> <<250>> \o v.bits
     [] d.d = "f64"    -> <<251>> \o v.bits
     [] d.d = "text"   -> PreferredHead(3, FromNat(Len(v.b))) \o v.b
     [] d.d = "bytes"  -> PreferredHead(2, FromNat(Len(v.b))) \o v.b
     [] d.d = "cstr"   -> PreferredHead(2, FromNat(Len(v.b) + 1)) \o v.b \o <<0>>
     [] d.d = "opt"    -> IF v.k = "none" THEN <<246>> ELSE EncV(d.e, v.x)
     [] d.d = "var"    -> <<130>> \o PreferredHead(0, FromNat(v.i)) \o EncV(d.alts[v.i + 1], v.x)
     [] d.d = "seq"    -> PreferredHead(4, FromNat(Len(v.xs))) \o EncSeqV(d.e, v.xs)
     [] d.d = "tuple"  -> PreferredHead(4, FromNat(Len(d.es))) \o EncTupleV(d.es, v.xs, 1)
     [] d.d = "map"    -> PreferredHead(5, FromNat(Len(v.xs))) \o EncMapV(d.kd, d.vd, v.xs)
     [] d.d = "unit"   -> <<128>>
     [] d.d = "tag"    -> PreferredHead(6, v.tg)
     [] d.d = "tagged" -> PreferredHead(6, d.n) \o EncV(d.e, v.x)

\* ---- a small set of values of each described type (boundaries first), for the bounded model --------
V(neg, n) == [k |-> "int", neg |-> neg, mag |-> FromNat(n)]
P2m1(k) == [i \in 1..8 |-> IF i < 9 - (k + 7) \div 8 THEN 0 ELSE IF i = 9 - (k + 7) \div 8 THEN 2^(((k - 1) % 8) + 1) - 1 ELSE 255]   \* 2^k - 1
IntVals(d) ==
   LET unsigned == d.ty \in {"u8", "u16", "u32", "u64"}
       bits == CASE d.ty \in {"u8", "i8"} -> 8 [] d.ty \in {"u16", "i16"} -> 16 [] d.ty \in {"u32", "i32"} -> 32 [] OTHER -> 64
       top == IF unsigned \/ d.ty = "int" THEN P2m1(bits) ELSE P2m1(bits - 1)
       \* every head-width boundary below the top of the type: 2^k - 1 and 2^k for k = 8, 16, 32
       edges == UNION { {P2m1(k), Inc(P2m1(k))} : k \in { j \in {8, 16, 32} : j < (IF unsigned \/ d.ty = "int" THEN bits ELSE bits - 1) } }
       pos == { V(FALSE, n) : n \in {1, 23, 24} } \cup {[k |-> "int", neg |-> FALSE, mag |-> top]} \cup (IF d.nz THEN {} ELSE {V(FALSE, 0)})
              \cup { [k |-> "int", neg |-> FALSE, mag |-> m] : m \in edges }
       neg == IF unsigned THEN {} ELSE { V(TRUE, n) : n \in {0, 23, 24} } \cup {[k |-> "int", neg |-> TRUE, mag |-> top]}
              \cup { [k |-> "int", neg |-> TRUE, mag |-> m] : m \in edges }
   IN pos \cup neg
Rep(x, n) == [i \in 1..n |-> x]
RECURSIVE ValsOf(_)
ValsOf(d) ==
   CASE d.d = "int"    -> IntVals(d)
     [] d.d = "bool"   -> {[k |-> "bool", b |-> TRUE], [k |-> "bool", b |-> FALSE]}
     [] d.d = "char"   -> { [k |-> "char", ch |-> c] : c \in {0, 65, 233, 55295, 57344, 1114111} }
     [] d.d = "f32"    -> { [k |-> "float", w |-> 4, bits |-> b] : b \in {<<63, 128, 0, 0>>, <<255, 192, 0, 1>>, <<128, 0, 0, 0>>} }
     [] d.d = "f64"    -> { [k |-> "float", w |-> 8, bits |-> b] : b \in {<<63, 240, 0, 0, 0, 0, 0, 0>>, <<127, 248, 0, 0, 0, 0, 0, 1>>} }
     [] d.d = "text"   -> { [k |-> "text", b |-> b] : b \in {<<>>, <<97>>, <<195, 169, 33>>, [i \in 1..24 |-> 97 + i]} }
     [] d.d = "bytes"  -> IF d.n >= 0 THEN { [k |-> "bytes", b |-> Rep(0, d.n)], [k |-> "bytes", b |-> [i \in 1..d.n |-> 250 + (i % 5)]], [k |-> "bytes", b |-> Rep(255, d.n)] }
                                               \* address classes the standard library treats specially: loopback, IPv4-mapped, IPv4-compatible
                                               \cup (IF d.n = 16 THEN { [k |-> "bytes", b |-> Rep(0, 15) \o <<1>>], [k |-> "bytes", b |-> Rep(0, 10) \o <<255, 255, 192, 0, 2, 1>>],
                                                                        [k |-> "bytes", b |-> Rep(0, 12) \o <<192, 0, 2, 1>>] } ELSE {})
                                               \cup (IF d.n = 4 THEN { [k |-> "bytes", b |-> <<127, 0, 0, 1>>] } ELSE {})
                          ELSE { [k |-> "bytes", b |-> b] : b \in {<<>>, <<0>>, <<255, 1>>, Rep(7, 24)} }
     [] d.d = "cstr"   -> { [k |-> "bytes", b |-> b] : b \in {<<>>, <<104, 105>>} }
     [] d.d = "opt"    -> {[k |-> "none"]} \cup { [k |-> "some", x |-> x] : x \in ValsOf(d.e) }
     [] d.d = "var"    -> UNION { { [k |-> "var", i |-> i - 1, x |-> x] : x \in ValsOf(d.alts[i]) } : i \in 1..Len(d.alts) }
     [] d.d = "seq"    -> LET es == ValsOf(d.e)  a == CHOOSE x \in es : TRUE  b == CHOOSE x \in es : x # a \/ Cardinality(es) = 1 IN
                          IF d.n >= 0 THEN { [k |-> "seq", xs |-> Rep(a, d.n)], [k |-> "seq", xs |-> [i \in 1..d.n |-> IF i % 2 = 0 THEN a ELSE b]] }
                          ELSE IF d.unordered THEN { [k |-> "seq", xs |-> xs] : xs \in {<<>>, <<a>>} }      \* (bags of two are recorded by the harness)
                          ELSE IF d.set THEN { [k |-> "seq", xs |-> xs] : xs \in {<<>>, <<V(FALSE, 1)>>, <<V(FALSE, 1), V(FALSE, 24)>>, <<V(FALSE, 0), V(FALSE, 23), V(FALSE, 256)>>} }
                          ELSE { [k |-> "seq", xs |-> xs] : xs \in {<<>>, <<a>>, <<a, b>>, <<b, a, b>>, Rep(a, 24)} } \cup { [k |-> "seq", xs |-> <<x>>] : x \in es }
     [] d.d = "tuple"  -> IF d.dur THEN { [k |-> "seq", xs |-> <<s, n>>] : s \in (IF d.st THEN {V(FALSE, 0), V(FALSE, 1), V(FALSE, 65536)} ELSE IntVals(U64)), n \in {V(FALSE, 0), V(FALSE, 999999999), V(FALSE, 24)} }
                          ELSE LET f(i) == CHOOSE x \in ValsOf(d.es[i]) : TRUE
                                   g(i) == CHOOSE x \in ValsOf(d.es[i]) : x # f(i) \/ Cardinality(ValsOf(d.es[i])) = 1 IN
                               { [k |-> "seq", xs |-> [i \in 1..Len(d.es) |-> f(i)]], [k |-> "seq", xs |-> [i \in 1..Len(d.es) |-> g(i)]] }
                               \cup (IF Len(d.es) = 1 THEN { [k |-> "seq", xs |-> <<x>>] : x \in ValsOf(d.es[1]) } ELSE {})
     [] d.d = "map"    -> LET ks == ValsOf(d.kd)  vs == ValsOf(d.vd)
                              k1 == CHOOSE x \in ks : TRUE  v1 == CHOOSE x \in vs : TRUE  v2 == CHOOSE x \in vs : x # v1 \/ Cardinality(vs) = 1 IN
                          { [k |-> "map", xs |-> xs] : xs \in {<<>>, <<<<k1, v1>>>>, <<<<k1, v2>>>>} }
     [] d.d = "unit"   -> {[k |-> "unit"]}
     [] d.d = "tag"    -> { [k |-> "tagv", tg |-> n] : n \in {FromNat(0), FromNat(24), FromNat(65536), Max64} }
     [] d.d = "tagged" -> { [k |-> "tagged", x |-> x] : x \in ValsOf(d.e) }

\* element order does not matter somewhere inside the type
RECURSIVE HasUnordered(_)
HasUnordered(d) == CASE d.d \in {"seq"}  -> d.unordered \/ HasUnordered(d.e)
                     [] d.d = "map"      -> d.unordered \/ HasUnordered(d.kd) \/ HasUnordered(d.vd)
                     [] d.d \in {"opt", "tagged"} -> HasUnordered(d.e)
                     [] d.d = "var"      -> \E i \in 1..Len(d.alts) : HasUnordered(d.alts[i])
                     [] d.d = "tuple"    -> \E i \in 1..Len(d.es) : HasUnordered(d.es[i])
                     [] OTHER -> FALSE
\* the items of an array / the pairs of a map as byte strings (for comparing as bags)
RECURSIVE SplitItems(_, _, _)
SplitItems(buf, p, k) == IF k = 0 THEN <<>> ELSE LET e == ItemEnd(buf, p) IN <<SubSeq(buf, p + 1, e)>> \o SplitItems(buf, e, k - 1)
RECURSIVE SplitPairs(_, _, _)
SplitPairs(buf, p, k) == IF k = 0 THEN <<>> ELSE LET e == ItemEnd(buf, ItemEnd(buf, p)) IN <<SubSeq(buf, p + 1, e)>> \o SplitPairs(buf, e, k - 1)
SameBag(s, t) == Len(s) = Len(t) /\ \A i \in 1..Len(s) : Cardinality({ j \in 1..Len(s) : s[j] = s[i] }) = Cardinality({ j \in 1..Len(t) : t[j] = s[i] })
(* bytes is an encoding of v: exactly EncV, except that at the top level of an unordered collection any order of the  *)
(* elements is accepted (the harness only uses unordered collections of ordered elements, at the top level)           *)
IsEncodingOf(d, v, bytes) ==
   IF d.d = "seq" /\ d.unordered THEN
        LET ref == EncV(d, v)  h == HeadAt(ref, 0) IN
        /\ Len(bytes) = Len(ref) /\ WellFormedItem(bytes) /\ SubSeq(bytes, 1, h.hl) = SubSeq(ref, 1, h.hl)
        /\ SameBag(SplitItems(bytes, h.hl, Len(v.xs)), SplitItems(ref, h.hl, Len(v.xs)))
   ELSE IF d.d = "map" /\ d.unordered THEN
        LET ref == EncV(d, v)  h == HeadAt(ref, 0) IN
        /\ Len(bytes) = Len(ref) /\ WellFormedItem(bytes) /\ SubSeq(bytes, 1, h.hl) = SubSeq(ref, 1, h.hl)
        /\ SameBag(SplitPairs(bytes, h.hl, Len(v.xs)), SplitPairs(ref, h.hl, Len(v.xs)))
   ELSE bytes = EncV(d, v)

\* an encoding uses indefinite-length framing somewhere
RECURSIVE HasIndef(_, _)
HasIndef(buf, p) == IF p >= Len(buf) THEN FALSE ELSE
   LET b == At(buf, p)  h == HeadAt(buf, p) IN
   IF h.st # "ok" THEN FALSE
   ELSE IF h.indef THEN TRUE
   ELSE IF h.major \in {2, 3} THEN HasIndef(buf, p + h.hl + ToNat(h.arg)) ELSE HasIndef(buf, p + h.hl)
=============================================================================
