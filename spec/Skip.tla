-------------------------------- MODULE Skip --------------------------------
(***************************************************************************)
(* Implementation-shaped layer of Decoder::skip: the loop of decoder.rs as *)
(* a step machine, one action per loop iteration, in both feature variants *)
(* (Alloc = TRUE: counters + stack of Option<u64>; Alloc = FALSE: counters *)
(* only).  The property layer is SkipProp.  TLC checks that the machine    *)
(* refines the property layer on every input of the bounded model.         *)
(***************************************************************************)
EXTENDS SkipProp

\* ---- implementation-shaped layer -------------------------------------------------
CONSTANT Alloc
VARIABLES buf, pos, nr, ir, st, status, steps
svars == <<buf, pos, nr, ir, st, status, steps>>
NoneV == -1                                    \* Option::None on the stack
RECURSIVE PopZeros(_)
PopZeros(s) == IF s # <<>> /\ s[Len(s)] = 0 THEN PopZeros(SubSeq(s, 1, Len(s) - 1)) ELSE s
Rep(x, n) == [i \in 1..n |-> x]
Sub1(x) == IF x = 0 THEN 0 ELSE x - 1
SkipInit(b, p) == buf = b /\ pos = p /\ nr = 1 /\ ir = 0 /\ st = <<>> /\ status = "run" /\ steps = 0
Fail(s) == status' = s /\ UNCHANGED <<pos, nr, ir, st>>
\* the block after the big match
After(nr1, ir1, st1) ==
   IF Alloc /\ nr1 = 0 /\ ir1 = 0 THEN
      LET s2 == PopZeros(st1) IN
        IF s2 = <<>> THEN st' = s2 /\ nr' = nr1 /\ ir' = ir1 /\ status' = "ok"
        ELSE IF s2[Len(s2)] = NoneV THEN st' = s2 /\ nr' = nr1 /\ ir' = ir1 /\ status' = "run"
        ELSE st' = [s2 EXCEPT ![Len(s2)] = @ - 1] /\ nr' = nr1 /\ ir' = ir1 /\ status' = "run"
   ELSE nr' = Sub1(nr1) /\ ir' = ir1 /\ st' = st1 /\ status' = "run"
Container(n, indef) ==
   IF ~indef THEN
      IF n = 0 /\ Alloc THEN After(nr, ir, st)
      ELSE IF Alloc /\ nr = 0 /\ ir = 0 THEN After(nr, ir, Append(st, n)) ELSE After(nr + n, ir, st)
   ELSE
      IF Alloc /\ nr = 0 /\ ir = 0 THEN After(nr, ir, Append(st, NoneV))
      ELSE IF nr < 2 THEN After(nr, ir + 1, st)
      ELSE IF Alloc THEN After(0, 0, st \o Rep(NoneV, ir) \o <<nr - 1, NoneV>>)
      ELSE status' = "unsupported" /\ UNCHANGED <<nr, ir, st>>
SkipStep ==
   /\ status = "run" /\ UNCHANGED buf /\ steps' = steps + 1
   /\ IF ~(nr > 0 \/ ir > 0 \/ st # <<>>) THEN status' = "ok" /\ UNCHANGED <<pos, nr, ir, st>>
      ELSE IF pos >= Len(buf) THEN Fail("err")
      ELSE LET b == At(buf, pos)  h == HeadAt(buf, pos) IN
        IF b <= 27 \/ (b >= 32 /\ b <= 59) THEN                                  \* u64() / int()
           (IF h.st = "ok" THEN pos' = pos + h.hl /\ After(nr, ir, st) ELSE Fail("err"))
        ELSE IF b >= 64 /\ b <= 127 THEN                                         \* bytes_iter / str_iter, drained
           (LET e == ItemEnd(buf, pos) IN
            IF e >= 0 /\ TextOK(buf, pos) THEN pos' = e /\ After(nr, ir, st) ELSE Fail("err"))
        ELSE IF b >= 128 /\ b <= 191 THEN                                        \* array() / map()
           (IF h.st # "ok" THEN Fail("err")
            ELSE pos' = pos + h.hl /\ Container(IF h.major = 4 THEN Cap(h.arg) ELSE 2 * Cap(h.arg), h.indef))
        ELSE IF b >= 192 /\ b <= 219 THEN                                        \* tag: read the head, `continue`
           (IF h.st = "ok" THEN pos' = pos + h.hl /\ UNCHANGED <<nr, ir, st, status>> ELSE Fail("err"))
        ELSE IF b >= 224 /\ b <= 251 THEN                                        \* simple / float: head only
           (IF h.st = "ok" THEN pos' = pos + h.hl /\ After(nr, ir, st) ELSE Fail("err"))
        ELSE IF b = 255 THEN
           (pos' = pos + 1 /\
            IF Alloc /\ nr = 0 /\ ir = 0
            THEN After(nr, ir, IF st # <<>> /\ st[Len(st)] = NoneV THEN SubSeq(st, 1, Len(st) - 1) ELSE st)
            ELSE After(nr, Sub1(ir), st))
        ELSE Fail("err")                                                         \* reserved initial bytes
SkipDone == status # "run"
=============================================================================
