------------------------------ MODULE SkipProp ------------------------------
(***************************************************************************)
(* Decoder::skip.                                                          *)
(*                                                                         *)
(* Property layer (C06): SkipExpect - what the statement demands, stated   *)
(* with the RFC 8949 item boundary of CborWire.                            *)
(*                                                                         *)
(* Implementation-shaped layer: the loop of decoder.rs as a step machine,  *)
(* one action per loop iteration, in both feature variants                 *)
(* (Alloc = TRUE: counters + stack of Option<u64>; Alloc = FALSE: counters *)
(* only, refusing an indefinite container while more than one item is     *)
(* still owed).  TLC checks that the machine refines the property layer    *)
(* on every input of the bounded model (MC_C06).                           *)
(***************************************************************************)
EXTENDS Decoder

\* ---- property layer -----------------------------------------------------------
(* Scan(buf, p, inside): one pass over the data item at offset p.                                   *)
(*   e  offset after the item, or Trunc / Bad (the same function as CborWire!ItemEnd - MC_C06       *)
(*      checks that the two agree on every input of the bounded model)                              *)
(*   t  every text string in the item is valid UTF-8 (each chunk by itself, RFC 8949 3.2.3)         *)
(*   n  some array or map in the item contains an indefinite-length array or map                    *)
(*      (`inside`: the item at p itself sits below an array/map head)                               *)
ScanR(e, t, n) == [e |-> e, t |-> t, n |-> n]
RECURSIVE Scan(_, _, _), ScanItems(_, _, _, _, _), ScanIndef(_, _, _, _, _), ScanChunks(_, _, _, _)
ScanItems(buf, p, k, t, n) == IF k = 0 THEN ScanR(p, t, n) ELSE
   LET r == Scan(buf, p, TRUE) IN
   IF r.e < 0 THEN ScanR(r.e, t, n) ELSE ScanItems(buf, r.e, k - 1, t /\ r.t, n \/ r.n)
ScanIndef(buf, p, par, t, n) ==
   LET h == HeadAt(buf, p) IN
   IF h.st = "eoi" THEN ScanR(Trunc, t, n)
   ELSE IF IsBreak(h) THEN ScanR(IF par = 1 THEN Bad ELSE p + 1, t, n)
   ELSE LET r == Scan(buf, p, TRUE) IN
        IF r.e < 0 THEN ScanR(r.e, t, n) ELSE ScanIndef(buf, r.e, IF par = 2 THEN 2 ELSE 1 - par, t /\ r.t, n \/ r.n)
ScanChunks(buf, p, mj, t) ==
   LET h == HeadAt(buf, p) IN
   IF h.st = "eoi" THEN ScanR(Trunc, t, FALSE)
   ELSE IF h.st = "bad" THEN ScanR(Bad, t, FALSE)
   ELSE IF IsBreak(h) THEN ScanR(p + 1, t, FALSE)
   ELSE IF h.major # mj \/ h.indef THEN ScanR(Bad, t, FALSE)
   ELSE IF ~IsSmall(h.arg) \/ ToNat(h.arg) > Len(buf) - p - h.hl THEN ScanR(Trunc, t, FALSE)
   ELSE ScanChunks(buf, p + h.hl + ToNat(h.arg), mj,
                   t /\ (mj = 2 \/ ValidUtf8(SubSeq(buf, p + h.hl + 1, p + h.hl + ToNat(h.arg)))))
Scan(buf, p, inside) ==
   LET h == HeadAt(buf, p) IN
   IF h.st = "eoi" THEN ScanR(Trunc, TRUE, FALSE)
   ELSE IF h.st = "bad" THEN ScanR(Bad, TRUE, FALSE)
   ELSE CASE h.major \in {0, 1} -> ScanR(p + h.hl, TRUE, FALSE)
          [] h.major \in {2, 3} ->
               IF h.indef THEN ScanChunks(buf, p + 1, h.major, TRUE)
               ELSE IF ~IsSmall(h.arg) \/ ToNat(h.arg) > Len(buf) - p - h.hl THEN ScanR(Trunc, TRUE, FALSE)
               ELSE ScanR(p + h.hl + ToNat(h.arg),
                      h.major = 2 \/ ValidUtf8(SubSeq(buf, p + h.hl + 1, p + h.hl + ToNat(h.arg))), FALSE)
          [] h.major = 4 -> IF h.indef THEN ScanIndef(buf, p + 1, 2, TRUE, inside)
                            ELSE ScanItems(buf, p + h.hl, Cap(h.arg), TRUE, FALSE)
          [] h.major = 5 -> IF h.indef THEN ScanIndef(buf, p + 1, 0, TRUE, inside)
                            ELSE ScanItems(buf, p + h.hl, 2 * Cap(h.arg), TRUE, FALSE)
          [] h.major = 6 -> Scan(buf, p + h.hl, inside)
          [] h.major = 7 ->
               IF h.indef THEN ScanR(Bad, TRUE, FALSE)
               ELSE IF h.info = 24 /\ ToNat(h.arg) < 32 THEN ScanR(Bad, TRUE, FALSE)
               ELSE ScanR(p + h.hl, TRUE, FALSE)
TextOK(buf, p) == Scan(buf, p, FALSE).t
NestedIndef(buf, p, inside) == Scan(buf, p, inside).n

(* What skip() at offset p must do (cfgAlloc: built with the alloc feature):                       *)
(*  - on a well-formed item: Ok and the position is exactly the end of the item;                   *)
(*    a text string that is not valid UTF-8 makes the item invalid though well-formed - skip may   *)
(*    then either advance exactly or fail, as full decoding does;                                  *)
(*    without alloc the documented refusal is allowed when an array/map contains an indefinite one *)
(*  - on a strict prefix of an item: an error (class not pinned by C06)                            *)
(*  - on bytes that do not start a well-formed item: totality only                                 *)
SkipExpect(cfgAlloc, buf, p) ==
   LET r == Scan(buf, p, FALSE) IN
   IF r.e = Trunc THEN {Err("*")}
   ELSE IF r.e = Bad THEN {Free}
   ELSE {Ok(VUnit, r.e)}
        \cup (IF ~r.t THEN {Err("*")} ELSE {})
        \cup (IF ~cfgAlloc /\ r.n THEN {Err("*")} ELSE {})
=============================================================================
