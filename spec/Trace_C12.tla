------------------------------ MODULE Trace_C12 ------------------------------
(* Trace validation for C12: float encoder calls and float accessor calls of the implementation. *)
EXTENDS Floats, TLC, Json, IOUtils
VARIABLE l
Rec == ndJsonDeserialize(IOEnv.TRACE)
Expect(e) == CASE e.fam = "encf" -> EncFloat(e.name, e.in.bits)
               [] e.fam = "acc"  -> FloatAcc(e.name, TRUE, e.in.buf, e.in.pos)
EventOK(e) == FObsOK(e.obs, Expect(e))
Init == l = 1
Next == /\ l <= Len(Rec) /\ l' = l + 1
        /\ IF EventOK(Rec[l]) THEN TRUE ELSE PrintT(<<"MISMATCH", l, ToJson(Rec[l])>>)
AllConsumed == TLCGet("stats").diameter - 1 = Len(Rec) \/ PrintT(<<"NOTCONSUMED", TLCGet("stats").diameter - 1, Len(Rec)>>)
=============================================================================
