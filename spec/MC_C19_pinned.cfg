INIT Init
NEXT Next
CONSTANT Fixed = FALSE
CONSTANT MaxTok = 3
CONSTANT Rich = FALSE
ACTION_CONSTRAINT Emit
INVARIANT Exact OutputBound WorkBound StackBound
CHECK_DEADLOCK FALSE
