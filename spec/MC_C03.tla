------------------------------- MODULE MC_C03 -------------------------------
(* (1) every Encoder method x boundary arguments: one call = one preferred head (cases emitted);            *)
(* (2) every call sequence up to MaxCalls over a small alphabet: a balanced sequence is exactly one         *)
(*     well-formed item and its bytes are the preferred serialisation of the value it denotes;             *)
(*     an open sequence is a strict prefix of a well-formed item.                                           *)
EXTENDS Encoder, TLC, Json
CONSTANTS Tier, MaxCalls
VARIABLES ph, calls, it
vars == <<ph, calls, it>>
Pow2(k) == [i \in 1..8 |-> IF i = 8 - (k \div 8) THEN 2^(k % 8) ELSE 0]
Ks == IF Tier = "quick" THEN {0, 4, 5, 7, 8, 9, 15, 16, 17, 31, 32, 33, 63} ELSE 0..63
Boundary == { Add(Pow2(k), FromNat(d)) : k \in Ks, d \in 0..2 } \cup { Sub(Pow2(k), FromNat(d)) : k \in Ks, d \in 0..2 }
            \cup { Sub(Max64, FromNat(d)) : d \in 0..2 } \cup { FromNat(n) : n \in 0..25 }
FitsM(m, neg, a) == CASE m = "u8" -> ~neg /\ FitsBits(a, 8) [] m = "u16" -> ~neg /\ FitsBits(a, 16) [] m = "u32" -> ~neg /\ FitsBits(a, 32)
                      [] m = "u64" -> ~neg [] m = "i8" -> FitsBits(a, 7) [] m = "i16" -> FitsBits(a, 15) [] m = "i32" -> FitsBits(a, 31)
                      [] m = "i64" -> FitsBits(a, 63) [] m = "int" -> TRUE
SingleCalls ==
   { [m |-> m, neg |-> n, mag |-> a] : m \in IntMethods, n \in BOOLEAN, a \in Boundary }
Alphabet == { [m |-> "u8", neg |-> FALSE, mag |-> FromNat(1)], [m |-> "array", n |-> FromNat(0)], [m |-> "array", n |-> FromNat(1)],
              [m |-> "array", n |-> FromNat(2)], [m |-> "map", n |-> FromNat(1)], [m |-> "begin_array"], [m |-> "begin_map"], [m |-> "end"],
              [m |-> "tag", n |-> FromNat(1)], [m |-> "str", b |-> <<97>>], [m |-> "begin_str"], [m |-> "begin_bytes"], [m |-> "bytes", b |-> <<>>],
              [m |-> "null"] }
\* iterator encoders: element counts x every kind of size hint a well-behaved iterator can give
NoIt == [kind |-> "array", xs |-> <<>>, low |-> 0, up |-> 0]
Hints(n) == {<<n, n>>, <<0, -1>>, <<n, -1>>, <<0, n>>, <<0, n + 3>>, <<n, n + 1>>} \cup (IF n > 0 THEN {<<n - 1, n>>, <<1, -1>>} ELSE {})
Iters == { [kind |-> k, xs |-> [i \in 1..(IF k = "array" THEN n ELSE 2 * n) |-> FromNat(IF i % 3 = 0 THEN 500 ELSE i)], low |-> h[1], up |-> h[2]] :
             k \in {"array", "map"}, n \in {0, 1, 2, 23, 24}, h \in UNION { Hints(m) : m \in {0, 1, 2, 23, 24} } }
ItersQ == { c \in Iters : LET n == IF c.kind = "array" THEN Len(c.xs) ELSE Len(c.xs) \div 2 IN <<c.low, c.up>> \in Hints(n) }
Init == ph = "start" /\ calls = <<>> /\ it = NoIt
Next == \/ ph = "start" /\ ph' = "iter" /\ it' \in ItersQ /\ UNCHANGED calls
        \/ ph = "start" /\ ph' = "single" /\ calls' \in { <<c>> : c \in { x \in SingleCalls : FitsM(x.m, x.neg, x.mag) } } /\ UNCHANGED it
        \/ ph = "start" /\ ph' = "single" /\ calls' \in { <<[m |-> "simple", i |-> n]>> : n \in 0..255 }
                                                  \cup { <<[m |-> m, n |-> a]>> : m \in {"tag", "array", "map"}, a \in Boundary }
                                                  \cup { <<[m |-> "char", i |-> n]>> : n \in {0, 23, 24, 255, 256, 55295, 57344, 65535, 65536, 1114111} }
                                                  \cup { <<[m |-> "bool", b |-> b]>> : b \in BOOLEAN }
                                                  \cup { <<[m |-> m]>> : m \in {"null", "undefined", "begin_array", "begin_map", "begin_bytes", "begin_str", "end"} }
                                                  \cup { <<[m |-> m, b |-> [i \in 1..n |-> (i * 7) % 128]]>> : m \in {"bytes", "str"}, n \in {0, 1, 23, 24, 25} }
           /\ UNCHANGED it
        \/ ph = "start" /\ ph' = "seq" /\ calls' = <<>> /\ UNCHANGED it
        \/ ph = "seq" /\ Len(calls) < MaxCalls /\ ph' = "seq" /\ (\E c \in Alphabet : calls' = Append(calls, c)) /\ UNCHANGED it
Emit == /\ (ph' = "iter") => PrintT(<<"CASE", ToJson([fam |-> "encit", name |-> it'.kind, in |-> it', exp |-> EncIter(it')])>>)
        /\ (ph' = "single") => PrintT(<<"CASE", ToJson([fam |-> "enc", name |-> calls'[1].m, in |-> calls'[1], exp |-> EncCall(calls'[1])])>>)
        /\ (ph' = "seq" /\ calls' # <<>> /\ ~Run(S0, calls').bad) =>
              PrintT(<<"CASE", ToJson([fam |-> "encseq", name |-> "calls", in |-> [calls |-> calls'],
                                       exp |-> {Ok(VBytes(CallsBytes(calls')), Len(CallsBytes(calls')))}])>>)
Out == CallsBytes(calls)
\* whatever the hint, the iterator encoders write one well-formed item denoting the same array / map
IterOK == ph = "iter" => LET b == IterBytes(it.kind, it.xs, it.low, it.up)
                             n == IF it.kind = "array" THEN Len(it.xs) ELSE Len(it.xs) \div 2 IN
                         WellFormedItem(b) /\ Tree(b) = Tree(IterBytes(it.kind, it.xs, n, n))
\* one call = one well-formed item carrying exactly the value given, in shortest form
SingleOK == (ph = "single" /\ IsScalarCall(calls[1]) /\ CallBytes(calls[1]) # <<-1>>) =>
               /\ WellFormedItem(Out) /\ IsPreferred(Out)
               /\ (calls[1].m \in IntMethods => Tree(Out) = TInt(calls[1].neg, calls[1].mag))
\* a balanced sequence is exactly one well-formed item; containers use shortest heads (indefinite ones are as requested)
BalancedOK == (ph = "seq" /\ Balanced(calls)) => WellFormedItem(Out)
\* an open sequence is a strict prefix of a well-formed item
OpenOK == (ph = "seq" /\ OpenValue(calls)) => ItemEnd(Out, 0) = Trunc
\* conversely the bytes are one item only if the calls were balanced
OnlyBalanced == (ph = "seq" /\ calls # <<>> /\ ~Run(S0, calls).bad /\ WellFormedItem(Out)) => Balanced(calls)
=============================================================================
