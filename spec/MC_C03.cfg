INIT Init
NEXT Next
CONSTANT Tier = "quick"
CONSTANT MaxCalls = 4
ACTION_CONSTRAINT Emit
INVARIANT SingleOK BalancedOK OpenOK OnlyBalanced IterOK
CHECK_DEADLOCK FALSE
