INIT Init
NEXT Next
CONSTANT Tier = "quick"
CONSTANT MaxCalls = 4
ACTION_CONSTRAINT Emit
INVARIANT SingleOK BalancedOK OpenOK OnlyBalanced
CHECK_DEADLOCK FALSE
