----------------------------- MODULE SinksProof -----------------------------
(***************************************************************************)
(* Unbounded companion of Sinks / MC_C13 (bonus, no claim depends on it):  *)
(* the length abstraction of a bounded sink - capacity cap, position pos,  *)
(* write_all of n bytes is all-or-nothing - satisfies the position law for *)
(* every capacity and every sequence of writes.  Proved with TLAPS.        *)
(***************************************************************************)
EXTENDS Naturals, TLAPS
CONSTANT cap
ASSUME CapNat == cap \in Nat
VARIABLES pos, ok
vars == <<pos, ok>>
Init == pos = 0 /\ ok = TRUE
Write(n) == IF pos + n <= cap THEN pos' = pos + n /\ ok' = TRUE ELSE pos' = pos /\ ok' = FALSE
Next == \E n \in Nat : Write(n)
Spec == Init /\ [][Next]_vars
TypeOK == pos \in Nat /\ ok \in BOOLEAN
PositionLaw == pos <= cap
Inv == TypeOK /\ PositionLaw
\* a refused write changes nothing; an accepted one advances the position by exactly its length
AllOrNothing == [][\E n \in Nat : (pos' = pos + n /\ pos + n <= cap) \/ pos' = pos]_vars

THEOREM Safety == Spec => []Inv
<1>1. Init => Inv
  BY CapNat DEF Init, Inv, TypeOK, PositionLaw
<1>2. Inv /\ [Next]_vars => Inv'
  <2> SUFFICES ASSUME Inv, [Next]_vars PROVE Inv'
    OBVIOUS
  <2>1. CASE Next
    <3>1. PICK n \in Nat : Write(n)
      BY <2>1 DEF Next
    <3> QED
      BY <3>1, CapNat DEF Write, Inv, TypeOK, PositionLaw
  <2>2. CASE UNCHANGED vars
    BY <2>2 DEF vars, Inv, TypeOK, PositionLaw
  <2> QED
    BY <2>1, <2>2
<1> QED
  BY <1>1, <1>2, PTL DEF Spec
=============================================================================
