------------------------------ MODULE Trace_C16 ------------------------------
(* Trace validation for C16: one recorded run of the real AsyncWriter against the AsyncWriter specification.     *)
(* Idle / Complete are not logged: they are taken silently whenever enabled.                                    *)
EXTENDS AsyncWriter, Json, IOUtils
VARIABLES l, nret
Rec == ndJsonDeserialize(IOEnv.TRACE)
TrVals == Rec[1].vals
TrMaxLen == Rec[1].maxlen
Big == 1000000000
\* the byte denoted by identity <<v, i>>: the harness' frame layout (frames.rs / awrite.rs)
BE32(n, i) == (n \div (256 ^ (4 - i))) % 256
ByteOf(v, i) == IF i <= 4 THEN BE32(Vals[v], i) ELSE IF i = 5 THEN v % 24 ELSE (v * 41 + (i - 5) * 13) % 256
SinkBytes == [i \in 1..Len(sink) |-> ByteOf(sink[i][1], sink[i][2])]

TInit == Init /\ l = 2 /\ nret = 0 /\ TLCSet(1, 0)
IntEn == Running /\ (tag = "none" \/ off >= Len(buf))
LastK == sched'[Len(sched')].k
Ev(e) == \/ e.ev = "write"   /\ StartWrite /\ LastK = e.k /\ UNCHANGED nret
         \/ e.ev = "sync"    /\ StartSync  /\ UNCHANGED nret
         \/ e.ev = "resume"  /\ Resume     /\ UNCHANGED nret
         \/ e.ev = "drop"    /\ Drop       /\ UNCHANGED nret
         \/ e.ev = "accept"  /\ AcceptK(e.k) /\ LastK = e.k /\ UNCHANGED nret
         \/ e.ev = "zero"    /\ Zero       /\ UNCHANGED nret
         \/ e.ev = "pending" /\ Pending    /\ UNCHANGED nret
         \/ e.ev = "fail"    /\ Fail       /\ UNCHANGED nret
         \/ e.ev = "ret" /\ fut = "none" /\ Len(out) = nret + 1 /\ out[Len(out)] = e.r /\ Len(sink) = e.sinklen
                         /\ nret' = nret + 1 /\ UNCHANGED vars
         \/ e.ev = "end" /\ SinkBytes = e.sink /\ UNCHANGED <<vars, nret>>
TNext == \/ IntEn /\ (Idle \/ Complete) /\ UNCHANGED <<l, nret>>
         \/ ~IntEn /\ l <= Len(Rec) /\ Ev(Rec[l]) /\ l' = l + 1
Progress == TLCSet(1, IF TLCGet(1) < l THEN l ELSE TLCGet(1))
Accepted == \/ TLCGet(1) = Len(Rec) + 1
            \/ PrintT(<<"MISMATCH", TLCGet(1), ToJson([ev |-> Rec[TLCGet(1)], header |-> Rec[1], at |-> TLCGet(1)])>>)
\* the harness' caller must itself be compliant (a violation is a harness defect, not a finding)
CallerCompliant == compliant
=============================================================================
