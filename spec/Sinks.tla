-------------------------------- MODULE Sinks --------------------------------
(***************************************************************************)
(* minicbor::encode::Write sinks (property C13).                           *)
(*   kinds: "slice"  &mut [u8]              "cslice" Cursor<&mut [u8]>     *)
(*          "carray" Cursor<[u8; N]>        "cbox"   Cursor<Box<[u8]>>     *)
(*          "vec"    Vec<u8> (unbounded)    "iow"    Writer<Vec<u8>>       *)
(* A sink is (cap, content): capacity and the bytes accepted so far; the   *)
(* position of a cursor is Len(content).  write_all is all-or-nothing.     *)
(***************************************************************************)
EXTENDS Integers, Sequences, FiniteSets, TLC, SequencesExt

\* "iowslice" Writer<&mut [u8]> and "iowchunk" Writer<W> over a W that takes a few bytes per call: std::io sinks that make short writes
\* (their write_all is not all-or-nothing per call; they take part in the encode law only)
Kinds == {"slice", "cslice", "carray", "cbox", "vec", "iow"}
Bounded(kind) == kind \notin {"vec", "iow", "iowchunk"}

\* write_all(chunk) on a sink with capacity cap holding content
Fits(kind, cap, content, chunk) == ~Bounded(kind) \/ Len(content) + Len(chunk) <= cap
WriteAll(kind, cap, content, chunk) ==
   IF Fits(kind, cap, content, chunk) THEN [ok |-> TRUE, content |-> content \o chunk]
   ELSE [ok |-> FALSE, content |-> content]

\* a sequence of write_all calls, stopping at the first error (the encoder propagates it)
RECURSIVE WriteSeq(_, _, _, _)
WriteSeq(kind, cap, content, chunks) ==
   IF chunks = <<>> THEN [ok |-> TRUE, content |-> content]
   ELSE LET r == WriteAll(kind, cap, content, Head(chunks)) IN
        IF r.ok THEN WriteSeq(kind, cap, r.content, Tail(chunks)) ELSE r

RECURSIVE Flatten(_)
Flatten(chunks) == IF chunks = <<>> THEN <<>> ELSE Head(chunks) \o Flatten(Tail(chunks))

(* Encoding a value whose reference encoding is `ref` (written in some way as chunks) into a sink:        *)
(* succeeds exactly when it fits, then the sink holds exactly ref; otherwise a write error, and what was   *)
(* accepted is a prefix of ref.                                                                            *)
EncodeOK(kind, cap, ref) == ~Bounded(kind) \/ Len(ref) <= cap
=============================================================================
