INIT Init
NEXT Next
ACTION_CONSTRAINT Emit
INVARIANT Agree SameItem SameVals
CHECK_DEADLOCK FALSE
