------------------------------- MODULE U64 -------------------------------
(***************************************************************************)
(* 64-bit naturals as 8-byte big-endian tuples.  TLC integers are 32-bit   *)
(* and the Json module cannot read larger literals, so every CBOR argument *)
(* (integer value, length, tag, float bit pattern) crosses the boundary    *)
(* between the implementation and this specification in this form.         *)
(*                                                                         *)
(* CBOR integers are pairs (neg, mag): the value is mag when ~neg and      *)
(* -1 - mag when neg (RFC 8949, 3.1, major types 0 and 1).                 *)
(***************************************************************************)
EXTENDS Integers, Sequences

Zero64 == <<0, 0, 0, 0, 0, 0, 0, 0>>
Max64  == <<255, 255, 255, 255, 255, 255, 255, 255>>

RECURSIVE FromNatR(_, _)
FromNatR(n, k) == IF k = 0 THEN <<>> ELSE Append(FromNatR(n \div 256, k - 1), n % 256)
FromNat(n) == FromNatR(n, 8)             \* n < 2^31
BytesOfNat(n, w) == FromNatR(n, w)       \* w-byte big-endian form of n < 2^31

IsU64(v) == /\ Len(v) = 8 /\ \A i \in 1..8 : v[i] \in 0..255

\* left-pad a big-endian byte string of length <= 8 with zeros
Pad8(bs) == [i \in 1..8 |-> IF i <= 8 - Len(bs) THEN 0 ELSE bs[i - (8 - Len(bs))]]
\* the low w bytes
Low(v, w) == SubSeq(v, 9 - w, 8)
\* v < 2^(8w)
FitsBytes(v, w) == \A i \in 1..(8 - w) : v[i] = 0

Log2(b) == IF b = 0 THEN 0 ELSE CHOOSE k \in 1..8 : 2^(k - 1) <= b /\ b < 2^k
RECURSIVE BitLenR(_, _)
BitLenR(v, i) == IF i > 8 THEN 0 ELSE IF v[i] # 0 THEN (8 - i) * 8 + Log2(v[i]) ELSE BitLenR(v, i + 1)
BitLen(v) == BitLenR(v, 1)               \* 0 for 0, 64 for 2^64-1
FitsBits(v, n) == BitLen(v) <= n         \* v < 2^n

IsSmall(v) == v[1] = 0 /\ v[2] = 0 /\ v[3] = 0 /\ v[4] = 0 /\ v[5] < 128     \* v < 2^31
ToNat(v) == ((v[5] * 256 + v[6]) * 256 + v[7]) * 256 + v[8]                 \* only if IsSmall(v)
IsZero(v) == v = Zero64

RECURSIVE CmpR(_, _, _)
CmpR(a, b, i) == IF i > 8 THEN 0 ELSE IF a[i] < b[i] THEN -1 ELSE IF a[i] > b[i] THEN 1 ELSE CmpR(a, b, i + 1)
Cmp(a, b) == CmpR(a, b, 1)
Lt(a, b) == Cmp(a, b) = -1
Le(a, b) == Cmp(a, b) <= 0

RECURSIVE AddC(_, _, _, _)               \* <<carry, bytes>> of a[1..i] + b[1..i] + c
AddC(a, b, i, c) == IF i = 0 THEN <<c, <<>>>> ELSE
   LET s == a[i] + b[i] + c
       r == AddC(a, b, i - 1, s \div 256)
   IN <<r[1], Append(r[2], s % 256)>>
Add(a, b)    == AddC(a, b, 8, 0)[2]                                  \* wrapping
AddOvf(a, b) == AddC(a, b, 8, 0)[1] = 1
SatAdd(a, b) == LET r == AddC(a, b, 8, 0) IN IF r[1] = 1 THEN Max64 ELSE r[2]
SatDbl(a)    == SatAdd(a, a)
Inc(a)       == Add(a, FromNat(1))

RECURSIVE SubB(_, _, _, _)               \* <<borrow, bytes>> of a[1..i] - b[1..i] - c
SubB(a, b, i, c) == IF i = 0 THEN <<c, <<>>>> ELSE
   LET d == a[i] - b[i] - c
       r == SubB(a, b, i - 1, IF d < 0 THEN 1 ELSE 0)
   IN <<r[1], Append(r[2], IF d < 0 THEN d + 256 ELSE d)>>
Sub(a, b) == SubB(a, b, 8, 0)[2]                                     \* wrapping; exact when b <= a
Dec(a)    == Sub(a, FromNat(1))
SatDec(a) == IF IsZero(a) THEN a ELSE Dec(a)

\* the smallest CBOR head width (0 = immediate, else 1,2,4,8 argument bytes) able to carry v
PreferredWidth(v) == IF IsSmall(v) /\ ToNat(v) < 24 THEN 0
                     ELSE IF FitsBytes(v, 1) THEN 1
                     ELSE IF FitsBytes(v, 2) THEN 2
                     ELSE IF FitsBytes(v, 4) THEN 4 ELSE 8
=============================================================================
