------------------------------- MODULE MC_C14R -------------------------------
EXTENDS BlockingIO, Json
F(n, g, h) == [n |-> n, good |-> g, huge |-> h]
FramesA == << F(2, TRUE, FALSE), F(0, FALSE, FALSE), F(3, TRUE, FALSE), F(1, TRUE, FALSE) >>
FramesB == << F(1, TRUE, FALSE), F(2, FALSE, FALSE), F(3, TRUE, FALSE), F(4, TRUE, FALSE) >>      \* MaxLen = 3: frame 4 is one above
FramesC == << F(3, TRUE, FALSE), F(4, TRUE, TRUE), F(1, TRUE, FALSE) >>                           \* frame 2 claims an enormous length
WNone == <<>>
Init == RInit /\ WInit
Next == RNext /\ UNCHANGED wvars
view == rview
Settled == IF ph' = "len" /\ Len(lenbuf') = 4 THEN
              LET f == lenbuf'[1][1]
                  sync == \A i \in 1..4 : lenbuf'[i] = <<f, 0, i>>
                  n == IF sync THEN Frames[f].n ELSE MaxLen + 1 IN
              IF n > MaxLen THEN Append(out', <<"invalid_len">>)
              ELSE IF n = 0 THEN Append(out', Decoded(<<>>)) ELSE out'
           ELSE IF ph' = "val" /\ Len(buf') >= need' THEN Append(out', Decoded(buf'))
           ELSE out'
Emit == rsched' # rsched =>
   PrintT(<<"CASE", ToJson([fam |-> "bread", name |-> "script",
                            in |-> [frames |-> Frames, cut |-> cut, maxlen |-> MaxLen, sched |-> rsched'],
                            exp |-> [out |-> Settled, rd |-> rd', desync |-> "", allocok |-> TRUE]])>>)
=============================================================================
