----------------------------- MODULE Trace_Typed -----------------------------
(* Trace validation of the built-in impls (C01, C07, typed parts of C02 - C04).  Events:                       *)
(*   rt   a value, the bytes the encoder wrote, the length CborLen computed, the result of decoding them back   *)
(*   alt  the same item re-framed (other head widths, indefinite containers, chunked strings) decoded as the type *)
(*   toklen  a Token, the bytes its Encode impl wrote and the length its CborLen impl computed                    *)
(*   mut  a mutated encoding decoded as the type (totality only)                                               *)
(* A failed conjunct is reported with its name so that each property's check can claim its own.                *)
EXTENDS Builtin, TLC, Json, IOUtils
VARIABLE l
Rec == ndJsonDeserialize(IOEnv.TRACE)
D(e) == TypeTable[e.ty]
(* the encoding of a value of one type decoded as another type (events "cross"): where the other type accepts the item, the value  *)
(* it returns denotes the same data item - for the types whose acceptance is exact.  Not exact by design, and left out: sets and   *)
(* maps (duplicates collapse, order is the collection's), f64 (reads narrower floats), durations (nanoseconds carry), a bare Tag,   *)
(* the range types, which are read like derived structs (fields by position, surplus elements ignored), and Bound, whose          *)
(* Unbounded is read like a derived unit variant (the content is skipped whatever it is).                                           *)
RECURSIVE Exact(_)
Exact(d) == CASE d.d \in {"int", "bool", "char", "f32", "text", "bytes", "cstr", "unit"} -> TRUE
              [] d.d \in {"f64", "map", "tag"} -> FALSE
              [] d.d \in {"opt", "tagged"} -> Exact(d.e)
              [] d.d = "var"   -> ~d.lax /\ \A i \in 1..Len(d.alts) : Exact(d.alts[i])
              [] d.d = "seq"   -> ~d.set /\ ~d.unordered /\ Exact(d.e)
              [] d.d = "tuple" -> ~d.dur /\ ~d.lax /\ \A i \in 1..Len(d.es) : Exact(d.es[i])
DecIs(o, v, n) == o.p = "run" /\ o.dec_ok /\ o.dec = v /\ o.pos = n
Why(e) ==
   CASE e.name = "rt" ->
          IF ~IsEncodingOf(D(e), e.val, e.bytes) THEN "enc"                         \* C03: the reference encoding of the value
          ELSE IF e.len # Len(e.bytes) THEN "len"                                    \* C07: CborLen is exact
          ELSE IF ~DecIs(e.obs, e.val, Len(e.bytes)) THEN "rt"                       \* C01: decode(encode(v)) = v, consuming exactly the bytes
          ELSE IF e.obs.len # Len(e.bytes) THEN "len" ELSE "ok"
     [] e.name = "alt" ->
          IF ~(WellFormedItem(e.alt) /\ Tree(e.alt) = Tree(e.bytes)) THEN "HARNESS"  \* the re-framing itself is wrong
          ELSE IF ~HasIndef(e.alt, 0) THEN (IF DecIs(e.obs, e.val, Len(e.alt)) THEN "ok" ELSE "alt")       \* C04: any head width
          ELSE IF e.obs.p = "run" /\ (~e.obs.dec_ok \/ DecIs(e.obs, e.val, Len(e.alt))) THEN "ok" ELSE "alt"   \* never a different value
     [] e.name = "cross" ->                                                         \* C04: a type that does not match the shape fails, never another value
          IF e.obs.p # "run" THEN "cross"
          ELSE IF ~e.obs.dec_ok \/ ~Exact(D(e)) THEN "ok"
          ELSE IF e.obs.pos = Len(e.bytes) /\ Tree(EncV(D(e), e.obs.dec)) = Tree(e.bytes) THEN "ok" ELSE "cross"
     [] e.name = "prefix" ->                                                        \* C04: a strict prefix of a value's encoding fails with the end-of-input class
          IF e.obs.p = "run" /\ ~e.obs.dec_ok /\ e.obs.cls = "eoi" /\ e.cut < Len(e.bytes) THEN "ok" ELSE "prefix"
     [] e.name = "toklen" -> IF e.len = Len(e.bytes) THEN "ok" ELSE "len"             \* C07 for Token values
     [] e.name = "mut" ->
          IF e.obs.p = "run" /\ e.obs.pos <= Len(e.buf) /\ e.obs.alloc <= 256 * Len(e.buf) + 16384 THEN "ok" ELSE "mut"   \* C02: totality
Init == l = 1
Next == /\ l <= Len(Rec) /\ l' = l + 1
        /\ LET w == Why(Rec[l]) IN IF w = "ok" THEN TRUE ELSE PrintT(<<"MISMATCH", l, ToJson([why |-> w, ev |-> Rec[l]])>>)
AllConsumed == TLCGet("stats").diameter - 1 = Len(Rec) \/ PrintT(<<"NOTCONSUMED", TLCGet("stats").diameter - 1, Len(Rec)>>)
=============================================================================
