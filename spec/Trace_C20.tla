----------------------------- MODULE Trace_C20 -----------------------------
(* Trace validation for C20.  One event per (operation, input) of the corpus, carrying the projected observation of every  *)
(* configuration in which the operation exists (bin/check merges the six transcripts line by line; `eq` numbers the        *)
(* distinct full observations).  Every pair of configurations must satisfy Cfg!SameOrDocumented.                          *)
EXTENDS Cfg, TLC, Json, IOUtils
VARIABLE l
Rec == ndJsonDeserialize(IOEnv.TRACE)
BadPairs(e) == { <<i, j>> \in (1..Len(e.by)) \X (1..Len(e.by)) : i < j /\ ~SameOrDocumented(e.fam, e.name, e.buf, e.pos0, e.by[i], e.by[j]) }
\* an observation is well-shaped: a result or an error, never a panic, and the decoder position stays within the input
Shaped(e) == \A i \in 1..Len(e.by) : e.by[i].p \in {"ok", "err", "run"} /\ (e.fam = "encb" \/ e.by[i].pos <= Len(e.buf))
Init == l = 1
Next == /\ l <= Len(Rec) /\ l' = l + 1
        /\ LET e == Rec[l] IN
           IF ~Shaped(e) THEN PrintT(<<"MISMATCH", l, ToJson([why |-> "shape", ev |-> [i |-> e.i, fam |-> e.fam, name |-> e.name, a |-> "", b |-> ""]])>>)
           ELSE IF BadPairs(e) = {} THEN TRUE
           ELSE LET pr == CHOOSE pr \in BadPairs(e) : TRUE IN
                PrintT(<<"MISMATCH", l, ToJson([why |-> "differs", ev |-> [i |-> e.i, fam |-> e.fam, name |-> e.name, a |-> e.by[pr[1]].cfg, b |-> e.by[pr[2]].cfg]])>>)
AllConsumed == TLCGet("stats").diameter - 1 = Len(Rec) \/ PrintT(<<"NOTCONSUMED", TLCGet("stats").diameter - 1, Len(Rec)>>)
=============================================================================
