INIT Init
NEXT Next
CONSTANT Frames <- FNone
CONSTANT MaxLen = 0
CONSTANT MaxIntr = 2
CONSTANT MaxReads = 0
CONSTANT WVals <- ValsA
CONSTANT WMaxLen = 2
CONSTANT MaxFaults = 1
VIEW view
ACTION_CONSTRAINT Emit
INVARIANT WholeFrames OkIsLength NoOversizedFrame
CHECK_DEADLOCK FALSE
