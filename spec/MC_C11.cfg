INIT Init
NEXT Next
CONSTANT MaxTok = 3
CONSTANT MaxToks = 2
CONSTANT Rich = FALSE
ACTION_CONSTRAINT Emit
INVARIANT CountBound PinnedComplete ReencodeSame TokRoundTrip
CHECK_DEADLOCK FALSE
