---------------------------- MODULE Trace_Derive ----------------------------
(* Trace validation of the derive macros on seeded random schemas (gen/randschema.py) from a wider grammar than MC_Derive  *)
(* enumerates.  Events recorded from generated types with the real #[derive(Encode, Decode, CborLen)]:                     *)
(*   rt      schema, value, the bytes the derived encoder wrote, the length the derived CborLen computed, and the result  *)
(*           of decoding those bytes with the same type                                                                     *)
(*   compat  writer schema, reader schema (related by documented compatible changes), a writer value, the bytes the        *)
(*           writer type wrote and the result of decoding them with the reader type                                         *)
(* Values are compared along the schema (EqS): TLC cannot compare a record with a tuple, which is what the `sub` component *)
(* of an absent and of a present nested value are.                                                                          *)
EXTENDS Derive, TLC, Json, IOUtils
VARIABLE l
Rec == ndJsonDeserialize(IOEnv.TRACE)
RECURSIVE EqS(_, _, _), EqFields(_, _, _, _)
EqF(f, x, y) == x.some = y.some /\ (x.some => (IF IsNestedTy(f.ty) THEN EqS(Nested(f.ty), x.sub, y.sub) ELSE x.n = y.n /\ x.b = y.b))
EqFields(fs, xs, ys, i) == IF i > Len(fs) THEN TRUE ELSE (fs[i].skip \/ EqF(fs[i], xs[i], ys[i])) /\ EqFields(fs, xs, ys, i + 1)
EqS(S, a, b) == IF S.kind = "struct" THEN Len(a) = Len(S.fields) /\ Len(b) = Len(S.fields) /\ EqFields(S.fields, a, b, 1)
                ELSE a.var = b.var /\ LET fs == S.variants[a.var].fields IN Len(a.fv) = Len(fs) /\ Len(b.fv) = Len(fs) /\ EqFields(fs, a.fv, b.fv, 1)
\* ... and every field of a borrowing type points into the input (o.bor)
DecIs(S, o, v, n) == o.ok /\ EqS(S, o.val, v) /\ o.pos = n /\ o.bor
Why(e) ==
   CASE e.name = "rt" ->
          LET p == Project(e.schema, e.schema, e.val) IN
          IF e.bytes # DocEnc(e.schema, e.val) THEN "bytes"                                \* C08: the documented format
          ELSE IF e.len # Len(e.bytes) THEN "len"                                           \* C07
          ELSE IF ~DecIs(e.schema, e.dec, p[2], Len(e.bytes)) THEN "dec:same" ELSE "ok"               \* C09: round trip, exact consumption
     [] e.name = "compat" ->
          LET p == Project(e.wschema, e.schema, e.val) IN
          IF p[1] = "ok" THEN (IF DecIs(e.schema, e.dec, p[2], Len(e.bytes)) THEN "ok" ELSE "dec:rcompat")     \* C10
          ELSE IF e.dec.ok THEN "dec:rcompat" ELSE "ok"                                     \* a missing mandatory field must fail
Init == l = 1
Next == /\ l <= Len(Rec) /\ l' = l + 1
        /\ LET w == Why(Rec[l]) IN IF w = "ok" THEN TRUE ELSE PrintT(<<"MISMATCH", l, ToJson([why |-> w, ev |-> Rec[l]])>>)
AllConsumed == TLCGet("stats").diameter - 1 = Len(Rec) \/ PrintT(<<"NOTCONSUMED", TLCGet("stats").diameter - 1, Len(Rec)>>)
=============================================================================
