-------------------------------- MODULE Token --------------------------------
(***************************************************************************)
(* Tokens (property C11).  A token is written as the Encoder call that     *)
(* produces it (module Encoder), so `encode a token sequence` is CallsBytes *)
(* and needs no second definition:                                         *)
(*   [m |-> "int", neg, mag]   [m |-> "bool", b]   [m |-> "null"]  ...      *)
(*   [m |-> "bytes" | "str", b]   [m |-> "array" | "map" | "tag", n]        *)
(*   [m |-> "simple", i]   [m |-> "f16" | "f32" | "f64", bits]              *)
(*   [m |-> "end"] (Break)   [m |-> "begin_bytes" | "begin_str" | "begin_array" | "begin_map"] *)
(* An f16 token carries the single-precision value of the half (as the     *)
(* Rust type does); a signalling-NaN half is [m |-> "f16nan"] (outside the *)
(* identities, as in the property).                                        *)
(***************************************************************************)
EXTENDS Encoder

TkInt(neg, mag) == [m |-> "int", neg |-> neg, mag |-> mag]
\* [st |-> "ok", tok, next]  |  [st |-> "end"] (end of input or an end-of-input error: the iterator stops silently)
\* |  [st |-> "err"] (a decoding error: yielded once, then the iterator is drained)  |  [st |-> "free"] (ill-formed head: not pinned)
TOk(t, nx) == [st |-> "ok", tok |-> t, next |-> nx]
TokAt(buf, p) ==
   IF p >= Len(buf) THEN [st |-> "end"] ELSE
   LET h == HeadAt(buf, p) IN
   IF h.st = "eoi" THEN [st |-> "end"]
   ELSE IF h.st = "bad" THEN [st |-> "err"]
   ELSE CASE h.major \in {0, 1} -> TOk(TkInt(h.major = 1, h.arg), p + h.hl)
          [] h.major \in {2, 3} ->
               IF h.indef THEN TOk([m |-> IF h.major = 2 THEN "begin_bytes" ELSE "begin_str"], p + 1)
               ELSE IF ~IsSmall(h.arg) \/ ToNat(h.arg) > Len(buf) - p - h.hl THEN [st |-> "end"]
               ELSE LET b == SubSeq(buf, p + h.hl + 1, p + h.hl + ToNat(h.arg)) IN
                    IF h.major = 3 /\ ~ValidUtf8(b) THEN [st |-> "err"]
                    ELSE TOk([m |-> IF h.major = 2 THEN "bytes" ELSE "str", b |-> b], p + h.hl + ToNat(h.arg))
          [] h.major = 4 -> IF h.indef THEN TOk([m |-> "begin_array"], p + 1) ELSE TOk([m |-> "array", n |-> h.arg], p + h.hl)
          [] h.major = 5 -> IF h.indef THEN TOk([m |-> "begin_map"], p + 1) ELSE TOk([m |-> "map", n |-> h.arg], p + h.hl)
          [] h.major = 6 -> TOk([m |-> "tag", n |-> h.arg], p + h.hl)
          [] h.major = 7 ->
               CASE h.info < 20 -> TOk([m |-> "simple", i |-> h.info], p + 1)
                 [] h.info \in {20, 21} -> TOk([m |-> "bool", b |-> h.info = 21], p + 1)
                 [] h.info = 22 -> TOk([m |-> "null"], p + 1)
                 [] h.info = 23 -> TOk([m |-> "undefined"], p + 1)
                 [] h.info = 24 -> IF ToNat(h.arg) < 32 THEN [st |-> "free"] ELSE TOk([m |-> "simple", i |-> ToNat(h.arg)], p + 2)
                 [] h.info = 25 -> LET hf == F16Of(Low(h.arg, 2)) IN
                                   \* a quiet NaN keeps sign and payload; a signalling NaN is only required to stay a NaN
                                   TOk(IF IsNaN16(hf) /\ hf[3] < 512 THEN [m |-> "f16nan"]
                                       ELSE [m |-> "f16", bits |-> F32Bytes(F16ToF32(hf))], p + 3)
                 [] h.info = 26 -> TOk([m |-> "f32", bits |-> Low(h.arg, 4)], p + 5)
                 [] h.info = 27 -> TOk([m |-> "f64", bits |-> h.arg], p + 9)
                 [] h.info = 31 -> TOk([m |-> "end"], p + 1)
\* the whole stream: [toks, fin] with fin in {"end", "err", "free"}
RECURSIVE TokFrom(_, _, _)
TokFrom(buf, p, acc) == LET t == TokAt(buf, p) IN
   IF t.st = "ok" THEN TokFrom(buf, t.next, Append(acc, t.tok)) ELSE [toks |-> acc, fin |-> t.st]
TokSeq(buf) == TokFrom(buf, 0, <<>>)

\* bytes of a token: those of the Encoder call of the same shape
TokBytes(t) == CASE t.m = "f16" -> LET x == F32Of(t.bits)  r == F32ToF16(x) IN
                                   \* narrowing a NaN keeps the sign and the leading payload bits and is quiet
                                   IF r[3] = -1 THEN <<249>> \o F16Bytes(<<x[1], 31, IF x[3] \div 8192 >= 512 THEN x[3] \div 8192 ELSE x[3] \div 8192 + 512>>)
                                   ELSE <<249>> \o F16Bytes(r)
                 [] t.m = "f16nan" -> <<249, 126, 0>>                  \* representative
                 [] OTHER -> CallBytes(t)
RECURSIVE ToksBytes(_)
ToksBytes(ts) == IF ts = <<>> THEN <<>> ELSE TokBytes(Head(ts)) \o ToksBytes(Tail(ts))
\* data-model equality of tokens: simple(20..23) are false, true, null, undefined
Norm(t) == IF t.m = "simple" /\ t.i \in {20, 21} THEN [m |-> "bool", b |-> t.i = 21]
           ELSE IF t.m = "simple" /\ t.i = 22 THEN [m |-> "null"]
           ELSE IF t.m = "simple" /\ t.i = 23 THEN [m |-> "undefined"] ELSE t
NormSeq(ts) == [i \in 1..Len(ts) |-> Norm(ts[i])]
\* tokens that can be encoded at all (a well-formed head exists)
Encodable(t) == ~(t.m = "simple" /\ t.i \in 24..31)
\* text validity of a whole sequence of items
RECURSIVE SeqTextOK(_, _)
SeqTextOK(buf, p) == IF p >= Len(buf) THEN TRUE ELSE LET r == Scan(buf, p, FALSE) IN r.e >= 0 /\ r.t /\ SeqTextOK(buf, r.e)
\* the input is a sequence of well-formed items with valid text: its token stream and re-encoding are pinned
NoSNaN(ts) == \A i \in 1..Len(ts) : ts[i].m # "f16nan"
Pinned(buf) == WellFormedSeq(buf) /\ SeqTextOK(buf, 0) /\ NoSNaN(TokSeq(buf).toks)
=============================================================================
