------------------------------- MODULE MC_C19 -------------------------------
(* Bounded model of C19: every byte string made of up to MaxTok token groups from the alphabet; the control-stack  *)
(* machine is run on each and checked against the property layer (exact notation on well-formed items, size and   *)
(* work bounds on everything).  Each input is emitted with the specification's expectation for replay.            *)
EXTENDS DisplayM, TLC, Json
CONSTANTS MaxTok, Rich
VARIABLE ntok
vars == <<buf, ip, stk, outp, dst, steps, ntok>>
Core == { <<1>>, <<193>>, <<128>>, <<129>>, <<130>>, <<161>>, <<159>>, <<191>>, <<255>>, <<95>>, <<127>>, <<65, 7>>, <<97, 97>>,
          <<153, 3, 232>> }                         \* 99 03 e8 = array(1000)
More == { <<57, 1, 0>>, <<246>>, <<247>>, <<244>>, <<248, 255>>, <<224>>, <<249, 60, 0>>, <<27, 255, 255, 255, 255, 255, 255, 255, 255>>,
          <<59, 255, 255, 255, 255, 255, 255, 255, 255>>, <<64>>, <<96>>, <<160>>, <<185, 3, 232>>, <<28>>, <<97, 255>>, <<216, 32>> }
Toks == IF Rich THEN Core \cup More ELSE Core
Init == buf = <<>> /\ ip = 0 /\ stk = <<>> /\ outp = <<>> /\ dst = "build" /\ steps = 0 /\ ntok = 0
Build == /\ dst = "build" /\ UNCHANGED <<ip, stk, outp, steps>>
         /\ \/ ntok < MaxTok /\ (\E t \in Toks : buf' = buf \o t) /\ ntok' = ntok + 1 /\ dst' = "build"
            \/ buf' = buf /\ ntok' = ntok /\ dst' = "run"
Run == DStep /\ UNCHANGED ntok
Next == Build \/ Run
Expectation == [renderable |-> Renderable(buf), diag |-> IF Renderable(buf) THEN Diag(buf) ELSE <<>>, bound |-> OutBound(Len(buf))]
Emit == (dst = "build" /\ dst' = "run") =>
   PrintT(<<"CASE", ToJson([fam |-> "display", name |-> "fmt", in |-> [buf |-> buf], exp |-> Expectation])>>)

\* the machine renders every well-formed item exactly as documented
Exact == (DDone /\ Renderable(buf)) => outp = Diag(buf)
\* output and work are bounded by a constant multiple of the input length
ErrLen == 160
RECURSIVE MLen(_, _)
MLen(o, i) == IF i > Len(o) THEN 0 ELSE IF o[i] = -1 THEN 32 + MLen(o, i + 2 + o[i + 1]) ELSE IF o[i] = -2 THEN ErrLen + MLen(o, i + 1) ELSE 1 + MLen(o, i + 1)
OutputBound == dst # "build" => MLen(outp, 1) <= OutBound(Len(buf))
WorkBound   == dst # "build" => steps <= 16 * Len(buf) + 16
StackBound  == dst # "build" => Len(stk) <= 5 * Len(buf) + 5
=============================================================================
