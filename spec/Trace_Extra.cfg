INIT Init
NEXT Next
POSTCONDITION AllConsumed
CHECK_DEADLOCK FALSE
