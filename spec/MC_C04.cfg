INIT Init
NEXT Next
CONSTANT MaxTok = 2
CONSTANT Rich = FALSE
CONSTANT HalfOn = TRUE
ACTION_CONSTRAINT Emit
INVARIANT TreeAgreement CrossShape PrefixNeverOK PrefixEOI
CHECK_DEADLOCK FALSE
