-------------------------------- MODULE Half --------------------------------
(***************************************************************************)
(* IEEE 754 binary16 / binary32 / binary64 on bit fields <<s, e, m>>,      *)
(* written from the standard (property C12): exact widening, narrowing     *)
(* with round-to-nearest-even, overflow to infinity, NaN to NaN.           *)
(* Bit patterns cross the boundary as big-endian byte tuples.              *)
(***************************************************************************)
EXTENDS Integers, Sequences

P2(k) == 2^k
BitLen24(m) == IF m = 0 THEN 0 ELSE CHOOSE k \in 1..24 : P2(k - 1) <= m /\ m < P2(k)

\* ---- fields <-> bytes --------------------------------------------------------
F16Of(b) == <<b[1] \div 128, (b[1] % 128) \div 4, (b[1] % 4) * 256 + b[2]>>                      \* 1, 5, 10 bits
F32Of(b) == <<b[1] \div 128, (b[1] % 128) * 2 + b[2] \div 128, (b[2] % 128) * 65536 + b[3] * 256 + b[4]>>   \* 1, 8, 23 bits
F16Bytes(h) == <<h[1] * 128 + h[2] * 4 + h[3] \div 256, h[3] % 256>>
F32Bytes(x) == <<x[1] * 128 + x[2] \div 2, (x[2] % 2) * 128 + x[3] \div 65536, (x[3] \div 256) % 256, x[3] % 256>>
\* binary64 from a binary32-aligned significand: exponent e11 and a 23-bit mantissa m23 (the low 29 bits are zero)
F64BytesFrom23(s, e11, m23) ==
   <<s * 128 + e11 \div 16, (e11 % 16) * 16 + m23 \div P2(19), (m23 \div P2(11)) % 256, (m23 \div 8) % 256, (m23 % 8) * 32, 0, 0, 0>>
IsNaN16(h) == h[2] = 31 /\ h[3] # 0
IsNaN32(x) == x[2] = 255 /\ x[3] # 0
IsNaN16B(b) == IsNaN16(F16Of(b))
IsNaN32B(b) == IsNaN32(F32Of(b))
IsNaN64B(b) == ((b[1] % 128) * 16 + b[2] \div 16) = 2047 /\ ~((b[2] % 16) = 0 /\ b[3] = 0 /\ b[4] = 0 /\ b[5] = 0 /\ b[6] = 0 /\ b[7] = 0 /\ b[8] = 0)

\* ---- widening (exact) ---------------------------------------------------------
\* NaN: the result is some NaN (the payload and quiet bit are not pinned by the property)
F16ToF32(h) == LET s == h[1]  e == h[2]  m == h[3] IN
   IF e = 31 THEN <<s, 255, IF m = 0 THEN 0 ELSE m * P2(13)>>                      \* infinity; NaN (representative)
   ELSE IF e = 0 /\ m = 0 THEN <<s, 0, 0>>
   ELSE IF e = 0 THEN LET k == BitLen24(m) IN <<s, 102 + k, (m - P2(k - 1)) * P2(24 - k)>>   \* subnormal half -> normal single
   ELSE <<s, e + 112, m * P2(13)>>
\* binary32 fields -> binary64 bytes
F32ToF64Bytes(x) == LET s == x[1]  e == x[2]  m == x[3] IN
   IF e = 255 THEN F64BytesFrom23(s, 2047, m)
   ELSE IF e = 0 /\ m = 0 THEN F64BytesFrom23(s, 0, 0)
   ELSE IF e = 0 THEN LET k == BitLen24(m) IN F64BytesFrom23(s, 873 + k, (m - P2(k - 1)) * P2(24 - k))   \* subnormal single -> normal double
   ELSE F64BytesFrom23(s, e + 896, m)

\* ---- narrowing binary32 -> binary16: round to nearest, ties to even ---------------
\* result <<s, e, m>>, or <<s, 31, -1>> meaning "some NaN"
Bits16(s, b) == <<s, b \div 1024, b % 1024>>
F32ToF16(x) == LET s == x[1]  e == x[2]  m == x[3] IN
   IF e = 255 THEN (IF m = 0 THEN <<s, 31, 0>> ELSE <<s, 31, -1>>)
   ELSE IF e = 0 THEN <<s, 0, 0>>                       \* far below half the least half subnormal
   ELSE LET ex == e - 127 IN
     IF ex > 15 THEN <<s, 31, 0>>
     ELSE LET full == P2(23) + m
              sh == IF ex >= -14 THEN 13 ELSE 13 + (-14 - ex) IN
          IF sh >= 25 THEN <<s, 0, 0>>
          ELSE LET q == full \div P2(sh)  rem == full % P2(sh)  hf == P2(sh - 1)
                   up == rem > hf \/ (rem = hf /\ q % 2 = 1)                 \* ties to even
                   q2 == IF up THEN q + 1 ELSE q
                   bits == IF ex >= -14 THEN (ex + 14) * 1024 + q2 ELSE q2 IN  \* a carry runs into the exponent
               IF bits >= 31744 THEN <<s, 31, 0>> ELSE Bits16(s, bits)
=============================================================================
