------------------------------ MODULE CborData ------------------------------
(***************************************************************************)
(* The RFC 8949 data model: item trees, the decoding of any well-formed    *)
(* encoding into a tree, and the preferred definite-length serialisation   *)
(* of a tree (the independent reference encoder of C03).                   *)
(*   [t |-> "int", neg, mag]      [t |-> "bytes", b]     [t |-> "text", b] *)
(*   [t |-> "arr", xs]            [t |-> "map", xs]  (k1, v1, k2, v2, ...)  *)
(*   [t |-> "tag", n, x]          [t |-> "simple", n]    [t |-> "float", w, bits] *)
(***************************************************************************)
EXTENDS Floats

TInt(neg, mag)  == [t |-> "int", neg |-> neg, mag |-> mag]
TBytes(b)       == [t |-> "bytes", b |-> b]
TText(b)        == [t |-> "text", b |-> b]
TArr(xs)        == [t |-> "arr", xs |-> xs]
TMap(xs)        == [t |-> "map", xs |-> xs]
TTag(n, x)      == [t |-> "tag", n |-> n, x |-> x]
TSimple(n)      == [t |-> "simple", n |-> n]
TFloat(w, bits) == [t |-> "float", w |-> w, bits |-> bits]
TNull  == TSimple(22)
TFalse == TSimple(20)
TTrue  == TSimple(21)
TNat(n) == TInt(FALSE, FromNat(n))

\* ---- decoding a well-formed item into its tree: [e |-> end offset, v |-> tree] ----
\* (only evaluated where ItemEnd(buf, p) >= 0)
RECURSIVE TreeAt(_, _), TreeItems(_, _, _, _), TreeIndef(_, _, _), TreeChunks(_, _, _)
TreeItems(buf, p, k, acc) == IF k = 0 THEN [e |-> p, v |-> acc] ELSE
   LET r == TreeAt(buf, p) IN TreeItems(buf, r.e, k - 1, Append(acc, r.v))
TreeIndef(buf, p, acc) == IF IsBreak(HeadAt(buf, p)) THEN [e |-> p + 1, v |-> acc] ELSE
   LET r == TreeAt(buf, p) IN TreeIndef(buf, r.e, Append(acc, r.v))
TreeChunks(buf, p, acc) == LET h == HeadAt(buf, p) IN
   IF IsBreak(h) THEN [e |-> p + 1, v |-> acc]
   ELSE TreeChunks(buf, p + h.hl + ToNat(h.arg), acc \o SubSeq(buf, p + h.hl + 1, p + h.hl + ToNat(h.arg)))
TreeAt(buf, p) ==
   LET h == HeadAt(buf, p) IN
   CASE h.major \in {0, 1} -> [e |-> p + h.hl, v |-> TInt(h.major = 1, h.arg)]
     [] h.major \in {2, 3} ->
          LET r == IF h.indef THEN TreeChunks(buf, p + 1, <<>>)
                   ELSE [e |-> p + h.hl + ToNat(h.arg), v |-> SubSeq(buf, p + h.hl + 1, p + h.hl + ToNat(h.arg))] IN
          [e |-> r.e, v |-> IF h.major = 2 THEN TBytes(r.v) ELSE TText(r.v)]
     [] h.major = 4 -> LET r == IF h.indef THEN TreeIndef(buf, p + 1, <<>>) ELSE TreeItems(buf, p + h.hl, Cap(h.arg), <<>>) IN
                       [e |-> r.e, v |-> TArr(r.v)]
     [] h.major = 5 -> LET r == IF h.indef THEN TreeIndef(buf, p + 1, <<>>) ELSE TreeItems(buf, p + h.hl, 2 * Cap(h.arg), <<>>) IN
                       [e |-> r.e, v |-> TMap(r.v)]
     [] h.major = 6 -> LET r == TreeAt(buf, p + h.hl) IN [e |-> r.e, v |-> TTag(h.arg, r.v)]
     [] h.major = 7 ->
          CASE h.info < 24 -> [e |-> p + 1, v |-> TSimple(h.info)]
            [] h.info = 24 -> [e |-> p + 2, v |-> TSimple(ToNat(h.arg))]
            [] h.info = 25 -> [e |-> p + 3, v |-> TFloat(2, Low(h.arg, 2))]
            [] h.info = 26 -> [e |-> p + 5, v |-> TFloat(4, Low(h.arg, 4))]
            [] h.info = 27 -> [e |-> p + 9, v |-> TFloat(8, h.arg)]
Tree(buf) == TreeAt(buf, 0).v
\* two encodings denote the same data item
DataEq(b1, b2) == WellFormedItem(b1) /\ WellFormedItem(b2) /\ Tree(b1) = Tree(b2)

\* ---- preferred (shortest-head, definite-length) serialisation of a tree --------------
RECURSIVE Enc(_), EncSeq(_)
EncSeq(xs) == IF xs = <<>> THEN <<>> ELSE Enc(Head(xs)) \o EncSeq(Tail(xs))
Enc(x) ==
   CASE x.t = "int"    -> PreferredHead(IF x.neg THEN 1 ELSE 0, x.mag)
     [] x.t = "bytes"  -> PreferredHead(2, FromNat(Len(x.b))) \o x.b
     [] x.t = "text"   -> PreferredHead(3, FromNat(Len(x.b))) \o x.b
     [] x.t = "arr"    -> PreferredHead(4, FromNat(Len(x.xs))) \o EncSeq(x.xs)
     [] x.t = "map"    -> PreferredHead(5, FromNat(Len(x.xs) \div 2)) \o EncSeq(x.xs)
     [] x.t = "tag"    -> PreferredHead(6, x.n) \o Enc(x.x)
     [] x.t = "simple" -> IF x.n < 24 THEN <<224 + x.n>> ELSE <<248, x.n>>
     [] x.t = "float"  -> <<(CASE x.w = 2 -> 249 [] x.w = 4 -> 250 [] x.w = 8 -> 251)>> \o x.bits
\* the preferred serialisation of whatever a well-formed encoding denotes
Preferred(buf) == Enc(Tree(buf))
\* buf uses only shortest heads and definite lengths
IsPreferred(buf) == WellFormedItem(buf) /\ Preferred(buf) = buf
=============================================================================
