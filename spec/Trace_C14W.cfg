INIT TInit
NEXT TNext
CONSTANT Frames <- None
CONSTANT MaxLen = 0
CONSTANT MaxIntr <- Big
CONSTANT MaxReads = 0
CONSTANT WVals <- TrVals
CONSTANT WMaxLen <- TrMaxLen
CONSTANT MaxFaults <- Big
CONSTRAINT Progress
INVARIANT WholeFrames OkIsLength NoOversizedFrame
POSTCONDITION Accepted
CHECK_DEADLOCK FALSE
