INIT Init
NEXT Next
ACTION_CONSTRAINT Emit
INVARIANT RefWellFormed RefPreferred SameItem
CHECK_DEADLOCK FALSE
