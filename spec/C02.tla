-------------------------------- MODULE C02 --------------------------------
(***************************************************************************)
(* Property C02: decoding untrusted bytes is total.                        *)
(* The Decoder as an object (buf, pos) whose every public call is a total  *)
(* action: the set of acceptable outcomes (module C04 / SkipProp) is never *)
(* empty, a successful call moves the position as specified, a failed call *)
(* leaves it anywhere within the bound, set_position may put it anywhere,  *)
(* a probe never moves the parent.                                         *)
(***************************************************************************)
EXTENDS C04

\* position bound of one decoding call started at p0 on an input of length n
PosBound(p0, p1, n) == p1 <= (IF p0 > n THEN p0 ELSE n)
\* allocation bound of one call (bytes requested), whatever the input declares
AllocBound(alloc, n) == alloc <= 256 * n + 16384

\* decode::info::Size
VSize(kind, n) == [k |-> "size", kind |-> kind, n |-> n]
SizeHead(fst) == LET inf == Info(fst)  mj == Major(fst) IN
   IF inf < 24 THEN {Ok([k |-> "nat", n |-> 1], 0)}
   ELSE IF inf <= 27 THEN {Ok([k |-> "nat", n |-> 1 + ArgBytes(inf)], 0)}
   ELSE IF inf = 31 /\ mj \in {2, 3, 4, 5, 7} THEN {Ok([k |-> "nat", n |-> 1], 0)}
   ELSE {Err("*")}
SizeTail(head) ==
   IF head = <<>> THEN {Err("eoi")} ELSE
   LET h == HeadAt(head, 0)  mj == Major(head[1]) IN
   IF mj \in {0, 1, 6, 7} THEN {Ok(VSize("head", Zero64), 0)}
   ELSE IF Info(head[1]) = 31 THEN {Ok(VSize("indef", Zero64), 0)}
   ELSE IF h.st = "eoi" THEN {Err("eoi")}
   ELSE IF h.st = "bad" THEN {Err("*")}
   ELSE {Ok(VSize(IF mj \in {2, 3} THEN "bytes" ELSE "items", h.arg), 0)}

\* every entry point of the Decoder object
EntryExpect(name, buf, p) ==
   CASE name = "skip" -> SkipExpect(TRUE, buf, p)
     [] name = "item" -> SkipExpect(TRUE, buf, p)
     [] OTHER -> AccExpect(name, TRUE, buf, p)
Entries == AccNames \cup {"skip"}
=============================================================================
