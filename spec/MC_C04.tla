------------------------------- MODULE MC_C04 -------------------------------
(* Byte strings of up to MaxTok groups from an alphabet of heads at every width, strings (definite, chunked, multi-byte    *)
(* and invalid UTF-8), floats and simple values, then every prefix; every accessor's expected outcome is emitted.          *)
EXTENDS C04, TLC, Json
CONSTANTS MaxTok, Rich, HalfOn          \* HalfOn: the cases are meant for a build with (TRUE) / without (FALSE) the `half` feature
VARIABLES ph, buf, ntok, cut
vars == <<ph, buf, ntok, cut>>
Core == { <<1>>, <<24, 200>>, <<25, 1, 0>>, <<26, 0, 1, 0, 0>>, <<27, 0, 0, 0, 1, 0, 0, 0, 0>>, <<32>>, <<56, 127>>, <<56, 128>>, <<57, 128, 0>>,
          <<64>>, <<66, 1, 2>>, <<88, 1, 9>>, <<95, 65, 5, 64, 255>>, <<95, 255>>, <<96>>, <<98, 195, 169>>, <<97, 255>>, <<98, 195, 40>>, <<127, 97, 97, 96, 255>>,
          <<127, 97, 195, 97, 169, 255>>, <<128>>, <<130>>, <<152, 1>>, <<159>>, <<160>>, <<161>>, <<191>>, <<193>>, <<216, 24>>, <<255>>,
          <<244>>, <<245>>, <<246>>, <<247>>, <<224>>, <<243>>, <<248, 32>>, <<248, 255>>, <<249, 60, 0>>, <<250, 63, 128, 0, 0>>, <<251, 63, 240, 0, 0, 0, 0, 0, 0>> }
More == { <<26, 0, 0, 216, 0>>, <<25, 216, 0>>, <<26, 0, 16, 255, 255>>, <<26, 0, 17, 0, 0>>, <<59, 255, 255, 255, 255, 255, 255, 255, 255>>, <<59, 127, 255, 255, 255, 255, 255, 255, 255>>,
          <<28>>, <<31>>, <<92>>, <<127, 65, 0, 255>>, <<95, 97, 97, 255>>, <<99, 226, 130, 172>>, <<100, 240, 159, 152, 128>>, <<99, 237, 160, 128>>,
          <<249, 124, 0>>, <<249, 126, 0>>, <<249, 0, 1>>, <<250, 127, 192, 0, 0>>, <<250, 0, 0, 0, 1>>, <<248, 16>>, <<91, 0, 0, 0, 0, 0, 0, 0, 1, 7>>, <<123, 255, 255, 255, 255, 255, 255, 255, 255>> }
Groups == IF Rich THEN Core \cup More ELSE Core
Init == ph = "build" /\ buf = <<>> /\ ntok = 0 /\ cut = 0
Next == \/ ph = "build" /\ ntok < MaxTok /\ (\E g \in Groups : buf' = buf \o g) /\ ntok' = ntok + 1 /\ UNCHANGED <<ph, cut>>
        \/ ph = "build" /\ buf # <<>> /\ ph' = "cut" /\ cut' \in 0..Len(buf) /\ UNCHANGED <<buf, ntok>>
B == SubSeq(buf, 1, cut)
ProbeSample == {"u8", "int", "str", "bytes_iter", "array", "map_iter", "tag", "datatype", "f32"}
Emit == (ph' = "cut") =>
   LET b == SubSeq(buf, 1, cut') IN
   \A name \in (IF HalfOn THEN AccNames ELSE AccNames \ {"f16"}) :
      /\ PrintT(<<"CASE", ToJson([fam |-> "acc", name |-> name, in |-> [buf |-> b, pos |-> 0], exp |-> AccExpect(name, HalfOn, b, 0)])>>)
      /\ (name \in ProbeSample => PrintT(<<"CASE", ToJson([fam |-> "probe", name |-> name, in |-> [buf |-> b, pos |-> 0], exp |-> ProbeExpect(name, HalfOn, b, 0)])>>))
\* ---- invariants ----
WF == ph = "cut" /\ ItemEnd(B, 0) >= 0
TreeAgreement == WF => \A name \in WholeAcc : AgreesWithTree(name, B)
CrossShape == WF => NoCrossShape(B)
\* a strict prefix of a single well-formed item is never accepted by a whole-item accessor
PrefixNeverOK == (ph = "cut" /\ ItemEnd(B, 0) = Trunc) => \A name \in WholeAcc : \A x \in AccExpect(name, TRUE, B, 0) : x.p # "ok"
\* an accessor that would accept some completion of the prefix must report end of input
PrefixEOI == (ph = "cut" /\ cut < Len(buf) /\ ItemEnd(buf, 0) = Len(buf)) =>
                \A name \in WholeAcc : (\E x \in AccExpect(name, TRUE, buf, 0) : x.p = "ok") => AccExpect(name, TRUE, B, 0) = {Err("eoi")}
=============================================================================
