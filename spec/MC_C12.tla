------------------------------- MODULE MC_C12 -------------------------------
(* All 2^16 half patterns (decode through f16/f32/f64, widening) and a stratified set of single patterns covering  *)
(* every rounding class of the narrowing (sign x exponent x leading mantissa bits x tail in {0, 1, just below half, *)
(* half, just above half, all ones}).  Cases are grown in a Build phase; each completed case is emitted.           *)
EXTENDS Floats, TLC, Json
CONSTANT Tier
VARIABLES ph, a, b, c, d
vars == <<ph, a, b, c, d>>
Tails == {0, 1, 4095, 4096, 4097, 8191}
LeadStep == IF Tier = "quick" THEN 37 ELSE 1            \* quick: every 37th leading-mantissa pattern (plus the ends)
Leads == { n \in 0..1023 : n % LeadStep = 0 \/ n \in {1, 511, 512, 513, 1022, 1023} }
Exps == IF Tier = "quick" THEN {0, 1, 2, 100, 101, 102, 103, 104, 111, 112, 113, 114, 126, 127, 128, 141, 142, 143, 144, 200, 254, 255} ELSE 0..255
Init == ph = "kind" /\ a = 0 /\ b = 0 /\ c = 0 /\ d = 0
\* kind h: half pattern <<a, b>> bytes;   kind n: single <<s = a, e = b, lead = c, tail = d>>
Pick == \/ ph = "kind" /\ ph' \in {"h1", "n1"} /\ UNCHANGED <<a, b, c, d>>
        \/ ph = "h1" /\ a' \in 0..255 /\ ph' = "h2" /\ UNCHANGED <<b, c, d>>
        \/ ph = "h2" /\ b' \in 0..255 /\ ph' = "hdone" /\ UNCHANGED <<a, c, d>>
        \/ ph = "n1" /\ a' \in {0, 1} /\ b' \in Exps /\ ph' = "n2" /\ UNCHANGED <<c, d>>
        \/ ph = "n2" /\ c' \in Leads /\ ph' = "n3" /\ UNCHANGED <<a, b, d>>
        \/ ph = "n3" /\ d' \in Tails /\ ph' = "ndone" /\ UNCHANGED <<a, b, c>>
Next == Pick
HalfBuf == <<249, a, b>>
Single  == <<a, b, c * 8192 + d>>
Case(fam, name, in, exp) == PrintT(<<"CASE", ToJson([fam |-> fam, name |-> name, in |-> in, exp |-> exp])>>)
Emit == /\ (ph' = "hdone") =>
             LET bf == <<249, a, b'>>  in == [buf |-> bf, pos |-> 0] IN
             /\ \A n \in {"f16", "f32", "f64"} : Case("acc", n, in, FloatAcc(n, TRUE, bf, 0))
             /\ Case("acc", "f16", [buf |-> <<250, a, b', 0, 0>>, pos |-> 0], FloatAcc("f16", TRUE, <<250, a, b', 0, 0>>, 0))
        \* the decision table of the narrowing for the full 2^32 sweep: one row per class (sign, exponent, leading 10 mantissa bits, tail class);
        \* tail classes 0: tail = 0, 1: below half a unit, 2: exactly half, 3: above half; 65535 stands for "some NaN"
        /\ (ph' = "ndone" /\ d' \in {0, 1, 4096, 4097}) =>
             LET r == F32ToF16(<<a, b, c * 8192 + d'>>)  tc == CASE d' = 0 -> 0 [] d' = 1 -> 1 [] d' = 4096 -> 2 [] OTHER -> 3 IN
             PrintT(<<"TBL", a, b, c, tc, IF r[3] = -1 THEN 65535 ELSE r[1] * 32768 + r[2] * 1024 + r[3]>>)
        /\ (ph' = "ndone") =>
             LET x == <<a, b, c * 8192 + d'>>  bits == F32Bytes(x)  bf == <<250>> \o bits IN
             /\ Case("encf", "f16", [bits |-> bits], EncFloat("f16", bits))
             /\ Case("encf", "f32", [bits |-> bits], EncFloat("f32", bits))
             /\ Case("acc", "f32", [buf |-> bf, pos |-> 0], FloatAcc("f32", TRUE, bf, 0))
             /\ Case("acc", "f64", [buf |-> bf, pos |-> 0], FloatAcc("f64", TRUE, bf, 0))
\* ---- invariants that do not share the code path of the operators they check -----------------
H == F16Of(<<a, b>>)
\* narrowing is exact on the image of widening
ExactOnImage == (ph = "hdone" /\ ~IsNaN16(H)) => F32ToF16(F16ToF32(H)) = H
NaNStaysNaN  == (ph = "hdone" /\ IsNaN16(H)) => (IsNaN32(F16ToF32(H)) /\ F32ToF16(F16ToF32(H))[3] = -1)
\* field/byte conversions are mutually inverse
BytesRoundTrip == ph = "hdone" => F16Bytes(F16Of(<<a, b>>)) = <<a, b>>
\* the result of narrowing brackets the argument: widen(result) and the argument differ by at most half a unit in the last place
\* (stated on magnitudes of the single-precision bit patterns, which are ordered like the reals for equal sign)
Mag32(x) == x[2] * 8388608 + x[3]
R == F32ToF16(Single)
Bracket == (ph = "ndone" /\ b # 255 /\ R[3] # -1 /\ R[2] # 31) =>
              LET lo == Mag32(F16ToF32(R))
                  up == IF R[2] = 30 /\ R[3] = 1023 THEN 143 * 8388608          \* 65536 as a single: beyond the largest half
                        ELSE Mag32(F16ToF32(Bits16(R[1], R[2] * 1024 + R[3] + 1)))
                  dn == IF R[2] = 0 /\ R[3] = 0 THEN -1 ELSE Mag32(F16ToF32(Bits16(R[1], R[2] * 1024 + R[3] - 1)))
                  me == Mag32(Single) IN
              me = lo \/ (dn < me /\ me < up)
\* rounding is monotone: a larger magnitude never rounds to a smaller half (checked between neighbouring tails)
Monotone == (ph = "ndone" /\ b # 255 /\ d > 0) =>
              LET r1 == F32ToF16(<<a, b, c * 8192 + d - 1>>) IN
              (R[3] # -1 /\ r1[3] # -1) => r1[2] * 1024 + r1[3] <= R[2] * 1024 + R[3]
\* the narrowing is constant on every tail class (so one row per class decides every single of the class)
ClassConstant == (ph = "ndone" /\ d \in {4095, 8191}) => F32ToF16(Single) = F32ToF16(<<a, b, c * 8192 + (IF d = 4095 THEN 1 ELSE 4097)>>)
\* overflow goes to infinity, never to a finite value or NaN
Overflow == (ph = "ndone" /\ b # 255 /\ b - 127 > 15) => R = <<a, 31, 0>>
=============================================================================
