------------------------------ MODULE Trace_C11 ------------------------------
(* Trace validation for C11. *)
EXTENDS Token, TLC, Json, IOUtils
VARIABLE l
Rec == ndJsonDeserialize(IOEnv.TRACE)
BytesOK(e) == LET b == e.in.buf  o == e.obs  ts == TokSeq(b).toks  re == ToksBytes(ts) IN
   /\ o.p = "run"
   /\ o.count <= Len(b)                                               \* at most one token per input byte, then it ends
   /\ o.bcount <= Len(b) /\ o.bsame                                   \* ... whichever way the tokenizer was obtained (owning / borrowing a decoder)
   /\ (WellFormedSeq(b) /\ SeqTextOK(b, 0) /\ NoSNaN(ts)) =>
                   /\ ~o.err /\ o.toks = ts                            \* each token carries the data-model value of its head
                   /\ o.reenc_ok /\ o.reenc = re                       \* re-encoding: preferred heads, same items
                   /\ (re = b => o.reenc = b)                          \* the identity on preferred input
ToksOK(e) == LET ts == e.in.toks  o == e.obs IN
   /\ o.p = "run"
   /\ (\A i \in 1..Len(ts) : Encodable(ts[i])) =>
         /\ o.enc_ok /\ ~o.err /\ o.bytes = ToksBytes(ts)
         /\ NormSeq(o.toks) = NormSeq(ts)                               \* value-equal tokens come back
EventOK(e) == IF e.name = "bytes" THEN BytesOK(e) ELSE ToksOK(e)
\* which half of ToksOK fails: what Token's Encode impl wrote ("tokenc": C03 as well), or what came back from those bytes ("tokrt": C01 as well)
Why(e) == IF e.name = "bytes" THEN "bytes"
          ELSE LET ts == e.in.toks  o == e.obs IN
               LET encok == o.p = "run" /\ o.enc_ok /\ o.bytes = ToksBytes(ts)
                   rtok  == o.p = "run" /\ o.enc_ok /\ ~o.err /\ NormSeq(o.toks) = NormSeq(ts) IN
               IF encok THEN "tokrt" ELSE IF rtok THEN "tokenc" ELSE "tokboth"
Init == l = 1
Next == /\ l <= Len(Rec) /\ l' = l + 1
        /\ IF EventOK(Rec[l]) THEN TRUE ELSE PrintT(<<"MISMATCH", l, ToJson([why |-> Why(Rec[l]), ev |-> Rec[l]])>>)
AllConsumed == TLCGet("stats").diameter - 1 = Len(Rec) \/ PrintT(<<"NOTCONSUMED", TLCGet("stats").diameter - 1, Len(Rec)>>)
=============================================================================
