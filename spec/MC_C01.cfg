INIT Init
NEXT Next
ACTION_CONSTRAINT Emit
INVARIANT RefWellFormed RefIsEncoding
CHECK_DEADLOCK FALSE
