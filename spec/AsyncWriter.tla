---------------------------- MODULE AsyncWriter ----------------------------
(***************************************************************************)
(* minicbor_io::AsyncWriter under an adversarial sink and an impatient     *)
(* caller (property C16).                                                  *)
(*                                                                         *)
(* Values are numbered 1..N; Vals[v] is the payload length of value v, or  *)
(* -1 for a value whose Encode impl fails.  The frame of v is its 4-byte   *)
(* length prefix followed by the payload; frame bytes carry their identity *)
(* <<v, i>>.  The sink answers each inner write with                       *)
(*   Accept(k)   1 <= k <= bytes offered                                   *)
(*   Zero        accepts 0 bytes                                           *)
(*   Pending     the future suspends; the caller resumes or drops it       *)
(*   Fail        a transient I/O error                                     *)
(* Caller actions: StartWrite (next value), StartSync, Resume, Drop.       *)
(*                                                                         *)
(* Compliance (C16's precondition): after a write that did not complete    *)
(* with Ok while the writer was armed (dropped, or failed in the sink),    *)
(* sync must be driven to completion before the next write.  `compliant`   *)
(* is falsified otherwise; the documented discard-on-rewrite is what the   *)
(* model then does, and the property invariants are conditional on it.     *)
(***************************************************************************)
EXTENDS Integers, Sequences, FiniteSets, TLC, SequencesExt

CONSTANTS Vals, MaxLen, MaxPend, MaxErr, MaxSyncs, OnlyCompliant,
          KeepSched   \* TRUE: sched is the whole history (replay scripts); FALSE: only the last event (finite state space for liveness)
NV == Len(Vals)
Frame(v) == [i \in 1..(4 + Vals[v]) |-> <<v, i>>]

VARIABLES tag,        \* "none" | "from"          State::None / State::WriteFrom
          off,        \* offset into the buffer
          buf,        \* the writer's buffer
          sink,       \* bytes the inner AsyncWrite accepted
          fut,        \* "none" | "runW" | "suspW" | "runS" | "suspS"
          nw,         \* values submitted so far
          armed,      \* values whose frame was armed for writing, in order
          out,        \* results returned to the caller
          dirty,      \* an armed frame is waiting and no future is driving it
          compliant, npend, nerr, nsync, sched
vars == <<tag, off, buf, sink, fut, nw, armed, out, dirty, compliant, npend, nerr, nsync, sched>>
view == <<tag, off, buf, sink, fut, nw, armed, out, dirty, compliant, npend, nerr, nsync>>

Init == /\ tag = "none" /\ off = 0 /\ buf = <<>> /\ sink = <<>> /\ fut = "none" /\ nw = 0 /\ armed = <<>>
        /\ out = <<>> /\ dirty = FALSE /\ compliant = TRUE /\ npend = 0 /\ nerr = 0 /\ nsync = 0 /\ sched = <<>>
Log(e) == sched' = IF KeepSched THEN Append(sched, e) ELSE <<e>>
Running == fut \in {"runW", "runS"}
IsW == fut \in {"runW", "suspW"}

\* ---- caller ---------------------------------------------------------------------
StartWrite ==
   /\ fut = "none" /\ nw < NV /\ (OnlyCompliant => ~dirty)
   /\ nw' = nw + 1 /\ compliant' = (compliant /\ ~dirty) /\ Log([a |-> "write", k |-> nw + 1])
   /\ LET v == nw + 1 IN
      IF Vals[v] = -1 THEN             \* encoding fails: the buffer is scribbled, the state is untouched
         /\ out' = Append(out, <<"encode_err">>) /\ buf' = <<>> /\ UNCHANGED <<tag, off, fut, armed, dirty>>
      ELSE IF Vals[v] > MaxLen THEN    \* rejected: the buffer holds the oversized frame, the state is untouched
         /\ out' = Append(out, <<"invalid_len">>) /\ buf' = Frame(v) /\ UNCHANGED <<tag, off, fut, armed, dirty>>
      ELSE /\ buf' = Frame(v) /\ tag' = "from" /\ off' = 0 /\ fut' = "runW"
           /\ armed' = Append(armed, v) /\ dirty' = FALSE /\ UNCHANGED out
   /\ UNCHANGED <<sink, npend, nerr, nsync>>
StartSync == /\ fut = "none" /\ (MaxSyncs < 0 \/ nsync < MaxSyncs) /\ nsync' = (IF MaxSyncs < 0 THEN 0 ELSE nsync + 1) /\ fut' = "runS" /\ Log([a |-> "sync", k |-> 0])
             /\ UNCHANGED <<tag, off, buf, sink, nw, armed, out, dirty, compliant, npend, nerr>>
Resume == /\ fut \in {"suspW", "suspS"} /\ fut' = (IF fut = "suspW" THEN "runW" ELSE "runS") /\ Log([a |-> "resume", k |-> 0])
          /\ UNCHANGED <<tag, off, buf, sink, nw, armed, out, dirty, compliant, npend, nerr, nsync>>
Drop == /\ fut \in {"suspW", "suspS"} /\ fut' = "none" /\ dirty' = (dirty \/ tag = "from") /\ Log([a |-> "drop", k |-> 0])
        /\ UNCHANGED <<tag, off, buf, sink, nw, armed, out, compliant, npend, nerr, nsync>>

\* ---- one iteration of the sync loop ------------------------------------------------
Ret(r, d) == out' = Append(out, r) /\ fut' = "none" /\ dirty' = d
Idle == /\ Running /\ tag = "none" /\ Ret(IF IsW THEN <<"ok", Len(buf) - 4>> ELSE <<"ok_sync">>, dirty)
        /\ UNCHANGED <<tag, off, buf, sink, nw, armed, compliant, npend, nerr, nsync, sched>>
Complete == /\ Running /\ tag = "from" /\ off >= Len(buf) /\ tag' = "none"
            /\ Ret(IF IsW THEN <<"ok", Len(buf) - 4>> ELSE <<"ok_sync">>, FALSE)
            /\ UNCHANGED <<off, buf, sink, nw, armed, compliant, npend, nerr, nsync, sched>>
Writing == Running /\ tag = "from" /\ off < Len(buf)
\* (AcceptK(k): the action for a given k - what a recorded event binds, so that validating a trace does not enumerate every k)
AcceptK(k) == /\ Writing /\ k \in 1..(Len(buf) - off)
              /\ sink' = sink \o SubSeq(buf, off + 1, off + k) /\ off' = off + k /\ Log([a |-> "accept", k |-> k])
              /\ npend' = 0 /\ UNCHANGED <<tag, buf, fut, nw, armed, out, dirty, compliant, nerr, nsync>>
Accept == \E k \in 1..(Len(buf) - off) : AcceptK(k)
Zero == /\ Writing /\ nerr < MaxErr /\ nerr' = nerr + 1 /\ Ret(<<"write_zero">>, TRUE) /\ Log([a |-> "zero", k |-> 0])
        /\ UNCHANGED <<tag, off, buf, sink, nw, armed, compliant, npend, nsync>>
Fail == /\ Writing /\ nerr < MaxErr /\ nerr' = nerr + 1 /\ Ret(<<"io_error">>, TRUE) /\ Log([a |-> "fail", k |-> 0])
        /\ UNCHANGED <<tag, off, buf, sink, nw, armed, compliant, npend, nsync>>
Pending == /\ Writing /\ npend < MaxPend /\ npend' = npend + 1 /\ Log([a |-> "pending", k |-> 0])
           /\ fut' = (IF fut = "runW" THEN "suspW" ELSE "suspS")
           /\ UNCHANGED <<tag, off, buf, sink, nw, armed, out, dirty, compliant, nerr, nsync>>
Next == StartWrite \/ StartSync \/ Resume \/ Drop \/ Idle \/ Complete \/ Accept \/ Zero \/ Fail \/ Pending
Spec == Init /\ [][Next]_vars

\* ---- properties (for compliant callers) ----------------------------------------------
RECURSIVE Cat(_)
Cat(vs) == IF vs = <<>> THEN <<>> ELSE Frame(Head(vs)) \o Cat(Tail(vs))
\* the sink holds whole frames of the armed values, in order: nothing duplicated, dropped or interleaved
WholeFramesInOrder == compliant => IsPrefix(sink, Cat(armed))
\* once nothing is pending every armed frame has been delivered completely
NothingPendingWhenClean == (compliant /\ ~dirty /\ fut = "none" /\ tag = "none") => sink = Cat(armed)
\* each completed write reports the payload length of its own value
OkReportsLength == compliant => \A i \in 1..Len(out) : out[i][1] = "ok" =>
      \E v \in 1..NV : out[i][2] = Vals[v] /\ Vals[v] \in 0..MaxLen
\* a value that fails to encode or exceeds the maximum puts no byte into the sink
NoBytesFromRejected == compliant => \A i \in 1..Len(sink) : Vals[sink[i][1]] \in 0..MaxLen
\* the offset stays within the buffer
\* (for a compliant caller: one that starts a write on an armed writer can leave the old offset beyond a shorter, scribbled buffer -
\* harmless in the code, which treats "offset >= length" as done, and outside what the property speaks about)
OffsetBounded == (compliant /\ tag = "from") => off <= Len(buf)

(* ---- liveness ------------------------------------------------------------------------------------------------------------  *)
(* A compliant caller that submits every value, syncs whenever an armed frame is waiting (and only then), and keeps polling;   *)
(* a sink that, while a frame is being written, eventually accepts bytes (it cannot stay Pending or fail forever: MaxPend,     *)
(* MaxErr).  Then every future completes and in the end the sink holds exactly the frames of all accepted values, in order -   *)
(* however often futures were dropped.                                                                                        *)
SyncL == dirty /\ StartSync
NextL == StartWrite \/ SyncL \/ Resume \/ Drop \/ Idle \/ Complete \/ Accept \/ Zero \/ Fail \/ Pending
LiveSpec == /\ Init /\ [][NextL]_vars
            /\ WF_vars(StartWrite) /\ WF_vars(SyncL) /\ WF_vars(Resume) /\ WF_vars(Idle) /\ WF_vars(Complete) /\ SF_vars(Accept)
AllSubmitted == nw = NV /\ fut = "none" /\ ~dirty
EventuallyAllInSink == <>[](AllSubmitted /\ sink = Cat(armed))
NoFutureHangs == [](Running => <>(~Running))
=============================================================================
