INIT Init
NEXT Next
CONSTANT Tier = "quick"
ACTION_CONSTRAINT Emit
INVARIANT ExactOnImage NaNStaysNaN BytesRoundTrip Overflow Bracket Monotone ClassConstant
CHECK_DEADLOCK FALSE
