SPECIFICATION LiveSpec
CONSTANT Vals <- ValsA
CONSTANT MaxLen = 2
CONSTANT MaxPend = 2
CONSTANT MaxErr = 1
CONSTANT MaxSyncs <- Unbounded
CONSTANT KeepSched = FALSE
CONSTANT OnlyCompliant = TRUE
PROPERTY EventuallyAllInSink NoFutureHangs
INVARIANT WholeFramesInOrder NothingPendingWhenClean OkReportsLength NoBytesFromRejected OffsetBounded
CHECK_DEADLOCK FALSE
