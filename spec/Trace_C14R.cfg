INIT TInit
NEXT TNext
CONSTANT Frames <- TrFrames
CONSTANT MaxLen <- TrMaxLen
CONSTANT MaxIntr <- Big
CONSTANT MaxReads <- Big
CONSTANT WVals <- None
CONSTANT WMaxLen = 0
CONSTANT MaxFaults = 0
CONSTRAINT Progress
INVARIANT InOrder NeverValueFromCutFrame CleanEndOnlyAtBoundary UEofOnlyInsideFrame InvalidLenJustified BufferBounded AllDelivered
POSTCONDITION Accepted
CHECK_DEADLOCK FALSE
