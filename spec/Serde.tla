------------------------------- MODULE Serde -------------------------------
(***************************************************************************)
(* The serde bridge (properties C17, C18).  A serde type is a descriptor   *)
(* over the serde data model; SerEnc gives the representation documented   *)
(* for the bridge (statement of C17 and the rustdoc of minicbor-serde):    *)
(*   primitives as the equally named Encoder call writes them, char as its *)
(*   scalar value, None as null, Some(x) as x, unit and unit structs as    *)
(*   the empty array, newtype structs as their content, tuples / tuple     *)
(*   structs / fixed arrays as definite arrays, sequences and maps         *)
(*   definite when serde tells the length and indefinite otherwise,        *)
(*   structs as maps keyed by field name (text), unit variants as the      *)
(*   variant name (text), other variants as a one-entry map from the name  *)
(*   to the content.  The other enum representations and `flatten` are     *)
(*   serde_derive's documented lowering to those calls:                    *)
(*     internally tagged  map{tag: name, fields...}                        *)
(*     adjacently tagged  map{tag: name [, content: body]}                 *)
(*     untagged           the body alone (unit variant: unit)              *)
(*     flatten            the struct becomes a map of unknown length with  *)
(*                        the flattened fields inline                      *)
(* Values are the generic trees of Builtin plus [k "rec", xs] for struct   *)
(* bodies (field values in declaration order); [k "var", i, x] has x =     *)
(* unit / the content / [k "seq"] / [k "rec"] by variant kind.             *)
(*                                                                         *)
(* SerEncM(d, v, m) gives, besides the reference (m = "ref"), the          *)
(* alternative inputs the quantifier of C17 names and a conforming         *)
(* deserialiser of that shape must accept:                                 *)
(*   "wide"    every head one width step wider than necessary              *)
(*   "indef"   every sequence, map and struct body indefinite              *)
(*   "extraF" / "extraB"  an unknown field in front of / behind the known  *)
(*             fields of every struct body that has no flattened field     *)
(* and one it may refuse but must never misread (value or error):          *)
(*   "allindef" like "indef", and every tuple / fixed array indefinite too *)
(***************************************************************************)
EXTENDS Builtin

\* ---- descriptors ---------------------------------------------------------------
SI(ty)        == [s |-> "int", ty |-> ty]
SBool         == [s |-> "bool"]
SFalse        == [s |-> "false"]                \* a type whose only value is what a binary format answers to is_human_readable
SChar         == [s |-> "char"]
SF32          == [s |-> "f32"]
SF64          == [s |-> "f64"]
SStr          == [s |-> "str"]
SBytesD       == [s |-> "bytes"]
SUnit         == [s |-> "unit"]
SOpt(e)       == [s |-> "opt", e |-> e]
STup(es)      == [s |-> "tuple", es |-> es]
SSeq(e)       == [s |-> "seq", e |-> e, indef |-> FALSE, unordered |-> FALSE]
SBag(e)       == [s |-> "seq", e |-> e, indef |-> FALSE, unordered |-> TRUE]
SUSeq(e)      == [s |-> "seq", e |-> e, indef |-> TRUE, unordered |-> FALSE]
SMap(k, v)    == [s |-> "map", kd |-> k, vd |-> v, indef |-> FALSE, unordered |-> FALSE]
SHMap(k, v)   == [s |-> "map", kd |-> k, vd |-> v, indef |-> FALSE, unordered |-> TRUE]
SUMap(k, v)   == [s |-> "map", kd |-> k, vd |-> v, indef |-> TRUE, unordered |-> FALSE]
SF(n, e)      == [n |-> n, e |-> e, flat |-> FALSE, skipnone |-> FALSE]
SFlat(e)      == [n |-> <<>>, e |-> e, flat |-> TRUE, skipnone |-> FALSE]
SFSkip(n, e)  == [n |-> n, e |-> e, flat |-> FALSE, skipnone |-> TRUE]       \* skip_serializing_if = "Option::is_none", default
SStruct(fs)   == [s |-> "struct", fs |-> fs]
SVU(n)        == [n |-> n, kind |-> "unit"]
SVN(n, e)     == [n |-> n, kind |-> "newtype", e |-> e]
SVT(n, es)    == [n |-> n, kind |-> "tuple", es |-> es]
SVS(n, fs)    == [n |-> n, kind |-> "struct", fs |-> fs]
SEnum(rep, tag, content, vs) == [s |-> "enum", rep |-> rep, tag |-> tag, content |-> content, vs |-> vs]

\* ---- heads by mode ---------------------------------------------------------------
Wider(w) == CASE w = 0 -> 1 [] w = 1 -> 2 [] w = 2 -> 4 [] OTHER -> 8
SHead(m, mj, arg) == IF m = "wide" THEN HeadBytes(mj, arg, Wider(PreferredWidth(arg))) ELSE PreferredHead(mj, arg)
STxt(m, b) == SHead(m, 3, FromNat(Len(b))) \o b
\* an unknown field: "zz": [1, {"q": null}]
ExtraEntry == <<98, 122, 122, 130, 1, 161, 97, 113, 246>>

HasFlat(fs) == \E i \in 1..Len(fs) : fs[i].flat
RECURSIVE SerEncM(_, _, _), SerSeqM(_, _, _), SerTupM(_, _, _, _), SerMapM(_, _, _, _), SerFieldsM(_, _, _, _), CountFields(_, _, _)
\* fields written by a struct body that has no flattened field (serde_derive counts them at run time)
CountFields(fs, xs, i) == IF i > Len(fs) THEN 0 ELSE (IF fs[i].skipnone /\ xs[i].k = "none" THEN 0 ELSE 1) + CountFields(fs, xs, i + 1)
SerSeqM(e, xs, m) == IF xs = <<>> THEN <<>> ELSE SerEncM(e, Head(xs), m) \o SerSeqM(e, Tail(xs), m)
SerTupM(es, xs, i, m) == IF i > Len(es) THEN <<>> ELSE SerEncM(es[i], xs[i], m) \o SerTupM(es, xs, i + 1, m)
SerMapM(kd, vd, xs, m) == IF xs = <<>> THEN <<>> ELSE SerEncM(kd, Head(xs)[1], m) \o SerEncM(vd, Head(xs)[2], m) \o SerMapM(kd, vd, Tail(xs), m)
\* the entries of a struct body; a flattened field contributes the entries of its own body (a struct) or its pairs (a map)
SerFieldsM(fs, xs, i, m) ==
   IF i > Len(fs) THEN <<>> ELSE
   LET f == fs[i]  x == xs[i] IN
   (IF f.flat THEN (IF f.e.s = "struct" THEN SerFieldsM(f.e.fs, x.xs, 1, m) ELSE SerMapM(f.e.kd, f.e.vd, x.xs, m))
    ELSE IF f.skipnone /\ x.k = "none" THEN <<>>
    ELSE STxt(m, f.n) \o SerEncM(f.e, x, m))
   \o SerFieldsM(fs, xs, i + 1, m)
\* a struct body: a map keyed by field name
SBody(fs, xs, m, lead) ==   \* lead: entries written before the fields (the tag of an internally tagged enum), as <<count, bytes>>
   IF HasFlat(fs) \/ m \in {"indef", "allindef"} THEN <<191>> \o lead[2] \o SerFieldsM(fs, xs, 1, m) \o <<255>>
   ELSE LET n == lead[1] + CountFields(fs, xs, 1) IN
        CASE m = "extraF" -> SHead(m, 5, FromNat(n + 1)) \o lead[2] \o ExtraEntry \o SerFieldsM(fs, xs, 1, m)
          [] m = "extraB" -> SHead(m, 5, FromNat(n + 1)) \o lead[2] \o SerFieldsM(fs, xs, 1, m) \o ExtraEntry
          [] OTHER        -> SHead(m, 5, FromNat(n)) \o lead[2] \o SerFieldsM(fs, xs, 1, m)
NoLead == <<0, <<>>>>
SerEncM(d, v, m) ==
   CASE d.s = "int"    -> SHead(m, IF v.neg THEN 1 ELSE 0, v.mag)
     [] d.s = "bool"   -> IF v.b THEN <<245>> ELSE <<244>>
     [] d.s = "false"  -> <<244>>
     [] d.s = "char"   -> SHead(m, 0, FromNat(v.ch))
     [] d.s = "f32"    -> <<250>> \o v.bits
     [] d.s = "f64"    -> <<251>> \o v.bits
     [] d.s = "str"    -> STxt(m, v.b)
     [] d.s = "bytes"  -> SHead(m, 2, FromNat(Len(v.b))) \o v.b
     [] d.s = "unit"   -> <<128>>
     [] d.s = "opt"    -> IF v.k = "none" THEN <<246>> ELSE SerEncM(d.e, v.x, m)
     [] d.s = "tuple"  -> IF m = "allindef" THEN <<159>> \o SerTupM(d.es, v.xs, 1, m) \o <<255>>
                          ELSE SHead(m, 4, FromNat(Len(d.es))) \o SerTupM(d.es, v.xs, 1, m)
     [] d.s = "seq"    -> IF d.indef \/ m \in {"indef", "allindef"} THEN <<159>> \o SerSeqM(d.e, v.xs, m) \o <<255>>
                          ELSE SHead(m, 4, FromNat(Len(v.xs))) \o SerSeqM(d.e, v.xs, m)
     [] d.s = "map"    -> IF d.indef \/ m \in {"indef", "allindef"} THEN <<191>> \o SerMapM(d.kd, d.vd, v.xs, m) \o <<255>>
                          ELSE SHead(m, 5, FromNat(Len(v.xs))) \o SerMapM(d.kd, d.vd, v.xs, m)
     [] d.s = "struct" -> SBody(d.fs, v.xs, m, NoLead)
     [] d.s = "enum"   ->
          LET vr == d.vs[v.i + 1]
              name == STxt(m, vr.n)
              body == CASE vr.kind = "unit"    -> <<128>>
                        [] vr.kind = "newtype" -> SerEncM(vr.e, v.x, m)
                        [] vr.kind = "tuple"   -> SHead(m, 4, FromNat(Len(vr.es))) \o SerTupM(vr.es, v.x.xs, 1, m)
                        [] vr.kind = "struct"  -> SBody(vr.fs, v.x.xs, m, NoLead)
              tagged == <<1, STxt(m, d.tag) \o name>>
          IN CASE d.rep = "ext" -> IF vr.kind = "unit" THEN name ELSE SHead(m, 5, FromNat(1)) \o name \o body
               [] d.rep = "adj" -> IF vr.kind = "unit" THEN SHead(m, 5, FromNat(1)) \o tagged[2]
                                   ELSE SHead(m, 5, FromNat(2)) \o tagged[2] \o STxt(m, d.content) \o body
               [] d.rep = "int" -> (CASE vr.kind = "unit"    -> SHead(m, 5, FromNat(1)) \o tagged[2]
                                      [] vr.kind = "struct"  -> SBody(vr.fs, v.x.xs, m, tagged)
                                      [] vr.kind = "newtype" -> SBody(vr.e.fs, v.x.xs, m, tagged))    \* a newtype variant holding a struct
               [] d.rep = "unt" -> body
SerEnc(d, v) == SerEncM(d, v, "ref")
Modes == {"ref", "wide", "indef", "extraF", "extraB"}

\* ---- a small set of values of each described type (boundaries first) -------------------------------
RECURSIVE SVals(_), SFieldVecs(_)
Pick1(S) == CHOOSE x \in S : TRUE
Pick2(S) == CHOOSE x \in S : x # Pick1(S) \/ Cardinality(S) = 1
\* value vectors of a field list: all-first, all-second, and each field ranging over all of its values with the others first
SFieldVecs(fs) ==
   LET vs(i) == SVals(fs[i].e)
       base1 == [i \in 1..Len(fs) |-> Pick1(vs(i))]
       base2 == [i \in 1..Len(fs) |-> Pick2(vs(i))] IN
   {base1, base2} \cup UNION { { [base1 EXCEPT ![i] = x] : x \in vs(i) } : i \in 1..Len(fs) }
SVals(d) ==
   CASE d.s = "int"    -> IntVals([ty |-> d.ty, nz |-> FALSE])
     [] d.s = "bool"   -> {[k |-> "bool", b |-> TRUE], [k |-> "bool", b |-> FALSE]}
     [] d.s = "false"  -> {[k |-> "bool", b |-> FALSE]}
     [] d.s = "char"   -> { [k |-> "char", ch |-> c] : c \in {0, 65, 233, 55295, 57344, 1114111} }
     [] d.s = "f32"    -> { [k |-> "float", w |-> 4, bits |-> b] : b \in {<<63, 128, 0, 0>>, <<255, 192, 0, 1>>, <<128, 0, 0, 0>>} }
     [] d.s = "f64"    -> { [k |-> "float", w |-> 8, bits |-> b] : b \in {<<63, 240, 0, 0, 0, 0, 0, 0>>, <<127, 248, 0, 0, 0, 0, 0, 1>>} }
     [] d.s = "str"    -> { [k |-> "text", b |-> b] : b \in {<<>>, <<97>>, <<195, 169, 33>>, [i \in 1..24 |-> 97 + i]} }
     [] d.s = "bytes"  -> { [k |-> "bytes", b |-> b] : b \in {<<>>, <<0>>, <<255, 1>>, Rep(7, 24)} }
     [] d.s = "unit"   -> {[k |-> "unit"]}
     [] d.s = "opt"    -> {[k |-> "none"]} \cup { [k |-> "some", x |-> x] : x \in SVals(d.e) }
     [] d.s = "tuple"  -> { [k |-> "seq", xs |-> xs] : xs \in SFieldVecs([i \in 1..Len(d.es) |-> [e |-> d.es[i]]]) }
     [] d.s = "seq"    -> LET es == SVals(d.e)  a == Pick1(es)  b == Pick2(es) IN
                          IF d.unordered THEN { [k |-> "seq", xs |-> xs] : xs \in {<<>>, <<a>>} }
                          ELSE { [k |-> "seq", xs |-> xs] : xs \in {<<>>, <<a>>, <<a, b>>, <<b, a, b>>, Rep(a, 24)} } \cup { [k |-> "seq", xs |-> <<x>>] : x \in es }
     [] d.s = "map"    -> LET ks == SVals(d.kd)  vs == SVals(d.vd)  k1 == Pick1(ks)  k2 == Pick2(ks)  v1 == Pick1(vs)  v2 == Pick2(vs) IN
                          { [k |-> "map", xs |-> xs] : xs \in {<<>>, <<<<k1, v1>>>>, <<<<k1, v2>>>>} \cup (IF d.indef /\ k1 # k2 THEN {<<<<k2, v1>>, <<k1, v2>>>>} ELSE {}) }
     [] d.s = "struct" -> { [k |-> "rec", xs |-> xs] : xs \in SFieldVecs(d.fs) }
     [] d.s = "enum"   -> UNION { LET vr == d.vs[i] IN
                                  CASE vr.kind = "unit"    -> { [k |-> "var", i |-> i - 1, x |-> [k |-> "unit"]] }
                                    [] vr.kind = "newtype" -> { [k |-> "var", i |-> i - 1, x |-> x] : x \in SVals(vr.e) }
                                    [] vr.kind = "tuple"   -> { [k |-> "var", i |-> i - 1, x |-> [k |-> "seq", xs |-> xs]] : xs \in SFieldVecs([j \in 1..Len(vr.es) |-> [e |-> vr.es[j]]]) }
                                    [] vr.kind = "struct"  -> { [k |-> "var", i |-> i - 1, x |-> [k |-> "rec", xs |-> xs]] : xs \in SFieldVecs(vr.fs) }
                                : i \in 1..Len(d.vs) }

\* ---- C18: the embedding of the built-in types both codecs know into the serde model ------------------
RECURSIVE Embed(_)
Embed(d) ==
   CASE d.d = "int"   -> SI(d.ty)
     [] d.d = "bool"  -> SBool
     [] d.d = "char"  -> SChar
     [] d.d = "f32"   -> SF32
     [] d.d = "f64"   -> SF64
     [] d.d = "text"  -> SStr
     [] d.d = "unit"  -> SUnit
     [] d.d = "opt"   -> SOpt(Embed(d.e))
     [] d.d = "seq"   -> IF d.n >= 0 THEN STup([i \in 1..d.n |-> Embed(d.e)])            \* [T; N] is a tuple of N for serde
                         ELSE IF d.unordered THEN SBag(Embed(d.e)) ELSE SSeq(Embed(d.e))
     [] d.d = "tuple" -> STup([i \in 1..Len(d.es) |-> Embed(d.es[i])])
     [] d.d = "map"   -> IF d.unordered THEN SHMap(Embed(d.kd), Embed(d.vd)) ELSE SMap(Embed(d.kd), Embed(d.vd))
SharedNames == {"u8", "u16", "u32", "u64", "usize", "i8", "i16", "i32", "i64", "isize", "bool", "char", "f32", "f64",
                "string", "boxstr", "cowstr", "unit", "phantom",
                "nzu8", "nzu16", "nzu32", "nzu64", "nzusize", "nzi8", "nzi16", "nzi32", "nzi64", "nzisize",
                "wrapu16", "cellu32", "refcellstring", "boxu64",
                "abool", "au8", "au16", "au32", "au64", "ausize", "ai8", "ai16", "ai32", "ai64", "aisize",
                "optu8", "optstring", "optvecu16",
                "tup1", "tup2", "tup3", "tup4", "tup16", "arr0u8", "arr1string", "arr3i32", "arr23u16", "arr24bool", "arr25i8", "arr16u8", "arr32u8",
                "vecu8", "vecstring", "vecvecu16", "vecoptbool", "vecdequei32", "linkedlistu64",
                "btreesetu16", "binaryheapu8", "hashsetstring", "hashseti32",
                "btreemapu8string", "btreemapstringvecu8", "hashmapu16bool", "hashmapstringi64",
                "vectup", "maptuple"}
=============================================================================
