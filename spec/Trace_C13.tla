------------------------------ MODULE Trace_C13 ------------------------------
(* Trace validation for C13: one event per (value, sink kind, capacity): the reference bytes (Vec sink), *)
(* whether encoding succeeded, the error class, the sink position, the sink content and the canaries.    *)
EXTENDS Sinks, Json, IOUtils
VARIABLE l
Rec == ndJsonDeserialize(IOEnv.TRACE)
EventOK(e) ==
   LET fits == EncodeOK(e.kind, e.cap, e.ref) IN
   /\ e.canary                                              \* no byte outside the sink was touched
   /\ ~e.panic
   /\ e.ok = fits                                           \* succeeds exactly when it fits
   /\ e.ok => e.content = e.ref                             \* the same bytes in every sink
   /\ ~e.ok => e.write_err /\ IsPrefix(e.content, e.ref)    \* a write error, leaving a prefix of the encoding
   /\ e.position = Len(e.content)                           \* the position is the number of bytes accepted
   /\ e.untouched                                           \* the rest of a bounded sink keeps its old bytes
   /\ (Bounded(e.kind) => Len(e.content) <= e.cap)
Init == l = 1
Next == /\ l <= Len(Rec) /\ l' = l + 1
        /\ IF EventOK(Rec[l]) THEN TRUE ELSE PrintT(<<"MISMATCH", l, ToJson(Rec[l])>>)
AllConsumed == TLCGet("stats").diameter - 1 = Len(Rec) \/ PrintT(<<"NOTCONSUMED", TLCGet("stats").diameter - 1, Len(Rec)>>)
=============================================================================
