-------------------------------- MODULE C04 --------------------------------
(***************************************************************************)
(* Property C04 at the level of the typed accessors: for every well-formed *)
(* encoding the accessor matching the item's shape returns the data-model  *)
(* value and leaves the position at the end of the item; a non-matching    *)
(* accessor fails; a strict prefix of an encoding a matching accessor      *)
(* would accept fails with the end-of-input class.                         *)
(***************************************************************************)
EXTENDS CborData, SkipProp, TLC

VConcat(kind, b) == [k |-> kind, cat |-> b, borrowed |-> TRUE]     \* drained bytes_iter / str_iter: concatenation of the chunks
\* bytes_iter (mj = 2) / str_iter (mj = 3), drained
RECURSIVE ChunkWalk(_, _, _, _)
\* returns <<"ok", bytes, end>> | <<"eoi">> | <<"err">>
ChunkWalk(buf, p, mj, acc) ==
   LET h == HeadAt(buf, p) IN
   IF h.st = "eoi" THEN (IF p >= Len(buf) \/ Major(At(buf, p)) = mj THEN <<"eoi">> ELSE <<"err">>)
   ELSE IF h.st = "bad" THEN <<"err">>
   ELSE IF IsBreak(h) THEN <<"ok", acc, p + 1>>
   ELSE IF h.major # mj \/ h.indef THEN <<"err">>
   ELSE IF ~IsSmall(h.arg) \/ ToNat(h.arg) > Len(buf) - p - h.hl THEN
        (IF mj = 2 \/ Utf8Prefix(SubSeq(buf, p + h.hl + 1, Len(buf))) THEN <<"eoi">> ELSE <<"err">>)
   ELSE LET b == SubSeq(buf, p + h.hl + 1, p + h.hl + ToNat(h.arg)) IN
        IF mj = 3 /\ ~ValidUtf8(b) THEN <<"err">> ELSE ChunkWalk(buf, p + h.hl + ToNat(h.arg), mj, acc \o b)
IterAcc(mj, buf, p) ==
   LET h == HeadAt(buf, p)  kind == IF mj = 2 THEN "bytescat" ELSE "strcat" IN
   IF h.st = "eoi" THEN (IF p >= Len(buf) \/ Major(At(buf, p)) = mj THEN {Err("eoi")} ELSE {Err("*")})
   ELSE IF h.st # "ok" \/ h.major # mj THEN {Err("*")}
   ELSE IF ~h.indef THEN
        { IF x.p = "ok" THEN Ok(VConcat(kind, SubSeq(buf, x.v.off + 1, x.v.off + x.v.len)), x.pos) ELSE x : x \in StrAcc(mj, buf, p) }
   ELSE LET r == ChunkWalk(buf, p + 1, mj, <<>>) IN
        IF r[1] = "ok" THEN {Ok(VConcat(kind, r[2]), r[3])} ELSE IF r[1] = "eoi" THEN {Err("eoi")} ELSE {Err("*")}

(* array_iter / map_iter drained with an element type that consumes exactly one item of any kind: the number of elements   *)
(* (pairs) and the position, which is the end of the container - behind the break of an indefinite one.                     *)
RECURSIVE CountUntilBreak(_, _)
CountUntilBreak(buf, p) == IF IsBreak(HeadAt(buf, p)) THEN 0 ELSE 1 + CountUntilBreak(buf, ItemEnd(buf, p))
VCount(n) == [k |-> "count", n |-> n]
ContIterAcc(mj, buf, p) ==
   LET h == HeadAt(buf, p)  r == Scan(buf, p, FALSE) IN
   IF h.st # "ok" \/ h.major # mj THEN {Err("*")}
   ELSE IF r.e = Trunc THEN {Err("*")}
   ELSE IF r.e = Bad THEN {Free}
   ELSE LET items == IF h.indef THEN CountUntilBreak(buf, p + 1) ELSE (IF mj = 4 THEN 1 ELSE 2) * Cap(h.arg) IN
        {Ok(VCount(IF mj = 4 THEN items ELSE items \div 2), r.e)} \cup (IF ~r.t THEN {Err("*")} ELSE {})     \* (invalid UTF-8 inside: the element may refuse)

AccNames == IntTypes \cup {"char", "bool", "null", "undefined", "simple", "f16", "f32", "f64", "bytes", "str", "bytes_iter", "str_iter",
                           "array", "map", "tag", "datatype", "array_iter", "map_iter", "array_iter_with", "map_iter_with"}
AccExpect(name, halfOn, buf, p) ==
   CASE name \in IntTypes  -> IntAcc(name, buf, p)
     [] name = "char"      -> CharAcc(buf, p)
     [] name \in {"bool", "null", "undefined"} -> ByteAcc(name, buf, p)
     [] name = "simple"    -> SimpleAcc(buf, p)
     [] name \in {"f16", "f32", "f64"} -> FloatAcc(name, halfOn, buf, p)
     [] name = "bytes"     -> StrAcc(2, buf, p)
     [] name = "str"       -> StrAcc(3, buf, p)
     [] name = "bytes_iter" -> IterAcc(2, buf, p)
     [] name = "str_iter"  -> IterAcc(3, buf, p)
     [] name = "array"     -> LenAcc(4, buf, p)
     [] name = "map"       -> LenAcc(5, buf, p)
     [] name = "array_iter" -> ContIterAcc(4, buf, p)
     [] name = "map_iter"  -> ContIterAcc(5, buf, p)
     \* the same iterators handing a caller's context to every element: the elements counted in the context
     [] name = "array_iter_with" -> ContIterAcc(4, buf, p)
     [] name = "map_iter_with"  -> ContIterAcc(5, buf, p)
     [] name = "tag"       -> TagAcc(buf, p)
     [] name = "datatype"  -> DatatypeAcc(buf, p)

(* Decoder::probe(): the accessor runs on a copy of the decoder. Whatever it returns - and it returns what the accessor itself *)
(* would - the probing decoder stays where it was (`opos`, the position of the original after the probe was dropped).          *)
ProbeExpect(name, halfOn, buf, p) == { [opos |-> p] @@ x : x \in AccExpect(name, halfOn, buf, p) }

\* ---- cross-checks between the accessor semantics and the data-model decoding (two definitions) ----
\* whole-item accessors: success means the item ends exactly where the accessor stopped and the values agree
WholeAcc == IntTypes \cup {"char", "bool", "null", "undefined", "simple", "f32", "f64", "bytes", "str", "bytes_iter", "str_iter"}
AgreesWithTree(name, buf) ==
   \A x \in AccExpect(name, TRUE, buf, 0) : x.p = "ok" =>
      /\ ItemEnd(buf, 0) = x.pos
      /\ LET t == Tree(SubSeq(buf, 1, x.pos)) IN
         CASE x.v.k = "int"    -> t = TInt(x.v.neg, x.v.mag)
           [] x.v.k = "char"   -> t = TNat(x.v.ch)
           [] x.v.k = "bool"   -> t = TSimple(IF x.v.b THEN 21 ELSE 20)
           [] x.v.k = "unit"   -> t \in {TSimple(22), TSimple(23)}
           [] x.v.k = "simple" -> t = TSimple(x.v.sv)
           [] x.v.k = "float"  -> t.t = "float"
           [] x.v.k = "floatnan" -> t.t = "float"
           [] x.v.k = "bytes"  -> t = TBytes(SubSeq(buf, x.v.off + 1, x.v.off + x.v.len))
           [] x.v.k = "str"    -> t = TText(SubSeq(buf, x.v.off + 1, x.v.off + x.v.len))
           [] x.v.k = "bytescat" -> t = TBytes(x.v.cat)
           [] x.v.k = "strcat" -> t = TText(x.v.cat)
\* on a well-formed item exactly the accessors of its shape can succeed: e.g. no string accessor succeeds on an integer
ShapeOf(buf) == LET h == HeadAt(buf, 0) IN h.major
Compatible(name, mj, info) ==
   CASE name \in IntTypes -> mj \in {0, 1} [] name = "char" -> mj = 0
     [] name \in {"bool", "null", "undefined", "simple", "f16", "f32", "f64"} -> mj = 7
     [] name \in {"bytes", "bytes_iter"} -> mj = 2 [] name \in {"str", "str_iter"} -> mj = 3
     [] name \in {"array", "array_iter", "array_iter_with"} -> mj = 4 [] name \in {"map", "map_iter", "map_iter_with"} -> mj = 5 [] name = "tag" -> mj = 6 [] name = "datatype" -> TRUE
NoCrossShape(buf) == \A name \in AccNames : (\E x \in AccExpect(name, TRUE, buf, 0) : x.p = "ok") => Compatible(name, ShapeOf(buf), 0)
=============================================================================
