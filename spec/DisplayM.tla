------------------------------ MODULE DisplayM ------------------------------
(***************************************************************************)
(* Implementation-shaped layer of C19: the control-stack machine of        *)
(* `impl Display for Tokenizer` (tokenizer.rs), one action per iteration   *)
(* of the inner `while let Some(elt) = stack.pop()` loop, over the token   *)
(* stream Tok of module Display.                                           *)
(*   Fixed = FALSE  the machine as pinned: an element that is wanted while *)
(*                  the token stream is exhausted is silently skipped      *)
(*                  (`None => continue`), so a definite container with a   *)
(*                  huge declared count keeps printing separators          *)
(*   Fixed = TRUE   the repaired machine: the missing element is reported  *)
(*                  inline and formatting stops                            *)
(***************************************************************************)
EXTENDS Display
CONSTANT Fixed
VARIABLES buf, ip, stk, outp, dst, steps
mvars == <<buf, ip, stk, outp, dst, steps>>

ErrAtom == <<-2>>                                  \* " !!! ..." followed by some message
E(k, n, s) == [k |-> k, n |-> n, s |-> s]
EN == E("N", 0, <<>>)
Peek == Tok(buf, ip)
Top  == stk[Len(stk)]
Rest == SubSeq(stk, 1, Len(stk) - 1)
W(s) == outp' = outp \o s
Stop(s) == W(s) /\ dst' = "done" /\ UNCHANGED <<ip, stk>>
Adv(t) == ip' = t.next
\* after an error token the tokenizer is drained: the iterator is at the end
DInit(b) == buf = b /\ ip = 0 /\ stk = <<>> /\ outp = <<>> /\ dst = "run" /\ steps = 0
DStep ==
  /\ dst = "run" /\ UNCHANGED buf /\ steps' = steps + 1
  /\ IF stk = <<>> THEN
        IF Peek.k = "end" THEN dst' = "done" /\ UNCHANGED <<ip, stk, outp>>
        ELSE stk' = <<EN>> /\ UNCHANGED <<ip, outp, dst>>
     ELSE LET e == Top  t == Peek IN
       CASE e.k = "N" ->
              CASE t.k = "end" -> IF Fixed THEN Stop(ErrAtom) ELSE stk' = Rest /\ UNCHANGED <<ip, outp, dst>>
                [] t.k = "A"   -> Adv(t) /\ stk' = Append(Rest, E("A", t.n, <<>>)) /\ W(LBrack) /\ UNCHANGED dst
                [] t.k = "M"   -> Adv(t) /\ stk' = Append(Rest, E("M", t.n, <<>>)) /\ W(LBrace) /\ UNCHANGED dst
                [] t.k = "AI"  -> Adv(t) /\ stk' = Append(Rest, E("A", -1, <<>>)) /\ W(IndefArr) /\ UNCHANGED dst
                [] t.k = "MI"  -> Adv(t) /\ stk' = Append(Rest, E("M", -1, <<>>)) /\ W(IndefMap) /\ UNCHANGED dst
                [] t.k \in {"BI", "SI"} ->
                      LET t2 == Tok(buf, t.next) IN
                      IF t2.k = "brk" THEN ip' = t2.next /\ stk' = Rest /\ W(IF t.k = "BI" THEN EmptyBytesIndef ELSE EmptyTextIndef) /\ UNCHANGED dst
                      ELSE Adv(t) /\ stk' = Append(Rest, E(IF t.k = "BI" THEN "B" ELSE "D", 0, <<>>)) /\ W(IndefStr) /\ UNCHANGED dst
                [] t.k = "tag" -> Adv(t) /\ stk' = Append(Rest, E("T", 0, <<>>)) /\ W(t.r \o LParen) /\ UNCHANGED dst
                [] t.k = "err" -> Stop(ErrAtom)
                [] OTHER       -> Adv(t) /\ stk' = Rest /\ W(t.r) /\ UNCHANGED dst          \* atom, stray break
         [] e.k = "S" -> stk' = Rest /\ W(e.s) /\ UNCHANGED <<ip, dst>>
         [] e.k = "X" -> IF t.k \in {"brk", "end"} THEN stk' = Rest /\ UNCHANGED <<ip, outp, dst>>
                         ELSE IF t.k = "err" THEN Stop(ErrAtom)
                         ELSE stk' = Rest /\ W(e.s) /\ UNCHANGED <<ip, dst>>
         [] e.k = "T" -> stk' = Rest \o <<E("S", 0, RParen), EN>> /\ UNCHANGED <<ip, outp, dst>>
         [] e.k = "A" /\ e.n = 0 -> stk' = Rest /\ W(RBrack) /\ UNCHANGED <<ip, dst>>
         [] e.k = "A" /\ e.n = 1 -> stk' = Rest \o <<E("A", 0, <<>>), EN>> /\ UNCHANGED <<ip, outp, dst>>
         [] e.k = "A" /\ e.n > 1 -> stk' = Rest \o <<E("A", e.n - 1, <<>>), E("S", 0, Comma), EN>> /\ UNCHANGED <<ip, outp, dst>>
         [] e.k = "M" /\ e.n = 0 -> stk' = Rest /\ W(RBrace) /\ UNCHANGED <<ip, dst>>
         [] e.k = "M" /\ e.n = 1 -> stk' = Rest \o <<E("M", 0, <<>>), EN, E("S", 0, Colon), EN>> /\ UNCHANGED <<ip, outp, dst>>
         [] e.k = "M" /\ e.n > 1 -> stk' = Rest \o <<E("M", e.n - 1, <<>>), E("S", 0, Comma), EN, E("S", 0, Colon), EN>> /\ UNCHANGED <<ip, outp, dst>>
         [] e.k \in {"A", "M", "B", "D"} /\ e.n <= 0 /\ ~(e.k \in {"A", "M"} /\ e.n = 0) ->     \* indefinite container / chunked string
              IF t.k = "end" THEN Stop(ErrAtom)
              ELSE IF t.k = "brk" THEN Adv(t) /\ stk' = Rest /\ W(CASE e.k = "A" -> RBrack [] e.k = "M" -> RBrace [] OTHER -> RParen) /\ UNCHANGED dst
              ELSE stk' = Rest \o (IF e.k = "M" THEN <<e, E("X", 0, Comma), EN, E("S", 0, Colon), EN>> ELSE <<e, E("X", 0, Comma), EN>>)
                   /\ UNCHANGED <<ip, outp, dst>>
DDone == dst = "done"
=============================================================================
