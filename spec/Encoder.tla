------------------------------- MODULE Encoder -------------------------------
(***************************************************************************)
(* The Encoder as an append-only log: one operator per public method       *)
(* giving the bytes the call must append (RFC 8949 preferred heads), and   *)
(* the meaning of a sequence of calls (property C03).                      *)
(* A call is a record [m |-> method, ...]:                                 *)
(*   integer methods  [m, neg, mag]     bool [m, b]     simple / char [m, i]  *)
(*   tag / array / map [m, n (8-byte tuple)]     bytes / str [m, b]        *)
(*   floats [m, bits]      null undefined begin_* end: [m]                 *)
(***************************************************************************)
EXTENDS CborData

IntMethods == {"u8", "u16", "u32", "u64", "i8", "i16", "i32", "i64", "int"}
\* the bytes a call appends, or <<-1>> when the call must fail (no well-formed encoding exists)
CallBytes(c) ==
   CASE c.m \in IntMethods   -> PreferredHead(IF c.neg THEN 1 ELSE 0, c.mag)
     [] c.m = "bool"         -> IF c.b THEN <<245>> ELSE <<244>>
     [] c.m = "null"         -> <<246>>
     [] c.m = "undefined"    -> <<247>>
     [] c.m = "simple"       -> IF c.i < 24 THEN <<224 + c.i>> ELSE IF c.i < 32 THEN <<-1>> ELSE <<248, c.i>>
     [] c.m = "char"         -> PreferredHead(0, FromNat(c.i))
     [] c.m = "tag"          -> PreferredHead(6, c.n)
     [] c.m = "array"        -> PreferredHead(4, c.n)
     [] c.m = "map"          -> PreferredHead(5, c.n)
     [] c.m = "bytes"        -> PreferredHead(2, FromNat(Len(c.b))) \o c.b
     [] c.m = "str"          -> PreferredHead(3, FromNat(Len(c.b))) \o c.b
     [] c.m = "begin_array"  -> <<159>>
     [] c.m = "begin_map"    -> <<191>>
     [] c.m = "begin_bytes"  -> <<95>>
     [] c.m = "begin_str"    -> <<127>>
     [] c.m = "end"          -> <<255>>
     [] c.m = "f32"          -> <<250>> \o c.bits
     [] c.m = "f64"          -> <<251>> \o c.bits
\* outcome of a single call on a fresh encoder
EncCall(c) == LET b == CallBytes(c) IN IF b = <<-1>> THEN {Err("*")} ELSE {Ok(VBytes(b), Len(b))}
RECURSIVE CallsBytes(_)
CallsBytes(cs) == IF cs = <<>> THEN <<>> ELSE CallBytes(Head(cs)) \o CallsBytes(Tail(cs))

(* ArrayIter / MapIter (encode.rs): the iterator's size hint (low, up; up = -1: no upper bound) decides the framing - a  *)
(* definite container of `low` elements when the hint is exact (low = up), an indefinite one closed by a break otherwise. *)
(* xs: the items (for a map k1, v1, k2, v2, ...; low and up then count pairs), unsigned integers.                          *)
RECURSIVE ItemsBytes(_)
ItemsBytes(xs) == IF xs = <<>> THEN <<>> ELSE PreferredHead(0, Head(xs)) \o ItemsBytes(Tail(xs))
IterBytes(kind, xs, low, up) ==
   LET mj == IF kind = "array" THEN 4 ELSE 5 IN
   IF up = low THEN PreferredHead(mj, FromNat(low)) \o ItemsBytes(xs) ELSE IndefHead(mj) \o ItemsBytes(xs) \o <<255>>
EncIter(c) == LET b == IterBytes(c.kind, c.xs, c.low, c.up) IN {Ok(VBytes(b), Len(b))}

\* ---- the meaning of a call sequence: ghost nesting stack ------------------------------
(* Stack entries: [k |-> "arr" | "map" | "tag" | "iarr" | "imap" | "ibytes" | "istr", left |-> items still owed (definite)] *)
\* account for one complete item inside the innermost open container; a definite container or tag that is
\* thereby complete is itself one complete item of its parent
RECURSIVE ItemDone(_)
ItemDone(st) == IF st = <<>> THEN st
                ELSE LET top == st[Len(st)] IN
                     IF top.k \in {"arr", "map", "tag"} THEN
                        (IF top.left = 1 THEN ItemDone(SubSeq(st, 1, Len(st) - 1)) ELSE [st EXCEPT ![Len(st)].left = @ - 1])
                     ELSE IF top.k = "imap" THEN [st EXCEPT ![Len(st)].left = @ + 1]      \* count items for the pairing check
                     ELSE st
IsScalarCall(c) == c.m \in IntMethods \cup {"bool", "null", "undefined", "simple", "char", "bytes", "str", "f32", "f64"}
\* state: [st |-> stack, items |-> complete top-level items, bad |-> a call that no well-formed item admits here]
Step(s, c) ==
   LET inStr == s.st # <<>> /\ s.st[Len(s.st)].k \in {"ibytes", "istr"} IN
   IF s.bad THEN s
   ELSE IF inStr THEN
        (IF c.m = "end" THEN LET st2 == ItemDone(SubSeq(s.st, 1, Len(s.st) - 1)) IN
                             [st |-> st2, items |-> s.items + (IF st2 = <<>> THEN 1 ELSE 0), bad |-> FALSE]
         ELSE IF (c.m = "bytes" /\ s.st[Len(s.st)].k = "ibytes") \/ (c.m = "str" /\ s.st[Len(s.st)].k = "istr") THEN s
         ELSE [s EXCEPT !.bad = TRUE])
   ELSE IF IsScalarCall(c) THEN
        (IF c.m = "simple" /\ c.i \in 24..31 THEN [s EXCEPT !.bad = TRUE]
         ELSE [st |-> ItemDone(s.st), items |-> s.items + (IF ItemDone(s.st) = <<>> THEN 1 ELSE 0), bad |-> FALSE])
   ELSE IF c.m \in {"array", "map"} THEN
        LET n == (IF c.m = "array" THEN 1 ELSE 2) * Cap(c.n) IN
        (IF n = 0 THEN [st |-> ItemDone(s.st), items |-> s.items + (IF ItemDone(s.st) = <<>> THEN 1 ELSE 0), bad |-> FALSE]
         ELSE [s EXCEPT !.st = Append(s.st, [k |-> IF c.m = "array" THEN "arr" ELSE "map", left |-> n])])
   ELSE IF c.m = "tag" THEN [s EXCEPT !.st = Append(s.st, [k |-> "tag", left |-> 1])]
   ELSE IF c.m \in {"begin_array", "begin_map", "begin_bytes", "begin_str"} THEN
        [s EXCEPT !.st = Append(s.st, [k |-> (CASE c.m = "begin_array" -> "iarr" [] c.m = "begin_map" -> "imap"
                                              [] c.m = "begin_bytes" -> "ibytes" [] OTHER -> "istr"), left |-> 0])]
   ELSE \* end
        IF s.st # <<>> /\ s.st[Len(s.st)].k \in {"iarr", "imap"} /\ (s.st[Len(s.st)].k = "imap" => s.st[Len(s.st)].left % 2 = 0)
        THEN LET st2 == ItemDone(SubSeq(s.st, 1, Len(s.st) - 1)) IN
             [st |-> st2, items |-> s.items + (IF st2 = <<>> THEN 1 ELSE 0), bad |-> FALSE]
        ELSE [s EXCEPT !.bad = TRUE]
RECURSIVE Run(_, _)
Run(s, cs) == IF cs = <<>> THEN s ELSE Run(Step(s, Head(cs)), Tail(cs))
S0 == [st |-> <<>>, items |-> 0, bad |-> FALSE]
\* the calls form exactly one complete value
Balanced(cs) == LET s == Run(S0, cs) IN ~s.bad /\ s.st = <<>> /\ s.items = 1
\* the calls are a proper beginning of one value
OpenValue(cs) == LET s == Run(S0, cs) IN ~s.bad /\ s.items = 0 /\ (cs = <<>> \/ s.st # <<>>)
=============================================================================
