INIT Init
NEXT Next
CONSTANT Vals <- ValsA
CONSTANT MaxLen = 2
CONSTANT MaxPend = 2
CONSTANT MaxErr = 1
CONSTANT MaxSyncs = 3
CONSTANT OnlyCompliant = TRUE
VIEW view
ACTION_CONSTRAINT Emit
INVARIANT WholeFramesInOrder NothingPendingWhenClean OkReportsLength NoBytesFromRejected OffsetBounded
CHECK_DEADLOCK FALSE
