INIT Init
NEXT Next
CONSTANT MaxLen = 2
CONSTANT MaxCalls = 2
CONSTANT Small = TRUE
ACTION_CONSTRAINT Emit
INVARIANT Total PosInv OkMoves BeyondFails
