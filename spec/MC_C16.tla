------------------------------- MODULE MC_C16 -------------------------------
EXTENDS AsyncWriter, Json
Unbounded == -1
ValsA == <<1, -1, 3, 2, 0>>       \* value 2 fails to encode, value 3 exceeds MaxLen = 2
ValsB == <<2, 1, 2>>
ValsC == <<0, 3, -1, 1>>
\* the implementation runs Idle / Complete in the same poll as the last accepted byte
Settled == IF fut' \in {"runW", "runS"} /\ (tag' = "none" \/ off' >= Len(buf'))
           THEN Append(out', IF fut' = "runW" THEN <<"ok", Len(buf') - 4>> ELSE <<"ok_sync">>)
           ELSE out'
\* only schedules of compliant callers are replayed: what a non-compliant caller sees is documented as
\* discard-on-rewrite but is not part of the property
Emit == (sched' # sched /\ compliant') =>
   PrintT(<<"CASE", ToJson([fam |-> "awrite", name |-> "script",
                            in |-> [vals |-> Vals, maxlen |-> MaxLen, sched |-> sched'],
                            exp |-> [out |-> Settled, sinkids |-> sink', desync |-> ""]])>>)
=============================================================================
