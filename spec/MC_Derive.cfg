INIT Init
NEXT Next
CONSTANT Tier = "quick"
ACTION_CONSTRAINT Emit
INVARIANT DocWellFormed SelfProject CompatNeverFails
CHECK_DEADLOCK FALSE
