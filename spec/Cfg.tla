-------------------------------- MODULE Cfg --------------------------------
(***************************************************************************)
(* Feature configurations (property C20).  A configuration is a record of  *)
(* the three features that change behaviour; everything else in this       *)
(* specification is configuration-independent, and the ONLY places where   *)
(* two configurations may observably differ are the documented ones:       *)
(*   D1  without alloc, skip() may refuse an indefinite-length array or    *)
(*       map nested in a definite-length one (decoder.rs rustdoc)          *)
(*   D2  without alloc, error messages are static (messages are not        *)
(*       observed at all: only class, value, positions)                    *)
(*   D3  without alloc, the bridge rejects indefinite-length strings in    *)
(*       self-describing position, and collect_str                         *)
(*   D4  without half, a half-precision item is a type error wherever a    *)
(*       float is read                                                     *)
(* An observation is the projection [alloc, half, std, p, cls, pos, epos,  *)
(* eq]: result kind, error class, decoder position afterwards, position    *)
(* reported by the error (-1: none) and the equivalence class of the full  *)
(* observation (value, bytes, positions) among the configurations.         *)
(***************************************************************************)
EXTENDS SkipProp
Configs == { [alloc |-> a, std |-> s, half |-> h] : a \in BOOLEAN, s \in BOOLEAN, h \in BOOLEAN } \ { c \in [alloc : BOOLEAN, std : BOOLEAN, half : BOOLEAN] : c.std /\ ~c.alloc }

IsDefContainerByte(b) == (b >= 128 /\ b <= 155) \/ (b >= 160 /\ b <= 187)
IsIndefContainerByte(b) == b \in {159, 191}
IsIndefStringByte(b) == b \in {95, 127}
HalfByte == 249

(* Offsets of the heads of the item at p that matter for D1, D3, D4 - exact on well-formed input:     *)
(*   nest  indefinite-length arrays / maps below a definite-length array / map                        *)
(*   istr  indefinite-length strings        f16  half-precision floats                                *)
MarkR(e, nest, istr, f16) == [e |-> e, nest |-> nest, istr |-> istr, f16 |-> f16]
RECURSIVE Marks(_, _, _), MarkItems(_, _, _, _, _), MarkIndef(_, _, _, _)
MarkItems(buf, p, k, inside, acc) == IF k = 0 THEN MarkR(p, acc.nest, acc.istr, acc.f16) ELSE
   LET r == Marks(buf, p, inside) IN
   MarkItems(buf, r.e, k - 1, inside, MarkR(r.e, acc.nest \cup r.nest, acc.istr \cup r.istr, acc.f16 \cup r.f16))
MarkIndef(buf, p, inside, acc) ==
   IF IsBreak(HeadAt(buf, p)) THEN MarkR(p + 1, acc.nest, acc.istr, acc.f16) ELSE
   LET r == Marks(buf, p, inside) IN
   MarkIndef(buf, r.e, inside, MarkR(r.e, acc.nest \cup r.nest, acc.istr \cup r.istr, acc.f16 \cup r.f16))
NoMarks(e) == MarkR(e, {}, {}, {})
Marks(buf, p, inside) ==      \* only evaluated where WellFormedAt(buf, p)
   LET h == HeadAt(buf, p)  e == ItemEnd(buf, p) IN
   CASE h.major \in {0, 1} -> NoMarks(e)
     [] h.major \in {2, 3} -> MarkR(e, {}, IF h.indef THEN {p} ELSE {}, {})
     [] h.major = 4 -> IF h.indef THEN LET r == MarkIndef(buf, p + 1, inside, NoMarks(p + 1)) IN MarkR(r.e, r.nest \cup (IF inside THEN {p} ELSE {}), r.istr, r.f16)
                       ELSE MarkItems(buf, p + h.hl, Cap(h.arg), TRUE, NoMarks(p + h.hl))
     [] h.major = 5 -> IF h.indef THEN LET r == MarkIndef(buf, p + 1, inside, NoMarks(p + 1)) IN MarkR(r.e, r.nest \cup (IF inside THEN {p} ELSE {}), r.istr, r.f16)
                       ELSE MarkItems(buf, p + h.hl, 2 * Cap(h.arg), TRUE, NoMarks(p + h.hl))
     [] h.major = 6 -> Marks(buf, p + h.hl, inside)
     [] h.major = 7 -> MarkR(e, {}, {}, IF h.info = 25 THEN {p} ELSE {})

(* The three triggers, for an operation applied at offset p0 of buf and an observation x of a configuration that lacks the  *)
(* feature.  On well-formed input the offsets are those of the item walk; on anything else (mutated, truncated, random      *)
(* bytes) the byte at the reported offset decides, which can only make the check more permissive.                            *)
RefusedNested(buf, p0, x) ==        \* D1: x stopped just behind an indefinite array/map head that sits below a definite one
   /\ ~x.alloc /\ x.p = "err" /\ x.cls = "msg" /\ x.pos >= 1 /\ x.pos <= Len(buf) /\ IsIndefContainerByte(buf[x.pos])
   /\ IF WellFormedAt(buf, p0) THEN (x.pos - 1) \in Marks(buf, p0, FALSE).nest
      ELSE \E q \in (p0 + 1)..(x.pos - 1) : IsDefContainerByte(buf[q])
HalfIsTypeError(buf, p0, x) ==      \* D4: x reports a type error at a half-precision item
   /\ ~x.half /\ x.p = "err" /\ x.cls = "type" /\ x.epos >= 0 /\ x.epos < Len(buf) /\ buf[x.epos + 1] = HalfByte
   /\ WellFormedAt(buf, p0) => x.epos \in Marks(buf, p0, FALSE).f16
IndefStringRejected(buf, p0, x) ==  \* D3: x reports a type error at an indefinite-length string
   /\ ~x.alloc /\ x.p = "err" /\ x.cls = "type" /\ x.epos >= 0 /\ x.epos < Len(buf) /\ IsIndefStringByte(buf[x.epos + 1])
   /\ WellFormedAt(buf, p0) => x.epos \in Marks(buf, p0, FALSE).istr

SkipsItems(fam, name)  == (fam = "acc" /\ name = "skip") \/ fam \in {"signore", "sde", "sser"}      \* operations that skip whole items
ReadsFloats(fam, name) == (fam = "acc" /\ name \in {"f32", "f64"}) \/ fam \in {"tdec", "sany", "sde", "sser"}
SelfDescribing(fam)    == fam \in {"sany", "sde", "sser"}
CollectStrTypes == {"p_dispstr", "s6"}

(* x and y are observations of the same (operation, input) in two configurations.  They are the same, or one of the   *)
(* documented differences explains the one that lacks a feature.                                                       *)
Explains(fam, name, buf, p0, x) ==
   \/ SkipsItems(fam, name) /\ RefusedNested(buf, p0, x)
   \/ ReadsFloats(fam, name) /\ HalfIsTypeError(buf, p0, x)
   \/ SelfDescribing(fam) /\ IndefStringRejected(buf, p0, x)
   \/ fam = "sser" /\ name \in CollectStrTypes /\ ~x.alloc /\ x.p = "err" /\ x.cls = "ser"
SameOrDocumented(fam, name, buf, p0, x, y) ==
   x.eq = y.eq \/ Explains(fam, name, buf, p0, x) \/ Explains(fam, name, buf, p0, y)
=============================================================================
