INIT Init
NEXT Next
CONSTANT Alloc = TRUE
CONSTANT MaxTok = 5
CONSTANT Rich = FALSE
ACTION_CONSTRAINT Emit
INVARIANT Refines SkipOK SkipAccepts SkipPrefix NoOverrun Bounded WorkLinear RefusalOnlyNoAlloc ScanAgrees
CHECK_DEADLOCK FALSE
