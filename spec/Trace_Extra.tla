----------------------------- MODULE Trace_Extra -----------------------------
(* Trace validation of behaviour beyond the listed properties (spec/Data.tla).  A mismatch is a NOTE of the hosting check. *)
EXTENDS Data, TLC, Json, IOUtils
VARIABLE l
Rec == ndJsonDeserialize(IOEnv.TRACE)
Why(e) ==
   CASE e.name = "iana"     -> IF IanaOK(e.n, e.iana, e.back) THEN "ok" ELSE "iana"
     [] e.name = "typename" -> IF TypeNameOK(e.ty, e.shown) THEN "ok" ELSE "typename"
     [] e.name = "intcmp"   -> IF e.cmp = IntCmp(e.a, e.b) THEN "ok" ELSE "intord"
     [] e.name = "ctx"      -> IF CtxOK(e.n, e.seen, e.final) THEN "ok" ELSE "ctx"
Init == l = 1
Next == /\ l <= Len(Rec) /\ l' = l + 1
        /\ LET w == Why(Rec[l]) IN IF w = "ok" THEN TRUE ELSE PrintT(<<"MISMATCH", l, ToJson([why |-> w, ev |-> Rec[l]])>>)
AllConsumed == TLCGet("stats").diameter - 1 = Len(Rec) \/ PrintT(<<"NOTCONSUMED", TLCGet("stats").diameter - 1, Len(Rec)>>)
=============================================================================
