INIT TInit
NEXT TNext
CONSTANT Vals <- TrVals
CONSTANT MaxLen <- TrMaxLen
CONSTANT MaxPend <- Big
CONSTANT MaxErr <- Big
CONSTANT MaxSyncs <- Big
CONSTANT KeepSched = TRUE
CONSTANT OnlyCompliant = FALSE
CONSTRAINT Progress
INVARIANT WholeFramesInOrder NothingPendingWhenClean OkReportsLength NoBytesFromRejected OffsetBounded CallerCompliant
POSTCONDITION Accepted
CHECK_DEADLOCK FALSE
