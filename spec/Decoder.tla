------------------------------ MODULE Decoder ------------------------------
(***************************************************************************)
(* The typed accessors of minicbor's Decoder as total functions            *)
(*    (accessor, buf, pos)  ->  set of acceptable outcomes.                *)
(* Written from RFC 8949 and the accessor documentation.  Where a property *)
(* leaves freedom the set has several members or the pattern is loose:     *)
(*    Ok(v, pos)   the call must return Ok with exactly v, position pos    *)
(*    Err("eoi")   the call must fail with the end-of-input class          *)
(*    Err("*")     the call must fail, the class is not pinned             *)
(*    Free          only totality is required (input is not well-formed)    *)
(* The position after an error is never pinned (only the C02 bound).       *)
(* Offsets are 0-based (Decoder::position).                                *)
(***************************************************************************)
EXTENDS CborWire, FiniteSets

Ok(v, pos) == [p |-> "ok", v |-> v, pos |-> pos]
Err(cls)   == [p |-> "err", cls |-> cls]
Free       == [p |-> "any"]

\* ---- abstract values (the same shapes the harness projects Rust values to) ----
VInt(neg, mag)  == [k |-> "int", neg |-> neg, mag |-> mag]
VBool(b)        == [k |-> "bool", b |-> b]
VUnit           == [k |-> "unit"]
VSimple(n)      == [k |-> "simple", sv |-> n]
VFloat(w, bits) == [k |-> "float", w |-> w, bits |-> bits]        \* w = 4 or 8 bytes, big-endian bit pattern
VChar(c)        == [k |-> "char", ch |-> c]
VSlice(kind, off, len) == [k |-> kind, off |-> off, len |-> len]   \* kind "bytes" / "str": borrowed from the input
VLen(def, n)    == [k |-> "len", def |-> def, cnt |-> n]           \* array / map header; n is an 8-byte tuple
VTag(n)         == [k |-> "tag", tg |-> n]
VType(t)        == [k |-> "type", ty |-> t]

\* ---- integers -------------------------------------------------------------
IntTypes == {"u8", "u16", "u32", "u64", "i8", "i16", "i32", "i64", "int"}
Bits(T) == CASE T \in {"u8", "i8"} -> 8 [] T \in {"u16", "i16"} -> 16
             [] T \in {"u32", "i32"} -> 32 [] T \in {"u64", "i64", "int"} -> 64
\* the mathematical value (neg, mag) is a member of the Rust type T
Representable(T, neg, mag) ==
   CASE T \in {"u8", "u16", "u32", "u64"} -> ~neg /\ FitsBits(mag, Bits(T))
     [] T \in {"i8", "i16", "i32", "i64"} -> FitsBits(mag, Bits(T) - 1)
     [] T = "int"                           -> TRUE
\* non-zero variants
ReprNonZero(T, neg, mag) == Representable(T, neg, mag) /\ (neg \/ ~IsZero(mag))

\* What remains of a head that was cut by the end of input: <<major, info, known argument bytes>>
CutHead(buf, p) == LET b == At(buf, p) IN
   [major |-> Major(b), info |-> Info(b), part |-> SubSeq(buf, p + 2, Len(buf))]
\* least argument value a cut head can be completed to
MinCompletion(c) == Pad8(c.part \o [i \in 1..(ArgBytes(c.info) - Len(c.part)) |-> 0])

IntAcc(T, buf, p) ==
   LET h == HeadAt(buf, p) IN
   IF h.st = "eoi" THEN
      IF p >= Len(buf) THEN {Err("eoi")}
      ELSE LET c == CutHead(buf, p) IN
           IF c.major \in {0, 1} /\ Representable(T, c.major = 1, MinCompletion(c)) THEN {Err("eoi")} ELSE {Err("*")}
   ELSE IF h.st = "ok" /\ h.major \in {0, 1} /\ Representable(T, h.major = 1, h.arg)
        THEN {Ok(VInt(h.major = 1, h.arg), p + h.hl)}
   ELSE {Err("*")}

\* a Unicode scalar value
IsScalar(n) == (n >= 0 /\ n < 55296) \/ (n > 57343 /\ n <= 1114111)
CharAcc(buf, p) ==
   LET h == HeadAt(buf, p) IN
   IF h.st = "eoi" THEN
      IF p >= Len(buf) THEN {Err("eoi")}
      ELSE LET c == CutHead(buf, p)  m == MinCompletion(c) IN
           IF c.major = 0 /\ IsSmall(m) /\ ToNat(m) <= 1114111 THEN {Err("eoi")} ELSE {Err("*")}
   ELSE IF h.st = "ok" /\ h.major = 0 /\ IsSmall(h.arg) /\ IsScalar(ToNat(h.arg))
        THEN {Ok(VChar(ToNat(h.arg)), p + h.hl)}
   ELSE {Err("*")}

\* ---- UTF-8 (RFC 3629 / Unicode table 3-7) -----------------------------------
Cont(b) == b >= 128 /\ b <= 191
\* "ok": valid; "part": a strict prefix of a valid string (ends inside a sequence); "bad": neither
RECURSIVE Utf8Scan(_, _)
Utf8Scan(bs, i) ==
   IF i > Len(bs) THEN "ok" ELSE
   LET b == bs[i]  n == Len(bs) - i IN        \* n bytes follow the lead byte
   IF b < 128 THEN Utf8Scan(bs, i + 1)
   ELSE IF b >= 194 /\ b <= 223 THEN
        (IF n = 0 THEN "part" ELSE IF Cont(bs[i + 1]) THEN Utf8Scan(bs, i + 2) ELSE "bad")
   ELSE IF b >= 224 /\ b <= 239 THEN
        LET lo == IF b = 224 THEN 160 ELSE 128
            hi == IF b = 237 THEN 159 ELSE 191 IN
        IF n = 0 THEN "part"
        ELSE IF ~(bs[i + 1] >= lo /\ bs[i + 1] <= hi) THEN "bad"
        ELSE IF n = 1 THEN "part"
        ELSE IF Cont(bs[i + 2]) THEN Utf8Scan(bs, i + 3) ELSE "bad"
   ELSE IF b >= 240 /\ b <= 244 THEN
        LET lo == IF b = 240 THEN 144 ELSE 128
            hi == IF b = 244 THEN 143 ELSE 191 IN
        IF n = 0 THEN "part"
        ELSE IF ~(bs[i + 1] >= lo /\ bs[i + 1] <= hi) THEN "bad"
        ELSE IF n = 1 THEN "part"
        ELSE IF ~Cont(bs[i + 2]) THEN "bad"
        ELSE IF n = 2 THEN "part"
        ELSE IF Cont(bs[i + 3]) THEN Utf8Scan(bs, i + 4) ELSE "bad"
   ELSE "bad"
ValidUtf8(bs) == Utf8Scan(bs, 1) = "ok"
Utf8Prefix(bs) == Utf8Scan(bs, 1) \in {"ok", "part"}

\* ---- strings ---------------------------------------------------------------
\* definite-length byte/text string accessor (mj = 2 bytes(), mj = 3 str())
StrAcc(mj, buf, p) ==
   LET h == HeadAt(buf, p)  kind == IF mj = 2 THEN "bytes" ELSE "str" IN
   IF h.st = "eoi" THEN
      (IF p >= Len(buf) \/ Major(At(buf, p)) = mj THEN {Err("eoi")} ELSE {Err("*")})
   ELSE IF h.st = "ok" /\ h.major = mj /\ ~h.indef THEN
      IF ~IsSmall(h.arg) \/ ToNat(h.arg) > Len(buf) - p - h.hl THEN
         \* cut inside the payload: a strict prefix of a valid encoding iff the text so far can still become valid
         (IF mj = 2 \/ Utf8Prefix(SubSeq(buf, p + h.hl + 1, Len(buf))) THEN {Err("eoi")} ELSE {Err("*")})
      ELSE LET n == ToNat(h.arg) IN
           IF mj = 3 /\ ~ValidUtf8(SubSeq(buf, p + h.hl + 1, p + h.hl + n)) THEN {Err("*")}
           ELSE {Ok(VSlice(kind, p + h.hl, n), p + h.hl + n)}
   ELSE {Err("*")}

\* ---- containers, tags -------------------------------------------------------
\* array() (mj = 4) and map() (mj = 5): Some(n) for definite, None for indefinite
LenAcc(mj, buf, p) ==
   LET h == HeadAt(buf, p) IN
   IF h.st = "eoi" THEN (IF p >= Len(buf) \/ Major(At(buf, p)) = mj THEN {Err("eoi")} ELSE {Err("*")})
   ELSE IF h.st = "ok" /\ h.major = mj THEN {Ok(VLen(~h.indef, h.arg), p + h.hl)}
   ELSE {Err("*")}
TagAcc(buf, p) ==
   LET h == HeadAt(buf, p) IN
   IF h.st = "eoi" THEN (IF p >= Len(buf) \/ Major(At(buf, p)) = 6 THEN {Err("eoi")} ELSE {Err("*")})
   ELSE IF h.st = "ok" /\ h.major = 6 THEN {Ok(VTag(h.arg), p + h.hl)}
   ELSE {Err("*")}

\* ---- major type 7 -----------------------------------------------------------
\* single-byte accessors: bool (f4/f5), null (f6), undefined (f7)
ByteAcc(name, buf, p) ==
   IF p >= Len(buf) THEN {Err("eoi")} ELSE
   LET b == At(buf, p) IN
   CASE name = "bool"      -> IF b = 244 THEN {Ok(VBool(FALSE), p + 1)} ELSE IF b = 245 THEN {Ok(VBool(TRUE), p + 1)} ELSE {Err("*")}
     [] name = "null"      -> IF b = 246 THEN {Ok(VUnit, p + 1)} ELSE {Err("*")}
     [] name = "undefined" -> IF b = 247 THEN {Ok(VUnit, p + 1)} ELSE {Err("*")}
\* simple(): one-byte simple values 0..19 and two-byte simple values 32..255 are pinned.  Whether simple()
\* also answers for false/true/null/undefined (20..23) is not stated anywhere: either behaviour is accepted,
\* but never a different value.  f8 00..1f is not well-formed CBOR: only totality.
SimpleAcc(buf, p) ==
   IF p >= Len(buf) THEN {Err("eoi")} ELSE
   LET b == At(buf, p) IN
   IF b >= 224 /\ b <= 243 THEN {Ok(VSimple(b - 224), p + 1)}
   ELSE IF b >= 244 /\ b <= 247 THEN {Ok(VSimple(b - 224), p + 1), Err("*")}
   ELSE IF b = 248 THEN
        (IF p + 1 >= Len(buf) THEN {Err("eoi")}
         ELSE IF At(buf, p + 1) >= 32 THEN {Ok(VSimple(At(buf, p + 1)), p + 2)} ELSE {Free})
   ELSE {Err("*")}

\* ---- data type inspection -----------------------------------------------------
\* For an integer item any type whose accessor accepts the item may be named (property C05);
\* the other answers follow the documentation of data::Type.
TypeName(T) == CASE T = "u8" -> "U8" [] T = "u16" -> "U16" [] T = "u32" -> "U32" [] T = "u64" -> "U64"
                 [] T = "i8" -> "I8" [] T = "i16" -> "I16" [] T = "i32" -> "I32" [] T = "i64" -> "I64" [] T = "int" -> "Int"
DatatypeAcc(buf, p) ==
   IF p >= Len(buf) THEN {Err("eoi")} ELSE
   LET b == At(buf, p)  mj == Major(b)  inf == Info(b)  h == HeadAt(buf, p) IN
   IF mj \in {0, 1} THEN
      (IF h.st = "ok" THEN { Ok(VType(TypeName(T)), p) : T \in { X \in IntTypes : Representable(X, mj = 1, h.arg) } }
       ELSE IF h.st = "eoi" THEN {Free}       \* the argument is cut: the type may or may not be decidable
       ELSE {Free})                           \* reserved additional information
   ELSE IF inf \in 28..30 \/ (inf = 31 /\ mj = 6) THEN {Free}
   ELSE LET t == CASE mj = 2 -> IF inf = 31 THEN "BytesIndef" ELSE "Bytes"
                   [] mj = 3 -> IF inf = 31 THEN "StringIndef" ELSE "String"
                   [] mj = 4 -> IF inf = 31 THEN "ArrayIndef" ELSE "Array"
                   [] mj = 5 -> IF inf = 31 THEN "MapIndef" ELSE "Map"
                   [] mj = 6 -> "Tag"
                   [] mj = 7 -> CASE inf < 20 \/ inf = 24 -> "Simple" [] inf \in {20, 21} -> "Bool"
                                  [] inf = 22 -> "Null" [] inf = 23 -> "Undefined" [] inf = 25 -> "F16"
                                  [] inf = 26 -> "F32" [] inf = 27 -> "F64" [] inf = 31 -> "Break"
        IN {Ok(VType(t), p)}
=============================================================================
