------------------------------- MODULE MC_C13 -------------------------------
(* All sequences of raw write_all calls with lengths 0..cap+1 on every sink kind, capacities 0..MaxCap. *)
EXTENDS Sinks, Json
CONSTANTS MaxCap, MaxCalls
VARIABLES kind, cap, content, lens, res, live
vars == <<kind, cap, content, lens, res, live>>
\* byte j of the i-th chunk
ChunkBytes(i, n) == [j \in 1..n |-> (i * 16 + j) % 256]
Init == kind \in Kinds /\ cap \in 0..MaxCap /\ content = <<>> /\ lens = <<>> /\ res = <<>> /\ live = TRUE
Call == /\ Len(lens) < MaxCalls
        /\ \E n \in 0..(cap + 1) :
             LET r == WriteAll(kind, cap, content, ChunkBytes(Len(lens) + 1, n)) IN
             /\ lens' = Append(lens, n) /\ res' = Append(res, r.ok) /\ content' = r.content
        /\ UNCHANGED <<kind, cap, live>>
Next == Call
Emit == PrintT(<<"CASE", ToJson([fam |-> "sink", name |-> kind, in |-> [cap |-> cap, lens |-> lens'],
                                 exp |-> [res |-> res', content |-> content', position |-> Len(content'), canary |-> TRUE]])>>)
\* the cursor position is the number of bytes accepted; never beyond the capacity of a bounded sink
PositionLaw == Bounded(kind) => Len(content) <= cap
\* all-or-nothing: the content is the concatenation of exactly the accepted chunks
RECURSIVE Accepted(_)
Accepted(i) == IF i = 0 THEN <<>> ELSE Accepted(i - 1) \o (IF res[i] THEN ChunkBytes(i, lens[i]) ELSE <<>>)
WholeChunks == content = Accepted(Len(lens))
\* a write is refused exactly when it does not fit
RefusedIffNoFit == \A i \in 1..Len(lens) : res[i] = (~Bounded(kind) \/ Len(Accepted(i - 1)) + lens[i] <= cap)
=============================================================================
