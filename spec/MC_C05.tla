------------------------------- MODULE MC_C05 -------------------------------
(* Bounded model of C05: every (major, head width, boundary argument) triple, crossed with every   *)
(* target.  The Build phase spreads the fan-out over TLC's workers; each completed case is emitted *)
(* for replay on the implementation.                                                               *)
EXTENDS C05, TLC, Json
CONSTANT Tier
VARIABLES ph, mj, w, arg, pre

vars == <<ph, mj, w, arg, pre>>
Ks == IF Tier = "quick" THEN {0, 3, 4, 5, 7, 8, 9, 15, 16, 17, 31, 32, 33, 62, 63} ELSE 0..63
Ds == 0..3
Boundary == { Add(Pow2(k), FromNat(d)) : k \in Ks, d \in Ds } \cup { Sub(Pow2(k), FromNat(d)) : k \in Ks, d \in Ds }
            \cup { Sub(Max64, FromNat(d)) : d \in Ds } \cup { FromNat(n) : n \in 0..26 }
            \cup { FromNat(n) : n \in {55295, 55296, 57343, 57344, 1114111, 1114112} }
Widths == {0, 1, 2, 4, 8}
Fits(a, wd) == IF wd = 0 THEN IsSmall(a) /\ ToNat(a) < 24 ELSE FitsBytes(a, wd)
AccNames == IntTypes \cup {"char", "datatype"}
DecNames == DecTypes \cup {"char"}
WideTypes == {"u8", "u16", "u32", "u64", "i8", "i16", "i32", "i64", "u128", "i128"}

Init == ph = "major" /\ mj = 0 /\ w = 0 /\ arg = Zero64 /\ pre = 0
PickMajor == ph = "major" /\ mj' \in {0, 1} /\ ph' = "width" /\ UNCHANGED <<w, arg, pre>>
PickWidth == ph = "width" /\ w' \in Widths /\ ph' = "arg" /\ UNCHANGED <<mj, arg, pre>>
PickArg   == ph = "arg" /\ arg' \in { a \in Boundary : Fits(a, w) } /\ ph' = "cut" /\ UNCHANGED <<mj, w, pre>>
\* pre = number of bytes of the encoding kept (strict prefixes exercise the end-of-input rule)
PickCut   == ph = "cut" /\ pre' \in 0..(1 + w) /\ ph' = "done" /\ UNCHANGED <<mj, w, arg>>
Done      == ph = "done" /\ UNCHANGED vars
Next == PickMajor \/ PickWidth \/ PickArg \/ PickCut \/ Done

Buf == Prefix(HeadBytes(mj, arg, w), pre)
In  == [buf |-> Buf, pos |-> 0]
Case(fam, name, in) == PrintT(<<"CASE", ToJson([fam |-> fam, name |-> name, in |-> in, exp |-> Expect(fam, name, in)])>>)
\* emitted once per transition into a completed case
Emit == (ph' = "done" /\ ph = "cut") =>
           /\ \A n \in AccNames : Case("acc", n, [buf |-> Prefix(HeadBytes(mj, arg, w), pre'), pos |-> 0])
           /\ \A n \in DecNames : Case("dec", n, [buf |-> Prefix(HeadBytes(mj, arg, w), pre'), pos |-> 0])
           /\ (pre' = 1 + w /\ w = 8) =>
                 /\ \A n \in WideTypes : Case("int_into", n, [neg |-> mj = 1, mag |-> arg])
                 /\ Case("int_from", "i128", [neg |-> mj = 1, mag |-> Widen(arg)])
                 /\ Case("int_from", "i128", [neg |-> mj = 1, mag |-> <<0, 0, 0, 0, 0, 0, 0, 1>> \o arg])
                 /\ (mj = 0 => Case("int_from", "u128", [neg |-> FALSE, mag |-> Widen(arg)]))
                 /\ (mj = 0 => Case("int_from", "u128", [neg |-> FALSE, mag |-> <<0, 0, 0, 1, 0, 0, 0, 0>> \o arg]))

\* ---- invariants -----------------------------------------------------------------
\* the two definitions of representability agree
ReprAgree == ph = "done" => \A T \in IntTypes : Representable(T, mj = 1, arg) = ReprByBound(T, mj = 1, arg)
\* a complete encoding: the accessor of T succeeds iff representable, returns the mathematical value and the exact end
ValuePreserving == (ph = "done" /\ pre = 1 + w) => \A T \in IntTypes :
      IntAcc(T, Buf, 0) = IF Representable(T, mj = 1, arg) THEN {Ok(VInt(mj = 1, arg), Len(Buf))} ELSE {Err("*")}
\* the reported data type always names a type whose accessor accepts the item
DatatypeAccepts == (ph = "done" /\ pre = 1 + w) => \A r \in DatatypeAcc(Buf, 0) :
      r.p = "ok" /\ \E T \in IntTypes : TypeName(T) = r.v.ty /\ \E x \in IntAcc(T, Buf, 0) : x.p = "ok"
\* a strict prefix never succeeds
PrefixFails == (ph = "done" /\ pre < 1 + w) => \A T \in IntTypes : \A x \in IntAcc(T, Buf, 0) : x.p = "err"
\* wider is never stricter: whatever a narrow type accepts, every wider type of the same signedness accepts with the same value
Monotone == ph = "done" => \A T1, T2 \in {"u8", "u16", "u32", "u64"} : Bits(T1) <= Bits(T2) =>
               (Representable(T1, mj = 1, arg) => Representable(T2, mj = 1, arg))
=============================================================================
