INIT Init
NEXT Next
CONSTANT Frames <- FramesA
CONSTANT MaxLen = 3
CONSTANT MaxIntr = 2
CONSTANT MaxReads = 6
CONSTANT WVals <- WNone
CONSTANT WMaxLen = 0
CONSTANT MaxFaults = 0
VIEW view
ACTION_CONSTRAINT Emit
INVARIANT InOrder NeverValueFromCutFrame CleanEndOnlyAtBoundary UEofOnlyInsideFrame InvalidLenJustified BufferBounded AllDelivered
CHECK_DEADLOCK FALSE
