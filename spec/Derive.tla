------------------------------- MODULE Derive -------------------------------
(***************************************************************************)
(* The derive macros (properties C08, C09, C10, derived part of C07) as a  *)
(* function of a schema: the documented wire format DocEnc ("CBOR          *)
(* encoding" section of the minicbor-derive documentation) and what a      *)
(* reader with schema Rd must obtain from a value written with schema Wr     *)
(* (Project): the compatibility rules of the same documentation.           *)
(*                                                                         *)
(* Schemas carry no names: field and type names, declaration order and     *)
(* the n / b spelling are drawn by the generator and cannot influence the  *)
(* expected bytes.                                                         *)
(*                                                                         *)
(* struct  [kind "struct", enc "array"|"map", tag (-1 none), transparent,  *)
(*          shape "named"|"tuple", fields (ascending index)]               *)
(* field   [idx, opt, tag, ty, skip]                                       *)
(*         ty: "u8" "str" "bytes" (with = minicbor::bytes), borrowing text  *)
(*         / byte types (TextTys, BytesTys below), "cu" (custom             *)
(*         nil-aware codec) or a nested type: "inA" "inM" (structs),       *)
(*         "e2" "e2x" "e2u" (regular enums) "io" "iox" (index_only enums)  *)
(* enum    [kind "enum", enc, tag, index_only, variants]                   *)
(* variant [idx, enc, tag, shape "unit"|"tuple"|"named", fields]           *)
(* values  field value [some, n, b, sub]; struct value = sequence of field *)
(*         values; enum value [var (position), fv]                         *)
(***************************************************************************)
EXTENDS Builtin

F(idx, opt, tag, ty) == [idx |-> idx, opt |-> opt, tag |-> tag, ty |-> ty, skip |-> FALSE, osp |-> "plain"]
FSkip(idx)           == [idx |-> idx, opt |-> FALSE, tag |-> -1, ty |-> "u8", skip |-> TRUE, osp |-> "plain"]
(* an optional field need not be spelled `Option<T>` in the type definition: osp says how the generator writes it -    *)
(* "boxed" Box<Option<T>>, "alias" a type alias of Option<T>, "generic" a type parameter instantiated with Option<T>.  *)
(* The documented format depends on the value being absent, not on the spelling.                                      *)
Fo(idx, tag, ty, osp) == [idx |-> idx, opt |-> TRUE, tag |-> tag, ty |-> ty, skip |-> FALSE, osp |-> osp]
Struct(enc, tag, shape, fields) == [kind |-> "struct", enc |-> enc, tag |-> tag, transparent |-> FALSE, shape |-> shape, fields |-> fields]
Transparent(f)                  == [kind |-> "struct", enc |-> "array", tag |-> -1, transparent |-> TRUE, shape |-> "tuple", fields |-> <<f>>]
Variant(idx, enc, tag, shape, fields) == [idx |-> idx, enc |-> enc, tag |-> tag, shape |-> shape, fields |-> fields]
Enum(enc, tag, io, variants) == [kind |-> "enum", enc |-> enc, tag |-> tag, index_only |-> io, variants |-> variants]

\* ---- the nested types a field can have -----------------------------------------------
InA == Struct("array", -1, "named", <<F(0, FALSE, -1, "u8"), F(1, TRUE, -1, "u8")>>)
InM == Struct("map", -1, "named", <<F(0, FALSE, -1, "u8"), F(1, TRUE, -1, "u8")>>)
E2  == Enum("array", -1, FALSE, <<Variant(0, "array", -1, "unit", <<>>), Variant(1, "array", -1, "tuple", <<F(0, FALSE, -1, "u8")>>)>>)
\* E2 with one more variant (adding variants is compatible for an enum used as an optional field)
E2x == Enum("array", -1, FALSE, <<Variant(0, "array", -1, "unit", <<>>), Variant(1, "array", -1, "tuple", <<F(0, FALSE, -1, "u8")>>),
                                  Variant(2, "map", -1, "named", <<F(0, TRUE, -1, "u8"), F(1, FALSE, -1, "str")>>)>>)
\* E2 whose unit variant became a struct variant with only optional fields
E2u == Enum("array", -1, FALSE, <<Variant(0, "array", -1, "named", <<F(0, TRUE, -1, "u8"), F(1, TRUE, -1, "str")>>), Variant(1, "array", -1, "tuple", <<F(0, FALSE, -1, "u8")>>)>>)
\* E2 whose unit variant overrides the enum's encoding, and the same with that variant turned into a struct variant
E2m  == Enum("array", -1, FALSE, <<Variant(0, "map", -1, "unit", <<>>), Variant(1, "array", -1, "tuple", <<F(0, FALSE, -1, "u8")>>)>>)
E2mu == Enum("array", -1, FALSE, <<Variant(0, "map", -1, "named", <<F(0, TRUE, -1, "u8"), F(1, TRUE, -1, "str")>>), Variant(1, "array", -1, "tuple", <<F(0, FALSE, -1, "u8")>>)>>)
\* the other way round: a map-encoded enum whose unit variant is array-encoded
E2a  == Enum("map", -1, FALSE, <<Variant(0, "array", -1, "unit", <<>>), Variant(1, "map", -1, "tuple", <<F(0, FALSE, -1, "u8")>>)>>)
E2au == Enum("map", -1, FALSE, <<Variant(0, "array", -1, "tuple", <<F(0, TRUE, -1, "u8")>>), Variant(1, "map", -1, "tuple", <<F(0, FALSE, -1, "u8")>>)>>)
\* a regular (not index_only) enum all of whose variants are unit variants - on the wire still [index, []] - and a later version of it
EU  == Enum("array", -1, FALSE, <<Variant(0, "array", -1, "unit", <<>>), Variant(1, "array", -1, "unit", <<>>)>>)
EUx == Enum("array", -1, FALSE, <<Variant(0, "array", -1, "unit", <<>>), Variant(1, "array", -1, "unit", <<>>), Variant(2, "array", -1, "unit", <<>>),
                                  Variant(3, "array", -1, "tuple", <<F(0, FALSE, -1, "u8")>>)>>)
IO  == Enum("array", -1, TRUE, <<Variant(0, "array", -1, "unit", <<>>), Variant(1, "array", -1, "unit", <<>>)>>)
IOx == Enum("array", -1, TRUE, <<Variant(0, "array", -1, "unit", <<>>), Variant(1, "array", -1, "unit", <<>>), Variant(7, "array", -1, "unit", <<>>)>>)
Nested(ty) == CASE ty = "inA" -> InA [] ty = "inM" -> InM [] ty = "e2" -> E2 [] ty = "e2x" -> E2x [] ty = "e2u" -> E2u [] ty = "io" -> IO [] ty = "iox" -> IOx
                [] ty = "e2m" -> E2m [] ty = "e2mu" -> E2mu [] ty = "e2a" -> E2a [] ty = "e2au" -> E2au [] ty = "eu" -> EU [] ty = "eux" -> EUx
IsNestedTy(ty) == ty \in {"inA", "inM", "e2", "e2x", "e2u", "io", "iox", "e2m", "e2mu", "e2a", "e2au", "eu", "eux"}
IsEnumTy(ty) == ty \in {"e2", "e2x", "e2u", "io", "iox", "e2m", "e2mu", "e2a", "e2au", "eu", "eux"}

(* text and byte-string field types.  "str" String, "bytes" Vec<u8> with = minicbor::bytes; the others borrow from the    *)
(* decoding input (C09): "bstr" &str, "bslice" &ByteSlice, "bu8" &[u8] with = minicbor::bytes (all three also implicitly, *)
(* whatever the n / b spelling), "cowb" Cow<str> marked b (decoded as Cow::Borrowed); "cown" Cow<str> marked n owns.      *)
TextTys  == {"str", "bstr", "cowb", "cown"}
BytesTys == {"bytes", "bslice", "bu8", "cowbu8"}          \* "cowbu8": Cow<[u8]> marked b, with = minicbor::bytes (decoded as Cow::Borrowed)
(* "pcd" "pce" "pcb" "pcw": an optional u8 (Option<u8>, or by osp Box<Option<u8>> / a type alias of it) with a user codec   *)
(* that has no nil of its own and simply forwards to the type's own impls - given for decoding only (decode_with), for   *)
(* encoding only (encode_with), function by function, or as a module (with).  The documentation: a field with a codec is   *)
(* optional if its type is spelled Option<..> (absent = None), otherwise it takes part in the format like any mandatory  *)
(* field - always written, here as null when it holds None - and both directions agree on that whichever half is custom. *)
CodTys == {"pcd", "pce", "pcb", "pcw"}
(* "oo": Option<Option<u8>>.  Absent is the outer None only; Some(None) is a present value whose encoding is null (n = OoNone),    *)
(* Some(Some(n)) encodes as n.  Reading it back cannot tell Some(None) from None (the statement of C01 lists the shape as lossy), *)
(* so such schemas are used for what the encoder writes only (C08, C07).                                                           *)
OoNone == 256
MustBorrow(ty) == ty \in {"bstr", "bslice", "bu8", "cowb", "cowbu8"}
(* "any": a field whose value a newer writer produced by means unknown to this specification - any well-formed item.  Only   *)
(* writer schemas have it, and only readers that do not know the field ever see it: it must be ignored whatever it is (C10). *)
AnyItems == << <<27, 255, 255, 255, 255, 255, 255, 255, 255>>,            \* 2^64 - 1
               <<59, 255, 255, 255, 255, 255, 255, 255, 255>>,            \* -2^64
               <<27, 128, 0, 0, 0, 0, 0, 0, 0>>,                          \* 2^63
               <<193, 26, 95, 94, 16, 0>>,                                 \* 1(1600000000)
               <<159, 1, 191, 97, 97, 159, 255, 255, 255>>,                \* [_ 1, {_ "a": [_ ]}]
               <<127, 97, 97, 96, 98, 98, 99, 255>>,                       \* (_ "a", "", "bc")
               <<95, 65, 1, 64, 255>>,                                     \* (_ h'01', h'')
               <<249, 0, 1>>, <<248, 255>>, <<247>>,                       \* half, simple(255), undefined
               <<216, 42, 130, 1, 162, 1, 2, 3, 152, 1, 246>>,             \* 42([1, {1: 2, 3: [null]}]) with a non-minimal array head
               <<251, 127, 248, 0, 0, 0, 0, 0, 1>>,                        \* a NaN with payload
               <<162, 24, 100, 130, 1, 2, 130, 3, 4, 161, 0, 0>> >>        \* {100: [1, 2], [3, 4]: {0: 0}}
\* ---- values ----------------------------------------------------------------------------
FV(some, n, b, sub) == [some |-> some, n |-> n, b |-> b, sub |-> sub]
None == FV(FALSE, 0, <<>>, <<>>)
\* the custom codec's nil value (a field with this codec is nil when it holds it)
CuNil == 255
IsNil(f, x) == (f.opt /\ ~x.some) \/ (f.ty = "cu" /\ f.opt /\ x.n = CuNil)

\* ---- the documented encoding -------------------------------------------------------------
\* tag numbers: -1 none, a natural below 2^31, or a code for a number beyond TLC's integers: -2 is 2^32, -3 is 2^64 - 1
TagNum(t) == CASE t = -2 -> <<0, 0, 0, 1, 0, 0, 0, 0>> [] t = -3 -> Max64 [] OTHER -> FromNat(t)
TagPrefix(t) == IF t = -1 THEN <<>> ELSE PreferredHead(6, TagNum(t))
Uint(n) == PreferredHead(0, FromNat(n))
(* A perturbation pt = [site, i, how] damages exactly one tag of the top-level type: site "top" (the struct's / enum's   *)
(* tag), "var" (the variant's tag), "f" (the tag of field i of the body); how = "wrong" (another tag number) or         *)
(* "missing".  NoPt leaves the documented encoding.  (C09: a wrong or missing tag must be reported as an error.)        *)
NoPt == [site |-> "none", i |-> 0, how |-> "none", fr |-> "def"]
(* fr = "indef": every container of fields - struct bodies, variant bodies, the empty body of a unit variant, at every level  *)
(* of nesting - is written as an indefinite-length array / map (C09: "whether the input container is definite or indefinite"); *)
(* the [index, body] pair of an enum stays a definite 2-element array, which is what the documented format makes it.          *)
IndefPt == [site |-> "none", i |-> 0, how |-> "none", fr |-> "indef"]
TagP(t, hit, pt) == IF ~hit THEN TagPrefix(t) ELSE IF pt.how = "wrong" THEN PreferredHead(6, IF t = -3 THEN Dec(TagNum(t)) ELSE Inc(TagNum(t))) ELSE <<>>
RECURSIVE DocEncP(_, _, _), EncFieldF(_, _, _), EncBodyP(_, _, _, _), EncArrP(_, _, _, _, _), EncMapBP(_, _, _, _)
DocEnc(S, v) == DocEncP(S, v, NoPt)
\* the value of a field (not nil), without its tag
EncField(f, x) == EncFieldF(f, x, "def")
EncFieldF(f, x, fr) ==
   CASE f.ty = "u8"    -> Uint(x.n)
     [] f.ty \in TextTys  -> PreferredHead(3, FromNat(Len(x.b))) \o x.b
     [] f.ty \in BytesTys -> PreferredHead(2, FromNat(Len(x.b))) \o x.b
     [] f.ty = "cu"    -> Uint(x.n + 1000)
     [] f.ty \in CodTys -> (IF x.some THEN Uint(x.n) ELSE <<246>>)
     [] f.ty = "oo"    -> (IF x.n = OoNone THEN <<246>> ELSE Uint(x.n))
     [] f.ty = "any"   -> AnyItems[x.n]
     [] OTHER          -> DocEncP(Nested(f.ty), x.sub, [NoPt EXCEPT !.fr = fr])
Live(fields) == { i \in 1..Len(fields) : ~fields[i].skip }
Present(fields, v) == { i \in Live(fields) : ~IsNil(fields[i], v[i]) }
MaxOfSet(S) == CHOOSE x \in S : \A y \in S : y <= x
FieldAt(fields, pos) == { i \in Live(fields) : fields[i].idx = pos }
\* positions pos..last of an array-encoded body: the field at its index, null in gaps and for absent optional values
EncArrP(fields, v, pos, last, pt) == IF pos > last THEN <<>> ELSE
   (LET s == FieldAt(fields, pos) IN
    IF s = {} THEN <<246>>
    ELSE LET i == CHOOSE j \in s : TRUE IN
         \* an absent Option is null; a nil value of a custom nil-aware codec is written by that codec
         TagP(fields[i].tag, pt.site = "f" /\ pt.i = i, pt) \o (IF IsNil(fields[i], v[i]) /\ fields[i].ty # "cu" THEN <<246>> ELSE EncFieldF(fields[i], v[i], pt.fr)))
   \o EncArrP(fields, v, pos + 1, last, pt)
\* map-encoded body: index keys ascending, absent optional values omitted
EncMapBP(fields, v, i, pt) == IF i > Len(fields) THEN <<>> ELSE
   (IF i \in Present(fields, v) THEN Uint(fields[i].idx) \o TagP(fields[i].tag, pt.site = "f" /\ pt.i = i, pt) \o EncFieldF(fields[i], v[i], pt.fr) ELSE <<>>)
   \o EncMapBP(fields, v, i + 1, pt)
EncBodyP(enc, fields, v, pt) ==
   LET pr == Present(fields, v) IN
   IF enc = "array" THEN
      (IF pr = {} THEN (IF pt.fr = "indef" THEN <<159, 255>> ELSE <<128>>)
       ELSE LET last == MaxOfSet({ fields[i].idx : i \in pr }) IN
            IF pt.fr = "indef" THEN <<159>> \o EncArrP(fields, v, 0, last, pt) \o <<255>>
            ELSE PreferredHead(4, FromNat(last + 1)) \o EncArrP(fields, v, 0, last, pt))
   ELSE IF pt.fr = "indef" THEN <<191>> \o EncMapBP(fields, v, 1, pt) \o <<255>>
   ELSE PreferredHead(5, FromNat(Cardinality(pr))) \o EncMapBP(fields, v, 1, pt)
EncBody(enc, fields, v) == EncBodyP(enc, fields, v, NoPt)
DocEncP(S, v, pt) ==
   IF S.kind = "struct" THEN
      (IF S.transparent THEN EncFieldF(S.fields[1], v[1], pt.fr) ELSE TagP(S.tag, pt.site = "top", pt) \o EncBodyP(S.enc, S.fields, v, pt))
   ELSE LET va == S.variants[v.var] IN
        TagP(S.tag, pt.site = "top", pt) \o
        (IF S.index_only THEN Uint(va.idx)
         ELSE <<130>> \o Uint(va.idx) \o TagP(va.tag, pt.site = "var", pt) \o
              (IF va.shape = "unit" THEN (IF va.enc = "array" THEN (IF pt.fr = "indef" THEN <<159, 255>> ELSE <<128>>) ELSE (IF pt.fr = "indef" THEN <<191, 255>> ELSE <<160>>))
               ELSE EncBodyP(va.enc, va.fields, v.fv, pt)))
\* the places of a value's encoding where a tag stands (present fields only: an absent tagged field may be a bare null)
TagSites(S, v) ==
   IF S.kind = "struct" THEN
      (IF S.transparent THEN {} ELSE (IF S.tag # -1 THEN {[site |-> "top", i |-> 0]} ELSE {})
                                     \cup { [site |-> "f", i |-> i] : i \in { j \in Present(S.fields, v) : S.fields[j].tag # -1 } })
   ELSE LET va == S.variants[v.var] IN
        (IF S.tag # -1 THEN {[site |-> "top", i |-> 0]} ELSE {})
        \cup (IF S.index_only THEN {} ELSE
               (IF va.tag # -1 THEN {[site |-> "var", i |-> 0]} ELSE {})
               \cup (IF va.shape = "unit" THEN {} ELSE { [site |-> "f", i |-> i] : i \in { j \in Present(va.fields, v.fv) : va.fields[j].tag # -1 } }))
Perturbations(S, v) == { [site |-> x.site, i |-> x.i, how |-> h, fr |-> "def"] : x \in TagSites(S, v), h \in {"wrong", "missing"} }
\* the derived CborLen must be the length of exactly that
DerLen(S, v) == Len(DocEnc(S, v))

\* ---- what a reader with schema Rd obtains from a value written with schema Wr -----------------
(* "ok" with the reader's value, or "err" (a mandatory field is missing, or the top-level type is an enum and the      *)
(* variant is unknown).  Shared fields are equal, fields unknown to the writer are absent (None), fields unknown to     *)
(* the reader are ignored, an unknown variant in an optional field becomes None without disturbing its siblings,       *)
(* skipped fields take their default.                                                                                   *)
VarPos(E, idx) == { k \in 1..Len(E.variants) : E.variants[k].idx = idx }
RECURSIVE ProjFields(_, _, _), ProjVal(_, _, _), ProjField(_, _, _, _)
\* value of reader field g given writer fields/values; <<"ok", fv>> or <<"err">>
ProjField(g, wf, wv, i) ==
   IF i > Len(wf) THEN (IF g.opt THEN <<"ok", IF g.ty = "cu" THEN FV(TRUE, CuNil, <<>>, <<>>) ELSE None>> ELSE <<"err">>)
   ELSE IF wf[i].skip \/ wf[i].idx # g.idx THEN ProjField(g, wf, wv, i + 1)
   ELSE IF IsNil(wf[i], wv[i]) THEN (IF g.opt THEN <<"ok", IF g.ty = "cu" THEN FV(TRUE, CuNil, <<>>, <<>>) ELSE None>> ELSE <<"err">>)
   ELSE IF IsNestedTy(g.ty) THEN
        LET r == ProjVal(Nested(wf[i].ty), Nested(g.ty), wv[i].sub) IN
        IF r[1] = "ok" THEN <<"ok", FV(TRUE, 0, <<>>, r[2])>>
        ELSE IF r[1] = "unknown" /\ g.opt THEN <<"ok", None>>           \* unknown variant in an optional field
        ELSE <<"err">>
   ELSE <<"ok", FV(wv[i].some, wv[i].n, wv[i].b, <<>>)>>
ProjFields(rf, wf, wv) ==
   LET RECURSIVE Go(_, _)
       Go(j, acc) == IF j > Len(rf) THEN <<"ok", acc>>
                     ELSE IF rf[j].skip THEN Go(j + 1, Append(acc, FV(TRUE, 0, <<>>, <<>>)))
                     ELSE LET r == ProjField(rf[j], wf, wv, 1) IN IF r[1] = "ok" THEN Go(j + 1, Append(acc, r[2])) ELSE <<"err">>
   IN Go(1, <<>>)
\* <<"ok", value>> | <<"err">> | <<"unknown">> (unknown variant)
ProjVal(Wr, Rd, wv) ==
   IF Rd.kind = "struct" THEN ProjFields(Rd.fields, Wr.fields, wv)
   ELSE LET widx == Wr.variants[wv.var].idx  ps == VarPos(Rd, widx) IN
        IF ps = {} THEN <<"unknown">>
        ELSE LET k == CHOOSE x \in ps : TRUE
                 r == ProjFields(Rd.variants[k].fields, Wr.variants[wv.var].fields, wv.fv) IN
             IF r[1] = "ok" THEN <<"ok", [var |-> k, fv |-> r[2]]>> ELSE <<"err">>
Project(Wr, Rd, wv) == LET r == ProjVal(Wr, Rd, wv) IN IF r[1] = "ok" THEN r ELSE <<"err">>

\* ---- re-framings of an encoding that every derived decoder must accept ------------------------
\* the whole item with every array / map indefinite ("indef") or every head one width step wider ("wide"); strings stay definite
RECURSIVE EncFramed(_, _), EncFramedSeq(_, _)
WiderW(w) == CASE w = 0 -> 1 [] w = 1 -> 2 [] w = 2 -> 4 [] OTHER -> 8
FHead(mj, arg, m) == IF m = "wide" THEN HeadBytes(mj, arg, WiderW(PreferredWidth(arg))) ELSE PreferredHead(mj, arg)
EncFramedSeq(xs, m) == IF xs = <<>> THEN <<>> ELSE EncFramed(Head(xs), m) \o EncFramedSeq(Tail(xs), m)
EncFramed(x, m) ==
   CASE x.t = "int"    -> FHead(IF x.neg THEN 1 ELSE 0, x.mag, m)
     [] x.t = "bytes"  -> FHead(2, FromNat(Len(x.b)), m) \o x.b
     [] x.t = "text"   -> FHead(3, FromNat(Len(x.b)), m) \o x.b
     [] x.t = "arr"    -> IF m = "indef" THEN <<159>> \o EncFramedSeq(x.xs, m) \o <<255>> ELSE FHead(4, FromNat(Len(x.xs)), m) \o EncFramedSeq(x.xs, m)
     [] x.t = "map"    -> IF m = "indef" THEN <<191>> \o EncFramedSeq(x.xs, m) \o <<255>> ELSE FHead(5, FromNat(Len(x.xs) \div 2), m) \o EncFramedSeq(x.xs, m)
     [] x.t = "tag"    -> FHead(6, x.n, m) \o EncFramed(x.x, m)
     [] OTHER          -> Enc(x)
\* the outermost container of the body written with a wider head, or as an indefinite-length container
TopHeadOffset(S) == IF S.tag = -1 THEN 0 ELSE Len(TagPrefix(S.tag))
WiderTop(S, b) == LET p == TopHeadOffset(S)  h == HeadAt(b, p) IN
   IF h.major \in {4, 5} /\ h.hl = 1 THEN SubSeq(b, 1, p) \o HeadBytes(h.major, h.arg, 2) \o SubSeq(b, p + 2, Len(b)) ELSE b
IndefTop(S, b) == LET p == TopHeadOffset(S)  h == HeadAt(b, p) IN
   IF h.major \in {4, 5} THEN SubSeq(b, 1, p) \o IndefHead(h.major) \o SubSeq(b, p + h.hl + 1, Len(b)) \o <<255>> ELSE b
=============================================================================
