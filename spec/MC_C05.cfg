INIT Init
NEXT Next
CONSTANT Tier = "quick"
ACTION_CONSTRAINT Emit
INVARIANT ReprAgree ValuePreserving DatatypeAccepts PrefixFails Monotone
CHECK_DEADLOCK FALSE
