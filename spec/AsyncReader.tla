---------------------------- MODULE AsyncReader ----------------------------
(***************************************************************************)
(* minicbor_io::AsyncReader under an adversarial source and an impatient   *)
(* caller (property C15).                                                  *)
(*                                                                         *)
(* The byte stream is the concatenation of frames (4-byte big-endian       *)
(* length, then the payload), cut after Cut bytes.  Bytes carry their      *)
(* identity <<frame, part, index>> so that loss, duplication and tearing   *)
(* are visible.  The source answers each inner read with one of            *)
(*   Deliver(k)  1 <= k <= min(wanted, available) bytes                    *)
(*   Pending     the future suspends; the caller then resumes or drops it  *)
(*   Fail        a transient I/O error                                     *)
(*   Eof         only when the (cut) stream is exhausted                   *)
(* One action per loop iteration of read_with; the caller actions are      *)
(* Start (create a future and poll it), Resume (poll again), Drop.         *)
(*                                                                         *)
(* `sched` records the environment's and the caller's choices; it is the   *)
(* script replayed on the implementation and is hidden from the state      *)
(* space by a VIEW.                                                        *)
(***************************************************************************)
EXTENDS Integers, Sequences, FiniteSets, TLC

CONSTANTS Frames,     \* sequence of [n |-> payload length, good |-> payload decodes]
          MaxLen,     \* the reader's max_len
          MaxPend,    \* bound on consecutive Pending outcomes
          MaxErr,     \* bound on transient errors
          MaxReads,   \* bound on read() calls the caller starts (negative: unbounded, for the liveness configuration)
          KeepSched   \* TRUE: sched is the whole history (replay scripts); FALSE: only the last event (finite state space for liveness)

NF == Len(Frames)
RECURSIVE StreamFrom(_)
StreamFrom(f) == IF f > NF THEN <<>> ELSE
    [i \in 1..4 |-> <<f, 0, i>>] \o [i \in 1..Frames[f].n |-> <<f, 1, i>>] \o StreamFrom(f + 1)
Full   == StreamFrom(1)
Total  == Len(Full)
RECURSIVE FrameEnd(_)
FrameEnd(f) == IF f = 0 THEN 0 ELSE FrameEnd(f - 1) + 4 + Frames[f].n      \* offset after frame f

VARIABLES cut,        \* number of stream bytes that exist (chosen initially; Total = uncut)
          tag,        \* "len" | "val"            State::ReadLen / State::ReadVal
          lenbuf,     \* prefix bytes read so far (State::ReadLen(buf, o))
          need,       \* length of the frame being read (buffer.len())
          off,        \* payload bytes read so far (State::ReadVal(o))
          buf,        \* payload bytes read so far
          fut,        \* "none" | "run" | "susp"   the caller's current future
          rd,         \* bytes consumed from the source
          out,        \* results returned to the caller, in order
          npend, nerr, nreads,
          sched       \* history of environment / caller choices (hidden by VIEW)
vars == <<cut, tag, lenbuf, need, off, buf, fut, rd, out, npend, nerr, nreads, sched>>
view == <<cut, tag, lenbuf, need, off, buf, fut, rd, out, npend, nerr, nreads>>

Stream == SubSeq(Full, 1, cut)
Avail == Len(Stream) - rd
Init == /\ cut \in 0..Total
        /\ tag = "len" /\ lenbuf = <<>> /\ need = 0 /\ off = 0 /\ buf = <<>>
        /\ fut = "none" /\ rd = 0 /\ out = <<>> /\ npend = 0 /\ nerr = 0 /\ nreads = 0 /\ sched = <<>>

Ret(r) == out' = Append(out, r) /\ fut' = "none" /\ UNCHANGED cut
Log(e) == sched' = IF KeepSched THEN Append(sched, e) ELSE <<e>>

\* ---- caller ---------------------------------------------------------------------
Start  == /\ fut = "none" /\ (MaxReads < 0 \/ nreads < MaxReads) /\ nreads' = (IF MaxReads < 0 THEN 0 ELSE nreads + 1) /\ fut' = "run" /\ Log([a |-> "start", k |-> 0])
          /\ UNCHANGED <<cut, tag, lenbuf, need, off, buf, rd, out, npend, nerr>>
Resume == /\ fut = "susp" /\ fut' = "run" /\ Log([a |-> "resume", k |-> 0])
          /\ UNCHANGED <<cut, tag, lenbuf, need, off, buf, rd, out, npend, nerr, nreads>>
Drop   == /\ fut = "susp" /\ fut' = "none" /\ Log([a |-> "drop", k |-> 0])
          /\ UNCHANGED <<cut, tag, lenbuf, need, off, buf, rd, out, npend, nerr, nreads>>

\* ---- one loop iteration of read_with while the future is being polled -------------
\* the frame whose prefix sits in lenbuf (all four bytes belong to one frame when the reader is in sync)
PrefixFrame == lenbuf[1][1]
InSync == \A i \in 1..Len(lenbuf) : lenbuf[i] = <<PrefixFrame, 0, i>>
LenComplete == /\ fut = "run" /\ tag = "len" /\ Len(lenbuf) = 4
               /\ LET n == IF InSync THEN Frames[PrefixFrame].n ELSE MaxLen + 1 IN     \* out of sync: garbage length
                  IF n > MaxLen THEN Ret(<<"invalid_len">>) /\ UNCHANGED <<tag, lenbuf, need, off, buf>>
                  ELSE tag' = "val" /\ need' = n /\ off' = 0 /\ buf' = <<>> /\ UNCHANGED <<lenbuf, fut, out, cut>>
               /\ UNCHANGED <<rd, npend, nerr, nreads, sched>>
\* the payload handed to the decoder
\* (an empty payload never decodes: there is no CBOR item of length 0)
Decoded(b) == IF b # <<>> /\ (\A i \in 1..Len(b) : b[i] = <<b[1][1], 1, i>>) /\ Len(b) = Frames[b[1][1]].n /\ Frames[b[1][1]].good
              THEN <<"val", b[1][1]>> ELSE <<"decode_err">>
ValComplete == /\ fut = "run" /\ tag = "val" /\ off >= need
               /\ tag' = "len" /\ lenbuf' = <<>> /\ Ret(Decoded(buf))
               /\ UNCHANGED <<need, off, buf, rd, npend, nerr, nreads, sched>>
Want    == IF tag = "len" THEN 4 - Len(lenbuf) ELSE need - off
Reading == fut = "run" /\ ((tag = "len" /\ Len(lenbuf) < 4) \/ (tag = "val" /\ off < need))
Min(a, b) == IF a < b THEN a ELSE b
\* (DeliverK(k): the action for a given k - what a recorded event binds)
DeliverK(k) == /\ Reading /\ Avail > 0 /\ k \in 1..Min(Want, Avail)
               /\ LET got == SubSeq(Stream, rd + 1, rd + k) IN
                  /\ rd' = rd + k /\ Log([a |-> "deliver", k |-> k])
                  /\ IF tag = "len" THEN lenbuf' = lenbuf \o got /\ UNCHANGED <<off, buf>>
                     ELSE buf' = buf \o got /\ off' = off + k /\ UNCHANGED lenbuf
               /\ npend' = 0 /\ UNCHANGED <<cut, tag, need, fut, out, nerr, nreads>>
Deliver == \E k \in 1..Min(Want, Avail) : DeliverK(k)
Eof     == /\ Reading /\ Avail = 0 /\ Log([a |-> "eof", k |-> 0])
           /\ Ret(IF tag = "len" /\ Len(lenbuf) = 0 THEN <<"end">> ELSE <<"unexpected_eof">>)
           /\ UNCHANGED <<tag, lenbuf, need, off, buf, rd, npend, nerr, nreads>>
Pending == /\ Reading /\ npend < MaxPend /\ npend' = npend + 1 /\ fut' = "susp" /\ Log([a |-> "pending", k |-> 0])
           /\ UNCHANGED <<cut, tag, lenbuf, need, off, buf, rd, out, nerr, nreads>>
Fail    == /\ Reading /\ nerr < MaxErr /\ nerr' = nerr + 1 /\ Ret(<<"io_error">>) /\ Log([a |-> "fail", k |-> 0])
           /\ UNCHANGED <<tag, lenbuf, need, off, buf, rd, npend, nreads>>
Next == Start \/ Resume \/ Drop \/ LenComplete \/ ValComplete \/ Deliver \/ Eof \/ Pending \/ Fail
Spec == Init /\ [][Next]_vars

\* ---- properties -------------------------------------------------------------------
IsVal(r) == r[1] \in {"val", "decode_err"}
Vals == SelectSeq(out, IsVal)                     \* one entry per completed frame
Count(kind) == Len(SelectSeq(out, LAMBDA r : r[1] = kind))
\* the frames handed out are exactly the frames written, in order: nothing lost, duplicated or torn;
\* a payload that does not decode is reported for its own frame and does not disturb its successors
InOrderNoLossNoDupNoTear ==
   \A i \in 1..Len(Vals) : i <= NF /\ Vals[i] = IF Frames[i].good THEN <<"val", i>> ELSE <<"decode_err">>
\* no value is ever produced from a frame the cut stream does not contain completely
NeverValueFromCutFrame == \A i \in 1..Len(Vals) : FrameEnd(i) <= cut
\* a clean end is only reported at a frame boundary, after every complete frame was handed out
CleanEndOnlyAtBoundary == \A i \in 1..Len(out) : out[i] = <<"end">> =>
     \E f \in 0..NF : FrameEnd(f) = cut /\ Len(SelectSeq(SubSeq(out, 1, i), IsVal)) = f
\* unexpected-eof only when the stream ends inside a frame
UEofOnlyInsideFrame == \A i \in 1..Len(out) : out[i] = <<"unexpected_eof">> => ~\E f \in 0..NF : FrameEnd(f) = cut
\* a transient error is reported exactly once
ErrorsReportedOnce == Count("io_error") = nerr
\* invalid_len only for a frame that really exceeds the maximum
InvalidLenJustified == Count("invalid_len") > 0 => \E f \in 1..NF : Frames[f].n > MaxLen /\ Len(Vals) = f - 1
\* the reader never buffers more than max_len for a frame
BufferBounded == Len(buf) <= MaxLen /\ need <= MaxLen /\ off <= need
\* the reader stays in sync with the frame structure
StaysInSync == lenbuf = <<>> \/ InSync

(* ---- liveness ----------------------------------------------------------------------------------------------------------  *)
(* A caller that stops after a terminal result (clean end, unexpected end, invalid length) and otherwise keeps reading; a   *)
(* source that, when asked, eventually delivers or ends (it cannot answer Pending or fail forever: MaxPend, MaxErr); an      *)
(* executor that keeps polling.  Then every read terminates and the conversation reaches a terminal result, by which time    *)
(* every complete frame in front of the first over-long one has been handed out - however often futures were dropped.       *)
Terminal == out # <<>> /\ out[Len(out)][1] \in {"end", "unexpected_eof", "invalid_len"}
StartL == ~Terminal /\ Start
NextL == StartL \/ Resume \/ Drop \/ LenComplete \/ ValComplete \/ Deliver \/ Eof \/ Pending \/ Fail
LiveSpec == /\ Init /\ [][NextL]_vars
            /\ WF_vars(StartL) /\ WF_vars(Resume) /\ WF_vars(LenComplete) /\ WF_vars(ValComplete)
            /\ SF_vars(Deliver) /\ SF_vars(Eof)
RECURSIVE FirstTooLong(_)
FirstTooLong(f) == IF f > NF THEN NF + 1 ELSE IF Frames[f].n > MaxLen THEN f ELSE FirstTooLong(f + 1)
\* frames that are completely inside the cut stream and in front of the first frame the reader must refuse
Deliverable == Cardinality({ f \in 1..NF : FrameEnd(f) <= cut /\ f < FirstTooLong(1) })
EventuallyTerminal == <>Terminal
AllDeliveredAtEnd  == [](Terminal => Len(Vals) = Deliverable)
NoReadHangs        == [](fut = "run" => <>(fut # "run"))
=============================================================================
