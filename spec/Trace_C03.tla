------------------------------ MODULE Trace_C03 ------------------------------
(* Trace validation for C03: single Encoder calls and call sequences.                                         *)
(* A single call must append exactly the preferred head (+ payload).  A call sequence must produce exactly    *)
(* the concatenation of its calls' bytes; when the sequence is balanced that is one well-formed item.         *)
EXTENDS Encoder, TLC, Json, IOUtils
VARIABLE l
Rec == ndJsonDeserialize(IOEnv.TRACE)
SeqExpect(cs) == IF \E i \in 1..Len(cs) : CallBytes(cs[i]) = <<-1>> THEN {Err("*")}
                 ELSE {Ok(VBytes(CallsBytes(cs)), Len(CallsBytes(cs)))}
Expect(e) == CASE e.fam = "enc"    -> EncCall(e.in)
               [] e.fam = "encseq" -> SeqExpect(e.in.calls)
               [] e.fam = "encf"   -> EncFloat(e.name, e.in.bits)
               [] e.fam = "encit"  -> EncIter(e.in)
\* a balanced sequence yields exactly one well-formed item (checked on the implementation's own bytes)
BalancedWF(e) == (e.fam = "encseq" /\ e.obs.p = "ok" /\ Balanced(e.in.calls)) => WellFormedItem(e.obs.v.b)
EventOK(e) == FObsOK(e.obs, Expect(e)) /\ BalancedWF(e)
Init == l = 1
Next == /\ l <= Len(Rec) /\ l' = l + 1
        /\ IF EventOK(Rec[l]) THEN TRUE ELSE PrintT(<<"MISMATCH", l, ToJson(Rec[l])>>)
AllConsumed == TLCGet("stats").diameter - 1 = Len(Rec) \/ PrintT(<<"NOTCONSUMED", TLCGet("stats").diameter - 1, Len(Rec)>>)
=============================================================================
