------------------------------ MODULE Trace_C05 ------------------------------
(* Trace validation for C05: every recorded call of the implementation must be an outcome the     *)
(* specification allows.  Never blocks: an unexplained event is reported and the next one checked. *)
EXTENDS C05, TLC, Json, IOUtils
VARIABLE l
Rec == ndJsonDeserialize(IOEnv.TRACE)
EventOK(e) == ObsOK(e.obs, Expect(e.fam, e.name, e.in))
Init == l = 1
Next == /\ l <= Len(Rec) /\ l' = l + 1
        /\ IF EventOK(Rec[l]) THEN TRUE ELSE PrintT(<<"MISMATCH", l, ToJson(Rec[l])>>)
AllConsumed == TLCGet("stats").diameter - 1 = Len(Rec) \/ PrintT(<<"NOTCONSUMED", TLCGet("stats").diameter - 1, Len(Rec)>>)
=============================================================================
