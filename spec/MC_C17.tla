------------------------------- MODULE MC_C17 -------------------------------
(* For every type of the serde family (SerdeTable), a boundary set of its values and every input mode: the documented  *)
(* representation is one well-formed item (preferred in the reference mode), the alternative modes carry the same data   *)
(* item, and each (type, bytes, value) is emitted: the bridge must deserialise the bytes to that value, consuming them   *)
(* exactly, and serialise the value back to the reference bytes.                                                          *)
EXTENDS SerdeTable, TLC, Json
VARIABLES ph, ty, val, mode
vars == <<ph, ty, val, mode>>
Init == ph = "ty" /\ ty = "p_u8" /\ val = [k |-> "unit"] /\ mode = "ref"
Next == \/ ph = "ty" /\ ty' \in SNames /\ ph' = "val" /\ UNCHANGED <<val, mode>>
        \/ ph = "val" /\ val' \in SVals(STable[ty]) /\ ph' = "mode" /\ UNCHANGED <<ty, mode>>
        \/ ph = "mode" /\ mode' \in Modes \cup {"allindef"} /\ ph' = "done" /\ UNCHANGED <<ty, val>>
D == STable[ty]
Ref == SerEnc(D, val)
Bytes == SerEncM(D, val, mode)
Emit == (ph' = "done") =>
   LET b == SerEncM(D, val, mode')  r == SerEnc(D, val) IN
   (mode' = "ref" \/ b # r) =>          \* a mode that changes nothing for this value is the reference case again
   PrintT(<<"CASE", ToJson([fam |-> "serde", name |-> ty, in |-> [bytes |-> b, mode |-> mode'],
                            exp |-> [dec |-> val, pos |-> Len(b), reenc |-> r, must |-> (mode' # "allindef")]])>>)
RefWellFormed == ph = "done" => WellFormedItem(Bytes)
RefPreferred  == (ph = "done" /\ mode = "ref" /\ ~HasIndef(Bytes, 0)) => IsPreferred(Bytes)
SameItem      == (ph = "done" /\ mode \in {"wide", "indef", "allindef"}) => Tree(Bytes) = Tree(Ref)
=============================================================================
