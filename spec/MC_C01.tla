------------------------------- MODULE MC_C01 -------------------------------
(* For every named instantiation of a built-in impl and a boundary set of its values: the reference encoding is one  *)
(* well-formed item in preferred form; each (type, encoding, value) is emitted: the implementation must decode the   *)
(* bytes to that value, consuming them exactly, re-encode it to the same bytes, and report that length.              *)
EXTENDS Builtin, TLC, Json
VARIABLES ph, ty, val
vars == <<ph, ty, val>>
Init == ph = "ty" /\ ty = "u8" /\ val = [k |-> "unit"]
Next == \/ ph = "ty" /\ ty' \in TypeNames /\ ph' = "val" /\ UNCHANGED val
        \/ ph = "val" /\ val' \in ValsOf(TypeTable[ty]) /\ ph' = "done" /\ UNCHANGED ty
D == TypeTable[ty]
Bytes == EncV(D, val)
Emit == (ph' = "done") =>
   LET b == EncV(TypeTable[ty], val') IN
   PrintT(<<"CASE", ToJson([fam |-> "typed", name |-> ty, in |-> [bytes |-> b],
                            exp |-> [dec |-> val', pos |-> Len(b), reenc |-> b, len |-> Len(b), unordered |-> HasUnordered(TypeTable[ty])]])>>)
\* the reference encoding of every value is exactly one well-formed item in preferred serialisation (a bare Tag is a head only)
RefWellFormed == (ph = "done" /\ D.d # "tag") => WellFormedItem(Bytes) /\ IsPreferred(Bytes)
RefIsEncoding == ph = "done" => IsEncodingOf(D, val, Bytes)
=============================================================================
