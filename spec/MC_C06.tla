------------------------------- MODULE MC_C06 -------------------------------
(* Bounded model of C06.  The input is grown token by token (Build), then the skip loop runs on it.   *)
(* Every token sequence up to MaxTok over the alphabet is explored: well-formed items with any suffix, *)
(* strict prefixes and ill-formed sequences alike.  Each input is also emitted for replay (S->I).      *)
EXTENDS Skip, TLC, Json
CONSTANTS MaxTok, Rich
VARIABLE ntok
vars == <<buf, pos, nr, ir, st, status, steps, ntok>>

\* the 12 head kinds that switch the algorithm between counting mode and stack mode
Core == { <<1>>, <<193>>, <<128>>, <<129>>, <<130>>, <<131>>, <<160>>, <<161>>, <<162>>, <<159>>, <<191>>, <<255>> }
\* more shapes: wider heads, strings (definite, chunked, empty chunked), floats, simple, negative ints
More == { <<24, 100>>, <<57, 1, 0>>, <<97, 97>>, <<66, 0, 255>>, <<95, 65, 0, 64, 255>>, <<127, 97, 98, 255>>, <<95, 255>>,
          <<152, 2>>, <<184, 1>>, <<216, 32>>, <<249, 60, 0>>, <<248, 32>>, <<246>>, <<153, 0, 1>> }
Toks == IF Rich THEN Core \cup More ELSE Core

Init == buf = <<>> /\ pos = 0 /\ nr = 1 /\ ir = 0 /\ st = <<>> /\ status = "build" /\ steps = 0 /\ ntok = 0
Build == /\ status = "build" /\ UNCHANGED <<pos, nr, ir, st, steps>>
         /\ \/ ntok < MaxTok /\ (\E t \in Toks : buf' = buf \o t) /\ ntok' = ntok + 1 /\ status' = "build"
            \/ buf' = buf /\ ntok' = ntok /\ status' = "run"
Run == SkipStep /\ UNCHANGED ntok
Next == Build \/ Run

Emit == (status = "build" /\ status' = "run") =>
   PrintT(<<"CASE", ToJson([fam |-> "acc", name |-> "skip", in |-> [buf |-> buf, pos |-> 0],
                            exp |-> SkipExpect(Alloc, buf, 0)])>>)

E == ItemEnd(buf, 0)
Running == status \notin {"build"}
\* the machine refines the property layer
Refines  == SkipDone /\ Running =>
               \E x \in SkipExpect(Alloc, buf, 0) :
                  CASE x.p = "ok"  -> status = "ok" /\ pos = x.pos
                    [] x.p = "err" -> status \in {"err", "unsupported"}
                    [] x.p = "any" -> TRUE
\* the individual clauses, stated separately
SkipOK      == (SkipDone /\ status = "ok" /\ E >= 0) => pos = E
SkipAccepts == (SkipDone /\ Running /\ E >= 0) => (status = "ok" \/ (~Alloc /\ status = "unsupported" /\ NestedIndef(buf, 0, FALSE)))
SkipPrefix  == (SkipDone /\ Running /\ E = Trunc) => status # "ok"
NoOverrun   == (status = "run" /\ E >= 0) => pos <= E
Bounded     == pos <= Len(buf) /\ Len(st) <= Len(buf) + 1
\* work proportional to the input: every iteration but the last consumes at least one byte
WorkLinear  == steps <= Len(buf) + 1
\* the one-pass scan of the property layer and the RFC item boundary of CborWire are the same function
ScanAgrees == Scan(buf, 0, FALSE).e = E
\* the refusal only exists without alloc
RefusalOnlyNoAlloc == status = "unsupported" => ~Alloc
=============================================================================
