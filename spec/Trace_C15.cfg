INIT TInit
NEXT TNext
CONSTANT Frames <- TrFrames
CONSTANT MaxLen <- TrMaxLen
CONSTANT MaxPend <- Big
CONSTANT MaxErr <- Big
CONSTANT MaxReads <- Big
CONSTANT KeepSched = TRUE
CONSTRAINT Progress
INVARIANT InOrderNoLossNoDupNoTear NeverValueFromCutFrame CleanEndOnlyAtBoundary UEofOnlyInsideFrame ErrorsReportedOnce InvalidLenJustified BufferBounded StaysInSync
POSTCONDITION Accepted
CHECK_DEADLOCK FALSE
