//! C11: token streams.  Projection of Token values to the specification's token records (which have the
//! shape of the Encoder call producing them) and back.
use crate::abs::{bytes, get_bytes, get_u64, u64b};
use minicbor::data::{Int, Tag, Token};
use serde_json::{json, Value};

pub fn tok_json(t: &Token) -> Value {
    let int = |v: i128| { if v >= 0 { json!({"m":"int","neg":false,"mag":u64b(v as u64)}) } else { json!({"m":"int","neg":true,"mag":u64b((-1 - v) as u64)}) } };
    match *t {
        Token::Bool(b) => json!({"m":"bool","b":b}),
        Token::U8(n) => int(n as i128), Token::U16(n) => int(n as i128), Token::U32(n) => int(n as i128), Token::U64(n) => int(n as i128),
        Token::I8(n) => int(n as i128), Token::I16(n) => int(n as i128), Token::I32(n) => int(n as i128), Token::I64(n) => int(n as i128),
        Token::Int(n) => int(i128::from(n)),
        Token::F16(x) => json!({"m":"f16","bits":bytes(&x.to_bits().to_be_bytes())}),
        Token::F32(x) => json!({"m":"f32","bits":bytes(&x.to_bits().to_be_bytes())}),
        Token::F64(x) => json!({"m":"f64","bits":bytes(&x.to_bits().to_be_bytes())}),
        Token::Bytes(b) => json!({"m":"bytes","b":bytes(b)}),
        Token::String(s) => json!({"m":"str","b":bytes(s.as_bytes())}),
        Token::Array(n) => json!({"m":"array","n":u64b(n)}),
        Token::Map(n) => json!({"m":"map","n":u64b(n)}),
        Token::Tag(t) => json!({"m":"tag","n":u64b(t.as_u64())}),
        Token::Simple(n) => json!({"m":"simple","i":n}),
        Token::Break => json!({"m":"end"}),
        Token::Null => json!({"m":"null"}),
        Token::Undefined => json!({"m":"undefined"}),
        Token::BeginBytes => json!({"m":"begin_bytes"}),
        Token::BeginString => json!({"m":"begin_str"}),
        Token::BeginArray => json!({"m":"begin_array"}),
        Token::BeginMap => json!({"m":"begin_map"})
    }
}

/// Owned storage for tokens built from JSON.
pub struct Arena { pub strs: Vec<String>, pub bufs: Vec<Vec<u8>> }

pub fn toks_from_json<'a>(v: &Value, arena: &'a mut Arena) -> Option<Vec<Token<'a>>> {
    let arr = v.as_array()?;
    for t in arr {
        match t["m"].as_str()? {
            "str" => arena.strs.push(String::from_utf8(get_bytes(&t["b"])).ok()?),
            "bytes" => arena.bufs.push(get_bytes(&t["b"])),
            _ => {}
        }
    }
    let (mut si, mut bi) = (0, 0);
    let mut out = Vec::new();
    for t in arr {
        out.push(match t["m"].as_str()? {
            "int" => { let mag = get_u64(&t["mag"]) as i128; let v = if t["neg"].as_bool()? { -1 - mag } else { mag }; Token::Int(Int::try_from(v).ok()?) }
            "bool" => Token::Bool(t["b"].as_bool()?), "null" => Token::Null, "undefined" => Token::Undefined,
            "simple" => Token::Simple(t["i"].as_u64()? as u8),
            "f16" => { let b = get_bytes(&t["bits"]); Token::F16(f32::from_bits(u32::from_be_bytes([b[0], b[1], b[2], b[3]]))) }
            "f32" => { let b = get_bytes(&t["bits"]); Token::F32(f32::from_bits(u32::from_be_bytes([b[0], b[1], b[2], b[3]]))) }
            "f64" => { let b = get_bytes(&t["bits"]); let mut a = [0u8; 8]; a.copy_from_slice(&b); Token::F64(f64::from_bits(u64::from_be_bytes(a))) }
            "str" => { si += 1; Token::String(&arena.strs[si - 1]) }
            "bytes" => { bi += 1; Token::Bytes(&arena.bufs[bi - 1]) }
            "array" => Token::Array(get_u64(&t["n"])), "map" => Token::Map(get_u64(&t["n"])), "tag" => Token::Tag(Tag::new(get_u64(&t["n"]))),
            "end" => Token::Break, "begin_bytes" => Token::BeginBytes, "begin_str" => Token::BeginString,
            "begin_array" => Token::BeginArray, "begin_map" => Token::BeginMap,
            _ => return None
        });
    }
    Some(out)
}

/// Tokenise a byte string; then re-encode the tokens.
pub fn op_bytes(buf: &[u8]) -> Value {
    let mut toks: Vec<Token> = Vec::new();
    let mut err = false;
    let mut count = 0usize;
    for t in minicbor::decode::Tokenizer::new(buf) {
        count += 1;
        if count > buf.len() + 8 { break }                 // the bound is checked by the specification; never loop here
        match t { Ok(t) => toks.push(t), Err(_) => { err = true } }
    }
    // the same stream through a tokenizer that borrows a decoder (Decoder::tokens): it must be the same sequence of results
    let mut owned: Vec<Option<Value>> = Vec::new();
    for (i, t) in minicbor::decode::Tokenizer::new(buf).enumerate() { if i > buf.len() + 8 { break } owned.push(t.ok().map(|t| tok_json(&t))) }
    let mut d = minicbor::Decoder::new(buf);
    let mut borrowed: Vec<Option<Value>> = Vec::new();
    for (i, t) in d.tokens().enumerate() { if i > buf.len() + 8 { break } borrowed.push(t.ok().map(|t| tok_json(&t))) }
    let mut e = minicbor::Encoder::new(Vec::new());
    let reenc_ok = e.tokens(toks.iter()).is_ok();
    let re = e.into_writer();
    json!({"p":"run","toks": toks.iter().map(tok_json).collect::<Vec<_>>(), "err": err, "count": count, "bcount": borrowed.len(), "bsame": owned == borrowed,
           "reenc": bytes(&re), "reenc_ok": reenc_ok})
}

/// Encode a token sequence, then tokenise the bytes.
pub fn op_toks(v: &Value) -> Value {
    let mut arena = Arena { strs: vec![], bufs: vec![] };
    let toks = match toks_from_json(v, &mut arena) { Some(t) => t, None => return json!({"p":"unsupported"}) };
    let mut e = minicbor::Encoder::new(Vec::new());
    if e.tokens(toks.iter()).is_err() { return json!({"p":"run","enc_ok":false,"bytes":[],"toks":[],"err":false}) }
    let b = e.into_writer();
    let mut back = Vec::new();
    let mut err = false;
    for t in minicbor::decode::Tokenizer::new(&b) { match t { Ok(t) => back.push(tok_json(&t)), Err(_) => err = true } }
    json!({"p":"run","enc_ok":true,"bytes":bytes(&b),"toks":back,"err":err})
}

fn norm(t: &Value) -> Value {
    if t["m"] == "simple" {
        match t["i"].as_u64() { Some(20) => return json!({"m":"bool","b":false}), Some(21) => return json!({"m":"bool","b":true}),
                                Some(22) => return json!({"m":"null"}), Some(23) => return json!({"m":"undefined"}), _ => {} }
    }
    t.clone()
}

/// Comparison for replayed token cases.
pub fn matches(name: &str, obs: &Value, exp: &Value) -> bool {
    if obs["p"] != "run" { return false }
    if name == "bytes" {
        if obs["count"].as_u64().unwrap_or(u64::MAX) > exp["maxcount"].as_u64().unwrap() { return false }
        if obs["bcount"].as_u64().unwrap_or(u64::MAX) > exp["maxcount"].as_u64().unwrap() || obs["bsame"] != true { return false }
        if exp["pinned"] == true { return obs["err"] == false && obs["toks"] == exp["toks"] && obs["reenc_ok"] == true && obs["reenc"] == exp["reenc"] }
        true
    } else {
        let back: Vec<Value> = obs["toks"].as_array().map(|a| a.iter().map(norm).collect()).unwrap_or_default();
        obs["enc_ok"] == true && obs["err"] == false && obs["bytes"] == exp["bytes"] && Value::Array(back) == exp["toks"]
    }
}
