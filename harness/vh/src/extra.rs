//! Behaviour beyond the listed properties (spec/Data.tla): registered tags, type names, order of the CBOR integer type,
//! context threading.  Events only; judged by TLC (spec/Trace_Extra.tla).
use crate::abs::u64b;
use minicbor::data::{IanaTag, Int, Tag, Type};
use minicbor::decode::{Decode, Decoder, Error};
use rand::{rngs::StdRng, Rng, SeedableRng};
use serde_json::json;

/// An element that records the context value it was decoded with and advances it.
struct Seen(u32);
impl<'b> Decode<'b, u32> for Seen {
    fn decode(d: &mut Decoder<'b>, ctx: &mut u32) -> Result<Self, Error> { d.u8()?; let s = Seen(*ctx); *ctx += 1; Ok(s) }
}

pub fn gen_extra(sink: &mut crate::gen::Sink, seed: u64) {
    let mut rng = StdRng::seed_from_u64(seed ^ 0xe7a);
    // registered tags: every number up to 1100, boundaries, random
    let mut ns: Vec<u64> = (0..=1100).collect();
    ns.extend([u64::MAX, 65535, 65536, 1 << 32, 0x410 + 1, 0x40f]);
    for _ in 0..200 { ns.push(rng.gen()) }
    for n in ns {
        let (name, back) = match IanaTag::try_from(Tag::new(n)) { Ok(t) => (format!("{:?}", t), u64::from(Tag::from(t))), Err(_) => ("unknown".to_string(), 0) };
        sink.put(json!({"fam":"extra","name":"iana","n":u64b(n),"iana":name,"back":u64b(back)}));
    }
    // type names
    for t in [Type::Bool, Type::Null, Type::Undefined, Type::U8, Type::U16, Type::U32, Type::U64, Type::I8, Type::I16, Type::I32, Type::I64, Type::Int, Type::F16, Type::F32,
              Type::F64, Type::Simple, Type::Bytes, Type::BytesIndef, Type::String, Type::StringIndef, Type::Array, Type::ArrayIndef, Type::Map, Type::MapIndef, Type::Tag, Type::Break] {
        sink.put(json!({"fam":"extra","name":"typename","ty":format!("{:?}", t),"shown":t.to_string()}));
    }
    // the order of Int
    let pick = |rng: &mut StdRng| -> i128 { let m = match rng.gen_range(0..4) { 0 => rng.gen_range(0..3u64), 1 => u64::MAX - rng.gen_range(0..2u64), _ => rng.gen::<u64>() >> rng.gen_range(0..64u32) } as i128; if rng.gen() { m } else { -1 - m } };
    for _ in 0..400 {
        let (a, b) = (pick(&mut rng), pick(&mut rng));
        let (ia, ib) = (Int::try_from(a).unwrap(), Int::try_from(b).unwrap());
        let cmp = match ia.cmp(&ib) { core::cmp::Ordering::Less => -1, core::cmp::Ordering::Equal => 0, core::cmp::Ordering::Greater => 1 };
        sink.put(json!({"fam":"extra","name":"intcmp","a":crate::abs::vint_i128(a),"b":crate::abs::vint_i128(b),"cmp":cmp}));
    }
    // context threading through the built-in containers
    for n in [0usize, 1, 2, 5, 23] {
        let mut b = vec![0x80 | n as u8];
        b.extend(std::iter::repeat(0u8).take(n));
        let mut ctx = 0u32;
        if let Ok(v) = minicbor::decode_with::<u32, Vec<Seen>>(&b, &mut ctx) {
            sink.put(json!({"fam":"extra","name":"ctx","shape":"vec","n":n,"seen":v.iter().map(|s| s.0).collect::<Vec<_>>(),"final":ctx}));
        }
        let mut bi = vec![0x9f]; bi.extend(std::iter::repeat(0u8).take(n)); bi.push(0xff);
        let mut ctx = 0u32;
        if let Ok(v) = minicbor::decode_with::<u32, std::collections::VecDeque<Seen>>(&bi, &mut ctx) {
            sink.put(json!({"fam":"extra","name":"ctx","shape":"vecdeque-indef","n":n,"seen":v.iter().map(|s| s.0).collect::<Vec<_>>(),"final":ctx}));
        }
    }
    let mut ctx = 0u32;
    if let Ok((a, b, c)) = minicbor::decode_with::<u32, (Seen, Option<Seen>, [Seen; 2])>(&[0x83, 0, 0, 0x82, 0, 0], &mut ctx) {
        sink.put(json!({"fam":"extra","name":"ctx","shape":"tuple","n":4,"seen":[a.0, b.map(|s| s.0).unwrap_or(99), c[0].0, c[1].0],"final":ctx}));
    }
}
