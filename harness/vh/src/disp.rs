//! C19: minicbor::display into a size-limited sink (so that the check itself can neither hang nor
//! exhaust memory), and the expansion of the specification's float atoms with Rust's own `{:e}`.
use crate::abs::bytes;
use serde_json::{json, Value};
use std::fmt::Write;

struct Lim { out: String, limit: usize, overflow: bool }
impl Write for Lim {
    fn write_str(&mut self, s: &str) -> std::fmt::Result {
        if self.out.len() + s.len() > self.limit { self.overflow = true; return Err(std::fmt::Error) }
        self.out.push_str(s);
        Ok(())
    }
}

pub fn bound(n: usize) -> usize { 32 * n + 256 }

pub fn fmt(buf: &[u8]) -> Value {
    let mut l = Lim { out: String::new(), limit: bound(buf.len()) + 64, overflow: false };
    let r = write!(l, "{}", minicbor::display(buf));
    json!({"p":"run","out": bytes(l.out.as_bytes()), "overflow": l.overflow, "fmt_err": r.is_err() && !l.overflow})
}

pub fn float_text(w: u64, bits: &[u8]) -> String {
    match w {
        2 => format!("{:e}", half::f16::from_bits(u16::from_be_bytes([bits[0], bits[1]])).to_f32()),
        4 => format!("{:e}", f32::from_bits(u32::from_be_bytes([bits[0], bits[1], bits[2], bits[3]]))),
        _ => { let mut a = [0u8; 8]; a.copy_from_slice(bits); format!("{:e}", f64::from_bits(u64::from_be_bytes(a))) }
    }
}

/// Expand the float atoms <<-1, w, bits..>> of a specification rendering.
pub fn expand(diag: &Value) -> Vec<u8> {
    let a: Vec<i64> = diag.as_array().unwrap().iter().map(|x| x.as_i64().unwrap()).collect();
    let mut out = Vec::new();
    let mut i = 0;
    while i < a.len() {
        if a[i] == -1 {
            let w = a[i + 1] as usize;
            let bits: Vec<u8> = a[i + 2..i + 2 + w].iter().map(|x| *x as u8).collect();
            out.extend_from_slice(float_text(w as u64, &bits).as_bytes());
            i += 2 + w;
        } else { out.push(a[i] as u8); i += 1 }
    }
    out
}

/// The comparison for replayed display cases: bound always, exact rendering when the specification pins it.
pub fn matches(obs: &Value, exp: &Value) -> bool {
    if obs["p"] != "run" || obs["overflow"] == true || obs["fmt_err"] == true { return false }
    let out = crate::abs::get_bytes(&obs["out"]);
    if out.len() as u64 > exp["bound"].as_u64().unwrap() { return false }
    if exp["renderable"] == true && out != expand(&exp["diag"]) { return false }
    true
}
