//! C15: minicbor_io::AsyncReader driven by a scripted (or seeded random) source and caller.
//! The executor is a hand-rolled single poll with a no-op waker: every Pending returns control to
//! the caller script, which resumes or drops the future.
use crate::frames::*;
use minicbor_io::{AsyncReader, Error};
use serde_json::{json, Value};
use std::cell::RefCell;
use std::collections::VecDeque;
use std::future::Future;
use std::pin::Pin;
use std::rc::Rc;
use std::task::{Context, Poll, Waker};

#[derive(Debug, Clone, PartialEq)]
pub enum Step { Start, Resume, Drop, Deliver(usize), Pending, Fail, Eof }

impl Step {
    pub fn is_caller(&self) -> bool { matches!(self, Step::Start | Step::Resume | Step::Drop) }
    pub fn to_json(&self) -> Value {
        match self {
            Step::Start => json!({"a":"start","k":0}), Step::Resume => json!({"a":"resume","k":0}),
            Step::Drop => json!({"a":"drop","k":0}), Step::Deliver(k) => json!({"a":"deliver","k":k}),
            Step::Pending => json!({"a":"pending","k":0}), Step::Fail => json!({"a":"fail","k":0}),
            Step::Eof => json!({"a":"eof","k":0})
        }
    }
    pub fn from_json(v: &Value) -> Step {
        match v["a"].as_str().unwrap() {
            "start" => Step::Start, "resume" => Step::Resume, "drop" => Step::Drop,
            "deliver" => Step::Deliver(v["k"].as_u64().unwrap() as usize),
            "pending" => Step::Pending, "fail" => Step::Fail, "eof" => Step::Eof,
            x => panic!("bad step {}", x)
        }
    }
}

/// What the source consults for each inner read.
pub trait Policy {
    /// `want` = size of the buffer offered, `avail` = bytes left in the (cut) stream.
    fn next(&mut self, want: usize, avail: usize) -> Step;
}

pub struct Shared {
    pub stream: Vec<u8>,
    pub rd: usize,
    pub script: VecDeque<Step>,       // script mode: the remaining steps (caller and source, interleaved)
    pub policy: Option<Box<dyn Policy>>, // random mode
    pub log: Vec<Value>,              // realised events (random mode): one per inner read
    pub desync: Option<String>,
    pub reads: usize
}

pub struct Source(pub Rc<RefCell<Shared>>);

impl futures_io::AsyncRead for Source {
    fn poll_read(self: Pin<&mut Self>, _cx: &mut Context<'_>, buf: &mut [u8]) -> Poll<std::io::Result<usize>> {
        let mut s = self.0.borrow_mut();
        s.reads += 1;
        let avail = s.stream.len() - s.rd;
        let step = if s.policy.is_some() {
            let mut p = s.policy.take().unwrap();
            let st = if crate::awrite::budget_over() { Step::Fail } else { p.next(buf.len(), avail) };
            s.policy = Some(p);
            crate::awrite::budget_note();
            st
        } else {
            match s.script.front().cloned() {
                Some(st) if !st.is_caller() => st,
                None => return Poll::Pending,      // the schedule ends here: the caller simply stops polling
                _ => {
                    // the implementation issued a read the schedule does not contain
                    if s.desync.is_none() { s.desync = Some("extra_read".into()) }
                    return Poll::Pending
                }
            }
        };
        match step {
            Step::Deliver(k) => {
                let n = k.min(buf.len()).min(avail);
                if n == 0 {
                    if s.desync.is_none() { s.desync = Some("deliver_zero".into()) }
                    return Poll::Pending
                }
                let rd = s.rd;
                buf[..n].copy_from_slice(&s.stream[rd..rd + n]);
                s.rd += n;
                if s.policy.is_none() {
                    if k - n == 0 { s.script.pop_front(); } else { *s.script.front_mut().unwrap() = Step::Deliver(k - n) }
                } else {
                    s.log.push(json!({"a":"deliver","k":n,"req":buf.len()}));
                }
                Poll::Ready(Ok(n))
            }
            Step::Pending => {
                if s.policy.is_none() { s.script.pop_front(); } else { s.log.push(json!({"a":"pending","k":0,"req":buf.len()})) }
                Poll::Pending
            }
            Step::Fail => {
                if s.policy.is_none() { s.script.pop_front(); } else { s.log.push(json!({"a":"fail","k":0,"req":buf.len()})) }
                Poll::Ready(Err(std::io::Error::new(std::io::ErrorKind::Other, "transient")))
            }
            Step::Eof => {
                if avail != 0 && s.desync.is_none() { s.desync = Some("eof_with_bytes_left".into()) }
                if s.policy.is_none() { s.script.pop_front(); } else { s.log.push(json!({"a":"eof","k":0,"req":buf.len()})) }
                Poll::Ready(Ok(0))
            }
            _ => unreachable!()
        }
    }
}

pub fn classify(r: Result<Option<Fr>, Error>, frames: &[FrameSpec]) -> Value {
    match r {
        Ok(Some(fr)) => {
            let f = fr.id as usize;
            if f >= 1 && f <= frames.len() && fr.all == payload(f, &frames[f - 1]) { json!(["val", f]) } else { json!(["val", -1]) }
        }
        Ok(None) => json!(["end"]),
        Err(Error::Io(e)) if e.kind() == std::io::ErrorKind::UnexpectedEof => json!(["unexpected_eof"]),
        Err(Error::Io(_)) => json!(["io_error"]),
        Err(Error::InvalidLen) => json!(["invalid_len"]),
        Err(Error::Decode(_)) => json!(["decode_err"]),
        Err(_) => json!(["other_err"])
    }
}

type Fut<'a> = Pin<Box<dyn Future<Output = Result<Option<Fr>, Error>> + 'a>>;

/// Replay a specification schedule; returns {"out": [...], "rd": n, "desync": "..."}.
pub fn run_script(frames: &[FrameSpec], cut: usize, maxlen: u32, sched: &[Step]) -> Value {
    let mut stream = stream_of(frames);
    stream.truncate(cut);
    let shared = Rc::new(RefCell::new(Shared { stream, rd: 0, script: sched.iter().cloned().collect(), policy: None,
                                               log: vec![], desync: None, reads: 0 }));
    let mut reader = AsyncReader::new(Source(shared.clone()));
    reader.set_max_len(maxlen);
    let rp: *mut AsyncReader<Source> = &mut reader;
    let mut fut: Option<Fut> = None;
    let mut out: Vec<Value> = Vec::new();
    let waker = Waker::noop();
    let mut cx = Context::from_waker(&waker);
    loop {
        let step = { shared.borrow_mut().script.front().cloned() };
        let step = match step { Some(s) => s, None => break };
        if shared.borrow().desync.is_some() { break }
        match step {
            Step::Start | Step::Resume => {
                shared.borrow_mut().script.pop_front();
                if step == Step::Start {
                    if fut.is_some() { shared.borrow_mut().desync = Some("start_while_future_alive".into()); break }
                    // SAFETY: the previous future (the only other borrow of the reader) has been dropped
                    fut = Some(Box::pin(unsafe { &mut *rp }.read::<Fr>()));
                } else if fut.is_none() { shared.borrow_mut().desync = Some("resume_without_future".into()); break }
                match fut.as_mut().unwrap().as_mut().poll(&mut cx) {
                    Poll::Ready(r) => { fut = None; out.push(classify(r, frames)); }
                    Poll::Pending => {}
                }
            }
            Step::Drop => {
                shared.borrow_mut().script.pop_front();
                if fut.is_none() { shared.borrow_mut().desync = Some("drop_without_future".into()); break }
                fut = None;
            }
            _ => {
                // a source outcome is next but the implementation did not ask for a read
                shared.borrow_mut().desync = Some("missing_read".into());
                break
            }
        }
    }
    drop(fut);
    let s = shared.borrow();
    json!({"p":"run","out": out, "rd": s.rd, "desync": s.desync.clone().unwrap_or_default()})
}

// ---------------------------------------------------------------- random walks (I->S) ----
use rand::{rngs::StdRng, Rng, SeedableRng};

struct RandomPolicy { rng: StdRng, pend_run: u32, fails_left: u32 }
impl Policy for RandomPolicy {
    fn next(&mut self, want: usize, avail: usize) -> Step {
        let r = self.rng.gen_range(0..100);
        if r < 15 && self.pend_run < 3 { self.pend_run += 1; return Step::Pending }
        self.pend_run = 0;
        if r < 20 && self.fails_left > 0 { self.fails_left -= 1; return Step::Fail }
        if avail == 0 { return Step::Eof }
        let m = want.min(avail);
        let k = match self.rng.gen_range(0..4) { 0 => 1, 1 => m, _ => self.rng.gen_range(1..=m) };
        Step::Deliver(k)
    }
}

/// One seeded random run; returns the event list: a header, then one event per caller action,
/// inner read and returned result.
pub fn run_random(seed: u64, nframes: usize, max_payload: usize) -> Vec<Value> {
    let mut rng = StdRng::seed_from_u64(seed);
    crate::awrite::budget_reset();
    let maxlen = if seed % 4 == 0 { (max_payload as u32 * 3) / 4 + 1 } else { max_payload as u32 };
    let frames: Vec<FrameSpec> = (0..nframes).map(|i| {
        let n = match rng.gen_range(0..10) { 0 => 0, 1 => 1, 2 => max_payload, _ => rng.gen_range(1..=max_payload) };
        FrameSpec { n, good: n >= min_good_len(i + 1) && rng.gen_range(0..8) != 0, huge: false }
    }).collect();
    let mut stream = stream_of(&frames);
    let total = stream.len();
    let cut = if rng.gen_range(0..3) != 0 { total } else { rng.gen_range(0..=total) };
    stream.truncate(cut);
    let shared = Rc::new(RefCell::new(Shared { stream, rd: 0, script: VecDeque::new(),
        policy: Some(Box::new(RandomPolicy { rng: StdRng::seed_from_u64(seed ^ 0x5eed), pend_run: 0, fails_left: 5 })),
        log: vec![], desync: None, reads: 0 }));
    let mut reader = match crate::awrite::start_buffer(seed) { Some(b) => AsyncReader::with_buffer(Source(shared.clone()), b), None => AsyncReader::new(Source(shared.clone())) };
    reader.set_max_len(maxlen);
    let rp: *mut AsyncReader<Source> = &mut reader;
    let mut events = vec![json!({"ev":"reset","frames": frames.iter().map(|f| json!({"n":f.n,"good":f.good})).collect::<Vec<_>>(),
                                 "cut": cut, "maxlen": maxlen, "seed": seed})];
    let flush = |events: &mut Vec<Value>| {
        for e in shared.borrow_mut().log.drain(..) { events.push(json!({"ev": e["a"], "k": e["k"], "req": e["req"]})) }
    };
    let waker = Waker::noop();
    let mut cx = Context::from_waker(&waker);
    let mut fut: Option<Fut> = None;
    let (mut ends, mut reads, mut stuck) = (0, 0, 0);
    while ends < 2 && reads < 4 * nframes + 20 && stuck < 6 && !crate::awrite::budget_over() {
        if fut.is_none() {
            events.push(json!({"ev":"start","k":0}));
            reads += 1;
            // SAFETY: no other borrow of the reader is alive
            fut = Some(Box::pin(unsafe { &mut *rp }.read::<Fr>()));
        } else {
            events.push(json!({"ev":"resume","k":0}));
        }
        let r = fut.as_mut().unwrap().as_mut().poll(&mut cx);
        flush(&mut events);
        match r {
            Poll::Ready(r) => {
                fut = None;
                let c = classify(r, &frames);
                if c[0] == "end" { ends += 1 }
                if c[0] == "invalid_len" || c[0] == "unexpected_eof" { stuck += 1 }
                events.push(json!({"ev":"ret","k":0,"r":c}));
            }
            Poll::Pending => {
                if rng.gen_range(0..100) < 40 { fut = None; events.push(json!({"ev":"drop","k":0})); }
            }
        }
    }
    events
}
