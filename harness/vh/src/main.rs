//! vh: the conformance harness.  Drives the real minicbor code; contains no CBOR oracle.
mod abs;
mod ops;
pub mod gen;
mod cbgen;
#[cfg(feature = "io")]
mod frames;
#[cfg(feature = "io")]
mod aread;
#[cfg(feature = "io")]
mod awrite;
#[cfg(feature = "io")]
mod bio;
mod alloc;
#[cfg(feature = "full")]
mod sweep;
#[cfg(feature = "full")]
mod sweep32;
#[cfg(feature = "std")]
mod drops;
mod types;
#[cfg(all(feature = "alloc", feature = "half"))]
mod toks;
#[cfg(all(feature = "alloc", feature = "half"))]
mod disp;
#[cfg(all(feature = "std", feature = "half"))]
mod sinks;
#[cfg(feature = "bridge")]
mod sbridge;
#[cfg(feature = "bridge")]
mod sfam;
mod c20;
#[cfg(feature = "std")]
mod extra;

#[global_allocator]
static GLOBAL: alloc::Counting = alloc::Counting;

use serde_json::{json, Value};
use std::io::{BufRead, BufReader, BufWriter, Write};

#[cfg(feature = "full")]
fn sbridge_matches(obs: &Value, exp: &Value) -> bool { sbridge::matches(obs, exp) }
#[cfg(not(feature = "full"))]
fn sbridge_matches(_: &Value, _: &Value) -> bool { false }
#[cfg(feature = "full")]
fn sbridge_both_matches(obs: &Value, exp: &Value) -> bool { sbridge::both_matches(obs, exp) }
#[cfg(not(feature = "full"))]
fn sbridge_both_matches(_: &Value, _: &Value) -> bool { false }

#[cfg(feature = "std")]
fn typed_matches(obs: &Value, exp: &Value) -> bool { types::matches(obs, exp) }
#[cfg(not(feature = "std"))]
fn typed_matches(_: &Value, _: &Value) -> bool { false }

fn silence_panics() {
    std::panic::set_hook(Box::new(|_| {}));
}

/// vh cases <cases.ndjson> <mismatches.ndjson>: replay specification cases on the implementation.
fn cmd_cases(args: &[String]) -> i32 {
    let inp = BufReader::new(std::fs::File::open(&args[0]).expect("open cases"));
    let mut out = BufWriter::new(std::fs::File::create(&args[1]).expect("create out"));
    let (mut n, mut bad, mut unsupported) = (0u64, 0u64, 0u64);
    let mut samples: Vec<Value> = Vec::new();
    let mut distinct = std::collections::HashSet::new();
    for line in inp.lines() {
        let line = line.unwrap();
        if line.is_empty() { continue }
        let c: Value = serde_json::from_str(&line).expect("case json");
        let obs = ops::run_op(c["fam"].as_str().unwrap(), c["name"].as_str().unwrap(), &c["in"]);
        n += 1;
        if obs["p"] == "unsupported" || obs["p"] == "na" { unsupported += 1; continue }
        distinct.insert(format!("{}:{}:{}", c["fam"], c["name"], c["in"]));
        let mut c = c;
        #[cfg(feature = "io")]
        if c["exp"].get("sinkids").is_some() {
            // the specification names sink bytes by identity <<value, index>>; translate to the bytes they denote
            let vals = awrite::vals_from_json(&c["in"]["vals"]);
            let b = awrite::bytes_of_ids(&vals, &c["exp"]["sinkids"]);
            c["exp"].as_object_mut().unwrap().remove("sinkids");
            c["exp"]["sink"] = abs::bytes(&b);
        }
        #[cfg(all(feature = "alloc", feature = "half"))]
        let ok = if c["fam"] == "display" { disp::matches(&obs, &c["exp"]) }
                 else if c["fam"] == "typed" { typed_matches(&obs, &c["exp"]) }
                 else if c["fam"] == "serde" { sbridge_matches(&obs, &c["exp"]) }
                 else if c["fam"] == "both" { sbridge_both_matches(&obs, &c["exp"]) }
                 else if c["fam"] == "tok" { toks::matches(c["name"].as_str().unwrap(), &obs, &c["exp"]) }
                 else { abs::matches(&obs, &c["exp"]) };
        #[cfg(not(all(feature = "alloc", feature = "half")))]
        let ok = abs::matches(&obs, &c["exp"]);
        if !ok {
            bad += 1;
            writeln!(out, "{}", json!({"case": c, "obs": obs})).unwrap();
        } else if samples.len() < 3 || (n % 50021 == 0 && samples.len() < 8) {
            samples.push(json!({"case": c, "obs": obs}));
        }
    }
    out.flush().unwrap();
    println!("{}", json!({"cases": n, "mismatches": bad, "unsupported": unsupported, "distinct": distinct.len(), "samples": samples}));
    0
}

/// vh one <fam> <name> <in-json>: run one operation and print the observation.
fn cmd_one(args: &[String]) -> i32 {
    let input: Value = serde_json::from_str(&args[2]).expect("in json");
    println!("{}", ops::run_op(&args[0], &args[1], &input));
    0
}

fn main() {
    silence_panics();
    alloc::install_fatal_handlers();
    let args: Vec<String> = std::env::args().skip(1).collect();
    let code = match args.first().map(|s| s.as_str()) {
        Some("cases") => cmd_cases(&args[1..]),
        Some("one") => cmd_one(&args[1..]),
        Some("gen") => gen::cmd_gen(&args[1..]),
        #[cfg(feature = "full")]
        Some("sweep") => sweep::cmd_sweep(&args[1..]),
        #[cfg(feature = "full")]
        Some("sweep32") => sweep32::cmd_sweep32(&args[1..]),
        #[cfg(feature = "full")]
        Some("sweepf16") => sweep32::cmd_sweepf16(&args[1..]),
        Some("c20run") => c20::cmd_run(&args[1..]),
        #[cfg(feature = "full")]
        Some("c20corpus") => c20::cmd_corpus(&args[1..]),
        _ => { eprintln!("usage: vh cases|one|gen ..."); 2 }
    };
    std::process::exit(code)
}
