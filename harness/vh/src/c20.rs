//! C20: the same deterministic corpus of (operation, input) pairs is run by one harness binary per feature
//! configuration of minicbor / minicbor-serde ({none, alloc, std} x {half, no half}); each writes a transcript
//! (line index -> observation).  Operations that do not exist in a configuration are absent from its transcript.
//! Nothing here compares configurations: the merged transcripts are judged by spec/Cfg.tla.
use crate::abs::{bytes, err_class, get_bytes, get_u64};
use crate::types::Abs;
use minicbor::data::{Int, Tag, Tagged};
use minicbor::{CborLen, Decode, Encode};
use serde_json::{json, Value};
use std::io::{BufRead, BufReader, BufWriter, Write};

pub const CFG: &str = if cfg!(feature = "std") { if cfg!(feature = "half") { "std+half" } else { "std" } }
                      else if cfg!(feature = "alloc") { if cfg!(feature = "half") { "alloc+half" } else { "alloc" } }
                      else if cfg!(feature = "half") { "none+half" } else { "none" };

/// An unbounded sink that exists in every configuration.
pub struct VecSink(pub Vec<u8>);
impl minicbor::encode::Write for VecSink {
    type Error = core::convert::Infallible;
    fn write_all(&mut self, b: &[u8]) -> Result<(), Self::Error> { self.0.extend_from_slice(b); Ok(()) }
}

fn epos(e: &minicbor::decode::Error) -> i64 { e.position().map(|p| p as i64).unwrap_or(-1) }

/// Native typed decode of `b`, then (on success) the re-encoding of the value and its computed length.
fn report<T: Abs + Encode<()> + CborLen<()> + for<'b> Decode<'b, ()>>(b: &[u8]) -> Value {
    let mut d = minicbor::Decoder::new(b);
    let r: Result<T, _> = d.decode();
    match r {
        Ok(v) => {
            let mut e = minicbor::Encoder::new(VecSink(Vec::new()));
            let ok = e.encode(&v).is_ok();
            let re = e.into_writer().0;
            // the same value into a sink that is one byte too small: the class of the encode error
            let mut small = vec![0u8; re.len().saturating_sub(1)];
            let short = match minicbor::encode(&v, &mut small[..]) { Ok(()) => "ok", Err(e) => if e.is_write() { "write" } else if e.is_message() { "msg" } else { "other" } };
            let unordered = core::any::type_name::<T>().contains("Hash");
            json!({"p":"ok","v":v.to_abs(),"pos":d.position(),"reenc_ok":ok,"reenc":if unordered { json!(re.len()) } else { bytes(&re) },"len":minicbor::len(&v),"short":short})
        }
        Err(e) => json!({"p":"err","cls":err_class(&e),"pos":d.position(),"epos":epos(&e)})
    }
}

macro_rules! by_name {
    ($name:expr, $b:expr, $($key:literal => $t:ty),* $(,)?) => { match $name { $( $key => Some(report::<$t>($b)), )* _ => None } };
}

use core::sync::atomic::*;
fn tdec_core(name: &str, b: &[u8]) -> Option<Value> {
    by_name!(name, b,
        "u8" => u8, "u16" => u16, "u32" => u32, "u64" => u64, "usize" => usize, "i8" => i8, "i16" => i16, "i32" => i32, "i64" => i64, "isize" => isize,
        "int" => Int, "bool" => bool, "char" => char, "f32" => f32, "f64" => f64,
        "bytearray0" => minicbor::bytes::ByteArray<0>, "bytearray4" => minicbor::bytes::ByteArray<4>, "bytearray24" => minicbor::bytes::ByteArray<24>,
        "nzu8" => core::num::NonZeroU8, "nzu16" => core::num::NonZeroU16, "nzu32" => core::num::NonZeroU32, "nzu64" => core::num::NonZeroU64, "nzusize" => core::num::NonZeroUsize,
        "nzi8" => core::num::NonZeroI8, "nzi16" => core::num::NonZeroI16, "nzi32" => core::num::NonZeroI32, "nzi64" => core::num::NonZeroI64, "nzisize" => core::num::NonZeroIsize,
        "wrapu16" => core::num::Wrapping<u16>, "cellu32" => core::cell::Cell<u32>,
        "abool" => AtomicBool, "au8" => AtomicU8, "au16" => AtomicU16, "au32" => AtomicU32, "au64" => AtomicU64, "ausize" => AtomicUsize,
        "ai8" => AtomicI8, "ai16" => AtomicI16, "ai32" => AtomicI32, "ai64" => AtomicI64, "aisize" => AtomicIsize,
        "optu8" => Option<u8>, "resunitu64" => Result<(), u64>, "boundi16" => core::ops::Bound<i16>,
        "rangeu8" => core::ops::Range<u8>, "rangefromu16" => core::ops::RangeFrom<u16>, "rangetoi8" => core::ops::RangeTo<i8>,
        "rangetoinclu32" => core::ops::RangeToInclusive<u32>, "rangeincli64" => core::ops::RangeInclusive<i64>,
        "unit" => (), "phantom" => core::marker::PhantomData<u8>,
        "tup1" => (u8,), "tup3" => (i16, bool, Option<u8>),
        "tup16" => (u8, u8, u8, u8, u8, u8, u8, u8, u8, u8, u8, u8, u8, u8, u8, u8),
        "tup5" => (u8, i16, u8, i16, u8), "tup7" => (u8, i16, u8, i16, u8, i16, u8), "tup12" => (u8, i16, u8, i16, u8, i16, u8, i16, u8, i16, u8, i16),
        "arr2tup" => [(u8, bool); 2],
        "arr0u8" => [u8; 0], "arr3i32" => [i32; 3], "arr23u16" => [u16; 23], "arr24bool" => [bool; 24], "arr25i8" => [i8; 25], "arr16u8" => [u8; 16], "arr32u8" => [u8; 32],
        "duration" => core::time::Duration,
        "tag" => Tag, "tagged7u8" => Tagged<7, u8>, "optresult" => Option<Result<u8, bool>>,
    )
}
#[cfg(feature = "alloc")]
fn tdec_alloc(name: &str, b: &[u8]) -> Option<Value> {
    use std::collections::*;
    by_name!(name, b,
        "string" => String, "boxstr" => Box<str>, "cowstr" => std::borrow::Cow<'static, str>, "bytevec" => minicbor::bytes::ByteVec,
        "refcellstring" => core::cell::RefCell<String>, "boxu64" => Box<u64>,
        "optstring" => Option<String>, "optvecu16" => Option<Vec<u16>>, "resu8string" => Result<u8, String>,
        "tup2" => (u8, String), "tup4" => (u64, String, f32, ()), "arr1string" => [String; 1],
        "vecu8" => Vec<u8>, "vecstring" => Vec<String>, "vecvecu16" => Vec<Vec<u16>>, "vecoptbool" => Vec<Option<bool>>, "vecdequei32" => VecDeque<i32>, "linkedlistu64" => LinkedList<u64>,
        "btreesetu16" => BTreeSet<u16>, "binaryheapu8" => BinaryHeap<u8>,
        "btreemapu8string" => BTreeMap<u8, String>, "btreemapstringvecu8" => BTreeMap<String, Vec<u8>>,
        "tagged256string" => Tagged<256, String>, "tagged1vecu8" => Tagged<1, Vec<u8>>,
        "vectup" => Vec<(u8, Option<String>)>, "maptuple" => BTreeMap<u8, (i8, f64)>,
        "cowsliceu16" => std::borrow::Cow<'static, [u16]>, "vecarr" => Vec<[u8; 3]>, "optbox" => Option<Box<i32>>, "boxvec" => Box<Vec<String>>,
    )
}
#[cfg(not(feature = "alloc"))]
fn tdec_alloc(_: &str, _: &[u8]) -> Option<Value> { None }
#[cfg(feature = "std")]
fn tdec_std(name: &str, b: &[u8]) -> Option<Value> {
    use std::collections::*;
    use std::net::*;
    by_name!(name, b,
        "pathbuf" => std::path::PathBuf, "boxpath" => Box<std::path::Path>, "cstring" => std::ffi::CString,
        "hashsetstring" => HashSet<String>, "hashseti32" => HashSet<i32>, "hashmapu16bool" => HashMap<u16, bool>, "hashmapstringi64" => HashMap<String, i64>,
        "systemtime" => std::time::SystemTime,
        "ipv4" => Ipv4Addr, "ipv6" => Ipv6Addr, "ipaddr" => IpAddr, "sockv4" => SocketAddrV4, "sockv6" => SocketAddrV6, "sockaddr" => SocketAddr,
    )
}
#[cfg(not(feature = "std"))]
fn tdec_std(_: &str, _: &[u8]) -> Option<Value> { None }

/// Encoder method calls over the harness' own sink: the bytes written, or how far it got.
fn encb(calls: &[Value]) -> Value {
    let mut e = minicbor::Encoder::new(VecSink(Vec::new()));
    for (i, c) in calls.iter().enumerate() {
        if !enc_call(&mut e, c) { return json!({"p":"err","cls":"enc","at":i,"pos":e.writer().0.len()}) }
    }
    let b = e.into_writer().0;
    json!({"p":"ok","v":{"k":"enc","b":bytes(&b)},"pos":b.len()})
}
fn enc_call(e: &mut minicbor::Encoder<VecSink>, c: &Value) -> bool {
    let m = c["m"].as_str().unwrap_or("");
    let int = || -> i128 { let mag = get_u64(&c["mag"]) as i128; if c["neg"].as_bool().unwrap_or(false) { -1 - mag } else { mag } };
    let r = match m {
        "u8" => e.u8(int() as u8).map(|_| ()), "u16" => e.u16(int() as u16).map(|_| ()), "u32" => e.u32(int() as u32).map(|_| ()),
        "u64" => e.u64(int() as u64).map(|_| ()), "i8" => e.i8(int() as i8).map(|_| ()), "i16" => e.i16(int() as i16).map(|_| ()),
        "i32" => e.i32(int() as i32).map(|_| ()), "i64" => e.i64(int() as i64).map(|_| ()),
        "int" => match Int::try_from(int()) { Ok(i) => e.int(i).map(|_| ()), Err(_) => return false },
        "bool" => e.bool(c["b"].as_bool().unwrap()).map(|_| ()),
        "null" => e.null().map(|_| ()), "undefined" => e.undefined().map(|_| ()),
        "simple" => e.simple(c["i"].as_u64().unwrap() as u8).map(|_| ()),
        "char" => match char::from_u32(c["i"].as_u64().unwrap() as u32) { Some(ch) => e.char(ch).map(|_| ()), None => return false },
        "tag" => e.tag(Tag::new(get_u64(&c["n"]))).map(|_| ()),
        "array" => e.array(get_u64(&c["n"])).map(|_| ()), "map" => e.map(get_u64(&c["n"])).map(|_| ()),
        "bytes" => e.bytes(&get_bytes(&c["b"])).map(|_| ()),
        "str" => match String::from_utf8(get_bytes(&c["b"])) { Ok(st) => e.str(&st).map(|_| ()), Err(_) => return false },
        "begin_array" => e.begin_array().map(|_| ()), "begin_map" => e.begin_map().map(|_| ()),
        "begin_bytes" => e.begin_bytes().map(|_| ()), "begin_str" => e.begin_str().map(|_| ()), "end" => e.end().map(|_| ()),
        #[cfg(feature = "half")]
        "f16" => { let b = get_bytes(&c["bits"]); e.f16(f32::from_bits(u32::from_be_bytes([b[0], b[1], b[2], b[3]]))).map(|_| ()) }
        "f32" => { let b = get_bytes(&c["bits"]); e.f32(f32::from_bits(u32::from_be_bytes([b[0], b[1], b[2], b[3]]))).map(|_| ()) }
        "f64" => { let b = get_bytes(&c["bits"]); let mut a = [0u8; 8]; a.copy_from_slice(&b); e.f64(f64::from_bits(u64::from_be_bytes(a))).map(|_| ()) }
        _ => return false
    };
    r.is_ok()
}
/// Does the call list use a method this configuration does not have?  (Then the operation is absent, not an error.)
fn encb_supported(calls: &[Value]) -> bool {
    cfg!(feature = "half") || !calls.iter().any(|c| c["m"] == "f16")
}

// ---- the bridge ---------------------------------------------------------------------------------------------------------
#[cfg(feature = "bridge")]
mod bridge {
    use super::*;
    use serde::de::{self, Deserialize, Deserializer, MapAccess, SeqAccess, Visitor};
    use std::fmt;

    fn spos(s: &str) -> i64 {
        match s.find("at position ") { Some(i) => s[i + 12..].chars().take_while(|c| c.is_ascii_digit()).collect::<String>().parse().unwrap_or(-1), None => -1 }
    }
    /// Typed deserialisation through the bridge; `ser`: also serialise the value again through Serializer::new over the harness' sink.
    pub fn sde<T: crate::sbridge::SFull>(b: &[u8], ser: bool) -> Value {
        let mut de = minicbor_serde::Deserializer::new(b);
        let r = T::deserialize(&mut de);
        let pos = de.decoder().position();
        match r {
            Ok(v) => if ser {
                match crate::sbridge::ser_sink(&v) { Ok(out) => json!({"p":"ok","v":{"k":"enc","b":bytes(&out)},"pos":pos}), Err(_) => json!({"p":"err","cls":"ser","pos":pos,"epos":-1}) }
            } else { json!({"p":"ok","v":v.to_abs(),"pos":pos}) }
            Err(e) => { let s = e.to_string(); json!({"p":"err","cls":crate::sbridge::serr_class(&e),"pos":pos,"epos":spos(&s)}) }
        }
    }

    /// A dynamic value read through deserialize_any: every visit_* method, projected structurally.
    pub struct AnyV(pub Value);
    struct AV;
    impl<'de> Visitor<'de> for AV {
        type Value = AnyV;
        fn expecting(&self, f: &mut fmt::Formatter) -> fmt::Result { f.write_str("anything") }
        fn visit_bool<E: de::Error>(self, v: bool) -> Result<AnyV, E> { Ok(AnyV(json!({"k":"bool","b":v}))) }
        fn visit_i8<E: de::Error>(self, v: i8) -> Result<AnyV, E> { Ok(AnyV(json!({"k":"i8","v":crate::abs::vint_i128(v as i128)}))) }
        fn visit_i16<E: de::Error>(self, v: i16) -> Result<AnyV, E> { Ok(AnyV(json!({"k":"i16","v":crate::abs::vint_i128(v as i128)}))) }
        fn visit_i32<E: de::Error>(self, v: i32) -> Result<AnyV, E> { Ok(AnyV(json!({"k":"i32","v":crate::abs::vint_i128(v as i128)}))) }
        fn visit_i64<E: de::Error>(self, v: i64) -> Result<AnyV, E> { Ok(AnyV(json!({"k":"i64","v":crate::abs::vint_i128(v as i128)}))) }
        fn visit_u8<E: de::Error>(self, v: u8) -> Result<AnyV, E> { Ok(AnyV(json!({"k":"u8","v":crate::abs::vint_i128(v as i128)}))) }
        fn visit_u16<E: de::Error>(self, v: u16) -> Result<AnyV, E> { Ok(AnyV(json!({"k":"u16","v":crate::abs::vint_i128(v as i128)}))) }
        fn visit_u32<E: de::Error>(self, v: u32) -> Result<AnyV, E> { Ok(AnyV(json!({"k":"u32","v":crate::abs::vint_i128(v as i128)}))) }
        fn visit_u64<E: de::Error>(self, v: u64) -> Result<AnyV, E> { Ok(AnyV(json!({"k":"u64","v":crate::abs::vint_i128(v as i128)}))) }
        fn visit_f32<E: de::Error>(self, v: f32) -> Result<AnyV, E> { Ok(AnyV(crate::abs::vf32(v))) }
        fn visit_f64<E: de::Error>(self, v: f64) -> Result<AnyV, E> { Ok(AnyV(crate::abs::vf64(v))) }
        fn visit_char<E: de::Error>(self, v: char) -> Result<AnyV, E> { Ok(AnyV(crate::abs::vchar(v))) }
        fn visit_str<E: de::Error>(self, v: &str) -> Result<AnyV, E> { Ok(AnyV(json!({"k":"text","b":bytes(v.as_bytes()),"how":"transient"}))) }
        fn visit_borrowed_str<E: de::Error>(self, v: &'de str) -> Result<AnyV, E> { Ok(AnyV(json!({"k":"text","b":bytes(v.as_bytes()),"how":"borrowed"}))) }
        fn visit_string<E: de::Error>(self, v: String) -> Result<AnyV, E> { Ok(AnyV(json!({"k":"text","b":bytes(v.as_bytes()),"how":"owned"}))) }
        fn visit_bytes<E: de::Error>(self, v: &[u8]) -> Result<AnyV, E> { Ok(AnyV(json!({"k":"bytes","b":bytes(v),"how":"transient"}))) }
        fn visit_borrowed_bytes<E: de::Error>(self, v: &'de [u8]) -> Result<AnyV, E> { Ok(AnyV(json!({"k":"bytes","b":bytes(v),"how":"borrowed"}))) }
        fn visit_byte_buf<E: de::Error>(self, v: Vec<u8>) -> Result<AnyV, E> { Ok(AnyV(json!({"k":"bytes","b":bytes(&v),"how":"owned"}))) }
        fn visit_none<E: de::Error>(self) -> Result<AnyV, E> { Ok(AnyV(json!({"k":"none"}))) }
        fn visit_some<D: Deserializer<'de>>(self, d: D) -> Result<AnyV, D::Error> { let x = AnyV::deserialize(d)?; Ok(AnyV(json!({"k":"some","x":x.0}))) }
        fn visit_unit<E: de::Error>(self) -> Result<AnyV, E> { Ok(AnyV(json!({"k":"unit"}))) }
        fn visit_newtype_struct<D: Deserializer<'de>>(self, d: D) -> Result<AnyV, D::Error> { AnyV::deserialize(d) }
        fn visit_seq<A: SeqAccess<'de>>(self, mut a: A) -> Result<AnyV, A::Error> {
            let mut xs = Vec::new();
            while let Some(x) = a.next_element::<AnyV>()? { xs.push(x.0) }
            Ok(AnyV(json!({"k":"seq","xs":xs})))
        }
        fn visit_map<A: MapAccess<'de>>(self, mut a: A) -> Result<AnyV, A::Error> {
            let mut xs = Vec::new();
            while let Some(k) = a.next_key::<AnyV>()? { let v = a.next_value::<AnyV>()?; xs.push(json!([k.0, v.0])) }
            Ok(AnyV(json!({"k":"map","xs":xs})))
        }
    }
    impl<'de> Deserialize<'de> for AnyV {
        fn deserialize<D: Deserializer<'de>>(d: D) -> Result<Self, D::Error> { d.deserialize_any(AV) }
    }
    pub fn sany(b: &[u8], pos0: usize) -> Value {
        let mut dec = minicbor::Decoder::new(b);
        dec.set_position(pos0);
        let mut de = minicbor_serde::Deserializer::from(dec);
        let r = AnyV::deserialize(&mut de);
        let pos = de.decoder().position();
        match r {
            Ok(v) => json!({"p":"ok","v":v.0,"pos":pos}),
            Err(e) => { let s = e.to_string(); json!({"p":"err","cls":crate::sbridge::serr_class(&e),"pos":pos,"epos":spos(&s)}) }
        }
    }
    /// Skipping through the bridge: IgnoredAny drives deserialize_ignored_any.
    pub fn signore(b: &[u8], pos0: usize) -> Value {
        let mut dec = minicbor::Decoder::new(b);
        dec.set_position(pos0);
        let mut de = minicbor_serde::Deserializer::from(dec);
        let r = de::IgnoredAny::deserialize(&mut de);
        let pos = de.decoder().position();
        match r {
            Ok(_) => json!({"p":"ok","v":{"k":"unit"},"pos":pos}),
            Err(e) => { let s = e.to_string(); json!({"p":"err","cls":crate::sbridge::serr_class(&e),"pos":pos,"epos":spos(&s)}) }
        }
    }
}

/// One operation of the C20 corpus in this configuration; `unsupported` when it does not exist here.
pub fn run20(fam: &str, name: &str, input: &Value) -> Value {
    crate::ops::guarded(|| match fam {
        "acc" => {
            let mut o = crate::ops::acc(name, &get_bytes(&input["buf"]), input["pos"].as_u64().unwrap_or(0) as usize);
            // the harness' own full_item reports its findings as messages: not an observable of the library
            if name == "item" && o["p"] == "err" { o["cls"] = json!("*") }
            o
        }
        "dec" => crate::ops::dec_intlike(name, &get_bytes(&input["buf"]), input["pos"].as_u64().unwrap_or(0) as usize),
        "tdec" => { let b = get_bytes(&input["bytes"]); tdec_core(name, &b).or_else(|| tdec_alloc(name, &b)).or_else(|| tdec_std(name, &b)).unwrap_or(json!({"p":"unsupported"})) }
        "encb" => { let calls = input["calls"].as_array().unwrap(); if encb_supported(calls) { encb(calls) } else { json!({"p":"unsupported"}) } }
        #[cfg(all(feature = "alloc", feature = "half"))]
        "tok" => crate::toks::op_bytes(&get_bytes(&input["buf"])),
        #[cfg(all(feature = "alloc", feature = "half"))]
        "display" => {
            let mut o = crate::disp::fmt(&get_bytes(&input["buf"]));
            let out = get_bytes(&o["out"]);
            let marker = b"!!! decoding error";
            if let Some(i) = out.windows(marker.len()).position(|w| w == marker) { o["out"] = bytes(&out[..i + marker.len()]) }
            o["pos"] = json!(0);
            o
        }
        #[cfg(feature = "bridge")]
        "sde" => crate::sfam::sde_named(name, &get_bytes(&input["bytes"]), false).unwrap_or(json!({"p":"unsupported"})),
        #[cfg(feature = "bridge")]
        "sser" => crate::sfam::sde_named(name, &get_bytes(&input["bytes"]), true).unwrap_or(json!({"p":"unsupported"})),
        #[cfg(feature = "bridge")]
        "sany" => bridge::sany(&get_bytes(&input["buf"]), input["pos"].as_u64().unwrap_or(0) as usize),
        #[cfg(feature = "bridge")]
        "signore" => bridge::signore(&get_bytes(&input["buf"]), input["pos"].as_u64().unwrap_or(0) as usize),
        _ => json!({"p":"unsupported"})
    })
}
#[cfg(feature = "bridge")]
pub use bridge::sde;

/// vh c20run <corpus.ndjson> <out.ndjson>: the transcript of this configuration.
pub fn cmd_run(args: &[String]) -> i32 {
    let inp = BufReader::new(std::fs::File::open(&args[0]).expect("open corpus"));
    let mut out = BufWriter::new(std::fs::File::create(&args[1]).expect("create out"));
    let (mut n, mut done) = (0u64, 0u64);
    for (i, line) in inp.lines().enumerate() {
        let line = line.unwrap();
        if line.is_empty() { continue }
        let c: Value = serde_json::from_str(&line).expect("corpus json");
        let obs = run20(c["fam"].as_str().unwrap(), c["name"].as_str().unwrap(), &c["in"]);
        n += 1;
        if obs["p"] == "unsupported" { continue }
        done += 1;
        writeln!(out, "{}", json!({"i": i, "obs": obs})).unwrap();
    }
    out.flush().unwrap();
    println!("{}", json!({"cfg": CFG, "lines": n, "ran": done}));
    0
}

// ---- the corpus (written once, by the full build) ----------------------------------------------------------------------------
#[cfg(feature = "full")]
pub fn cmd_corpus(args: &[String]) -> i32 {
    use crate::cbgen::*;
    use rand::{rngs::StdRng, Rng, SeedableRng};
    let (tier, seed, path) = (&args[0], args[1].parse::<u64>().unwrap_or(1), &args[2]);
    let thorough = tier == "thorough";
    let mut rng = StdRng::seed_from_u64(seed ^ 0xc20);
    let mut out = BufWriter::new(std::fs::File::create(path).expect("create corpus"));
    let mut n = 0u64;
    let mut put = |fam: &str, name: &str, input: Value| { writeln!(out, "{}", json!({"fam": fam, "name": name, "in": input})).unwrap(); n += 1; };
    const ACC: &[&str] = &["u8","u16","u32","u64","i8","i16","i32","i64","int","char","bool","null","undefined","simple","f16","f32","f64","bytes","str",
                           "bytes_iter","str_iter","array","map","tag","datatype","skip"];
    // (1) untyped inputs: generated well-formed items (with halves, nested indefinite containers, chunked strings), their mutations and
    //     prefixes, random bytes - through every accessor, the tokenizer, the display and the bridge's self-describing paths
    let nitems = if thorough { 40000 } else { 1500 };
    for i in 0..nitems {
        let o = Opts { max_depth: 6, max_nodes: if i % 10 == 0 { 80 } else { 16 }, bad_utf8: i % 9 == 0, ..Opts::default() };
        let it = gen_item(&mut rng, &o);
        let mut inputs = vec![it.clone()];
        inputs.push(mutate(&mut rng, &it));
        if !it.is_empty() { inputs.push(it[..rng.gen_range(0..it.len())].to_vec()) }
        if i % 4 == 0 { let n = rng.gen_range(1..12); inputs.push((0..n).map(|_| rng.gen()).collect()) }
        for b in inputs {
            let input = json!({"buf": bytes(&b), "pos": 0});
            if i % 6 == 0 { for a in ACC { put("acc", a, input.clone()) } }
            else { for a in ["skip", "datatype", "f32", "f64", ACC[rng.gen_range(0..ACC.len())]] { put("acc", a, input.clone()) } }
            put("tok", "bytes", json!({"buf": bytes(&b)}));
            put("display", "fmt", json!({"buf": bytes(&b)}));
            put("sany", "any", input.clone());
            put("signore", "ignore", input.clone());
        }
    }
    // every float head with boundary payloads, in and out of containers
    for hb in [0xf9u8, 0xfa, 0xfb] {
        let w = match hb { 0xf9 => 2, 0xfa => 4, _ => 8 };
        for pat in 0..24u32 {
            let mut b = vec![hb];
            for j in 0..w { b.push(match pat % 6 { 0 => 0, 1 => 0xff, 2 => 0x7c, 3 => 0x3c, 4 => if j == 0 { 0x80 } else { 0 }, _ => rng.gen() }) }
            for cut in [b.len(), b.len() - 1] {
                let input = json!({"buf": bytes(&b[..cut]), "pos": 0});
                for a in ["f16", "f32", "f64", "skip", "datatype", "u8", "simple"] { put("acc", a, input.clone()) }
                put("sany", "any", input.clone()); put("signore", "ignore", input.clone());
                put("tok", "bytes", json!({"buf": bytes(&b[..cut])}));
                for t in ["f32", "f64", "optu8", "tup1"] { put("tdec", t, json!({"bytes": bytes(&b[..cut])})) }
                for t in ["p_f32", "p_f64", "ut", "p_optu8"] { put("sde", t, json!({"bytes": bytes(&b[..cut])})) }
            }
            let mut arr = vec![0x82u8]; arr.extend_from_slice(&b); arr.push(0x01);
            let input = json!({"buf": bytes(&arr), "pos": 0});
            for a in ["skip", "f32"] { put("acc", a, input.clone()) }
            put("sany", "any", input.clone()); put("signore", "ignore", input);
        }
    }
    // hostile declared lengths: strings, arrays and maps whose head argument sits at 2^31, 2^32, 2^62, 2^63 (+1, +2), 2^64 - 2, 2^64 - 1,
    // alone, followed by a few items (what a wrapped-around count would consume), and as the last element of an enclosing array
    for mj in [2u8, 3, 4, 5] {
        for arg in [1u64 << 31, 1 << 32, 1 << 62, 1 << 63, (1 << 63) + 1, (1 << 63) + 2, u64::MAX - 1, u64::MAX, 0x7fff_ffff_ffff_ffff] {
            let mut h = vec![(mj << 5) | 27]; h.extend_from_slice(&arg.to_be_bytes());
            for tail in [&[][..], &[0x01, 0x02], &[0x01, 0x02, 0x03, 0x04], &[0x61, 0x61, 0x01, 0xf6]] {
                let mut b = h.clone(); b.extend_from_slice(tail);
                let mut wrapped = vec![0x83u8, 0x01, 0x02]; wrapped.extend_from_slice(&b);
                for buf in [b, wrapped] {
                    let input = json!({"buf": bytes(&buf), "pos": 0});
                    for a in ["skip", "array", "map", "bytes", "str", "datatype", "bytes_iter", "str_iter"] { put("acc", a, input.clone()) }
                    put("tok", "bytes", json!({"buf": bytes(&buf)}));
                    put("display", "fmt", json!({"buf": bytes(&buf)}));
                    put("sany", "any", input.clone()); put("signore", "ignore", input.clone());
                    for t in ["duration", "tup3", "optresult", "arr3i32", "rangeu8"] { put("tdec", t, json!({"bytes": bytes(&buf)})) }
                }
            }
        }
    }
    // (2) integer heads at every width through the typed integer decodes
    for major in 0..2u8 { for w in [0u8, 1, 2, 4, 8] { for _ in 0..(if thorough { 400 } else { 40 }) {
        let a = rand_arg(&mut rng);
        let mut b = Vec::new();
        let w2 = if min_width(a) > w { min_width(a) } else { w };
        head(&mut b, major, a, w2);
        let input = json!({"buf": bytes(&b), "pos": 0});
        for t in ["u8","u16","u32","u64","usize","i8","i16","i32","i64","isize","int","char","nzu8","nzi64","au32","ai16","wu8","wi64"] { put("dec", t, input.clone()) }
    } } }
    // (3) typed values: the encoding of random values of every built-in instantiation and every serde family type, re-framed and
    //     mutated, decoded (and re-encoded / sized) as that type
    let nvals = if thorough { 120 } else { 6 };
    let mut typed: Vec<(String, String, Vec<u8>)> = Vec::new();
    {
        let dir = format!("{}.scratch", path);
        // reuse the recorders: they give (type name, encoding) pairs for random values
        let mut sink = crate::gen::Sink::new(&dir, 10_000_000);
        crate::types::exercise_all(&mut rng, &mut sink, nvals, "rt");
        crate::sfam::exercise_all(&mut rng, &mut sink, nvals, "rt");
        let _ = sink.finish();
        for f in std::fs::read_dir(&dir).unwrap() {
            let f = f.unwrap().path();
            for line in BufReader::new(std::fs::File::open(&f).unwrap()).lines() {
                let e: Value = serde_json::from_str(&line.unwrap()).unwrap();
                let fam = if e["fam"] == "typed" { "tdec" } else { "sde" };
                typed.push((fam.to_string(), e["ty"].as_str().unwrap().to_string(), get_bytes(&e["bytes"])));
            }
        }
        let _ = std::fs::remove_dir_all(&dir);
    }
    typed.sort();
    for (fam, ty, enc) in typed {
        let mut inputs = vec![enc.clone(), reframe(&mut rng, &enc), reframe(&mut rng, &enc)];
        let muts = typed_mutations(&mut rng, &enc);
        // types of fixed arity ([T; N], tuples, ranges, times, addresses, tagged values) meet every structural mutation of a small encoding (one
        // element fewer or more, other framing, other tag ...): their too-few / too-many / wrong-shape errors are written per configuration
        let fixed = fam == "tdec" && ["arr", "tup", "range", "duration", "systemtime", "ip", "sock", "tagged", "bound", "res", "unit", "phantom"].iter().any(|p| ty.starts_with(p));
        if fixed && enc.len() <= 40 { for m in muts.iter().take(if thorough { 400 } else { 120 }) { inputs.push(m.clone()) } }
        if fixed {
            // the outermost array announcing one element fewer / one more / none, and written with indefinite length
            let mut hs = Vec::new();
            let _ = walk(&enc, 0, &mut |h| hs.push(h));
            if let Some(h) = hs.first().copied().filter(|h| h.major == 4 && h.info != 31) {
                for n in [h.arg.wrapping_sub(1), h.arg + 1, 0] {
                    if n == h.arg || n > 1 << 20 { continue }
                    let mut m = Vec::new(); head(&mut m, 4, n, if n < 24 { 0 } else { 1 }); m.extend_from_slice(&enc[h.hl..]); inputs.push(m);
                }
                let mut m = vec![0x9f]; m.extend_from_slice(&enc[h.hl..]); m.push(0xff); inputs.push(m);
                // ... and really one element short (the last byte of a flat array of small integers is its last element)
                if h.arg > 0 && enc.len() > h.hl { let mut m = Vec::new(); head(&mut m, 4, h.arg - 1, if h.arg - 1 < 24 { 0 } else { 1 }); m.extend_from_slice(&enc[h.hl..enc.len() - 1]); inputs.push(m); }
            }
        }
        let take = if thorough { 12 } else { 4 };
        for _ in 0..take { if !muts.is_empty() { inputs.push(muts[rng.gen_range(0..muts.len())].clone()) } }
        for b in inputs {
            put(&fam, &ty, json!({"bytes": bytes(&b)}));
            if fam == "sde" { put("sser", &ty, json!({"bytes": bytes(&b)})) }
        }
    }
    // (4) encoder call sequences
    for _ in 0..(if thorough { 6000 } else { 800 }) {
        let k = rng.gen_range(1..6);
        let calls: Vec<Value> = (0..k).map(|_| {
            let a = rand_arg(&mut rng);
            match rng.gen_range(0..16) {
                0 => json!({"m":"u64","neg":false,"mag":crate::abs::u64b(a)}), 1 => json!({"m":"i64","neg":true,"mag":crate::abs::u64b(a >> 1)}),
                2 => json!({"m":"int","neg":rng.gen::<bool>(),"mag":crate::abs::u64b(a)}), 3 => json!({"m":"array","n":crate::abs::u64b(a)}),
                4 => json!({"m":"map","n":crate::abs::u64b(a)}), 5 => json!({"m":"tag","n":crate::abs::u64b(a)}),
                6 => json!({"m":"simple","i":rng.gen::<u8>()}), 7 => json!({"m":"f16","bits":bytes(&rng.gen::<u32>().to_be_bytes())}),
                8 => json!({"m":"f32","bits":bytes(&rng.gen::<u32>().to_be_bytes())}), 9 => json!({"m":"f64","bits":bytes(&rng.gen::<u64>().to_be_bytes())}),
                10 => json!({"m":"str","b":bytes("h\u{e9}llo".as_bytes())}), 11 => json!({"m":"bytes","b":bytes(&[1, 2, 3])}),
                12 => json!({"m":"begin_array"}), 13 => json!({"m":"begin_map"}), 14 => json!({"m":"end"}),
                _ => json!({"m":"char","i":rng.gen_range(0..0x11_0000u32)})
            }
        }).collect();
        put("encb", "calls", json!({"calls": calls}));
    }
    drop(put);
    out.flush().unwrap();
    println!("{}", json!({"lines": n}));
    0
}
