//! Abstract values: the dumb projection of Rust values to the JSON shapes the
//! TLA+ specification talks about.  No CBOR knowledge lives here.
use serde_json::{json, Value};

pub fn u64b(n: u64) -> Value {
    Value::Array(n.to_be_bytes().iter().map(|b| Value::from(*b)).collect())
}
pub fn bytes(b: &[u8]) -> Value {
    Value::Array(b.iter().map(|b| Value::from(*b)).collect())
}
pub fn get_bytes(v: &Value) -> Vec<u8> {
    v.as_array().map(|a| a.iter().map(|x| x.as_u64().unwrap() as u8).collect()).unwrap_or_default()
}
pub fn get_u64(v: &Value) -> u64 {
    let b = get_bytes(v);
    let mut a = [0u8; 8];
    a.copy_from_slice(&b);
    u64::from_be_bytes(a)
}
pub fn get_u128(v: &Value) -> u128 {
    let b = get_bytes(v);
    let mut a = [0u8; 16];
    a.copy_from_slice(&b);
    u128::from_be_bytes(a)
}

pub fn vint_i128(v: i128) -> Value {
    if v >= 0 { json!({"k":"int","neg":false,"mag":u64b(v as u64)}) }
    else { json!({"k":"int","neg":true,"mag":u64b((-1 - v) as u64)}) }
}
pub fn vint(neg: bool, mag: u64) -> Value { json!({"k":"int","neg":neg,"mag":u64b(mag)}) }
pub fn vint_of(i: minicbor::data::Int) -> Value {
    let v = i128::from(i);
    vint_i128(v)
}
pub fn vbool(b: bool) -> Value { json!({"k":"bool","b":b}) }
pub fn vunit() -> Value { json!({"k":"unit"}) }
pub fn vsimple(n: u8) -> Value { json!({"k":"simple","sv":n}) }
pub fn vf32(x: f32) -> Value { json!({"k":"float","w":4,"bits":bytes(&x.to_bits().to_be_bytes())}) }
pub fn vf64(x: f64) -> Value { json!({"k":"float","w":8,"bits":bytes(&x.to_bits().to_be_bytes())}) }
pub fn vchar(c: char) -> Value { json!({"k":"char","ch":c as u32}) }
pub fn vlen(n: Option<u64>) -> Value {
    match n { Some(n) => json!({"k":"len","def":true,"cnt":u64b(n)}), None => json!({"k":"len","def":false,"cnt":u64b(0)}) }
}
pub fn vtag(n: u64) -> Value { json!({"k":"tag","tg":u64b(n)}) }
pub fn vtype(t: &str) -> Value { json!({"k":"type","ty":t}) }
/// A slice that must be borrowed from `input`; `off` is its offset, or -1 if it does not point into the input.
pub fn vslice(kind: &str, input: &[u8], s: &[u8]) -> Value {
    let base = input.as_ptr() as usize;
    let p = s.as_ptr() as usize;
    let off: i64 = if s.is_empty() && !(p >= base && p <= base + input.len()) {
        -1
    } else if p >= base && p + s.len() <= base + input.len() { (p - base) as i64 } else { -1 };
    json!({"k":kind,"off":off,"len":s.len()})
}

pub fn ok(v: Value, pos: usize) -> Value { json!({"p":"ok","v":v,"pos":pos}) }
pub fn err(cls: &str, pos: usize) -> Value { json!({"p":"err","cls":cls,"pos":pos}) }

pub fn err_class(e: &minicbor::decode::Error) -> &'static str {
    #[cfg(feature = "alloc")]
    if e.is_custom() { return "custom" }
    if e.is_end_of_input() { "eoi" }
    else if e.is_type_mismatch() { "type" }
    else if e.is_tag_mismatch() { "tag" }
    else if e.is_message() { "msg" }
    else if e.is_unknown_variant() { "unkvar" }
    else if e.is_missing_value() { "missing" }
    else { "other" }
}

/// Does the observation satisfy one of the specification's outcome patterns?
pub fn matches(obs: &Value, pats: &Value) -> bool {
    // a record of expected observables (stateful replays): every listed field must be equal
    if let Some(o) = pats.as_object() {
        return o.iter().all(|(k, v)| &obs[k] == v)
    }
    let pats = match pats.as_array() { Some(a) => a, None => return false };
    pats.iter().any(|p| (p.get("opos").is_none() || p["opos"] == obs["opos"]) && match p["p"].as_str() {
        Some("any") => obs["p"] != "panic",
        Some("err") => obs["p"] == "err" && (p["cls"] == "*" || p["cls"] == obs["cls"]),
        Some("ok")  => obs["p"] == "ok" && obs["pos"] == p["pos"] && value_matches(&obs["v"], &p["v"]),
        _ => false
    })
}

fn is_nan_bits(b: &[u8]) -> bool {
    match b.len() {
        2 => { let x = u16::from_be_bytes([b[0], b[1]]); (x & 0x7c00) == 0x7c00 && (x & 0x03ff) != 0 }
        4 => f32::from_bits(u32::from_be_bytes([b[0], b[1], b[2], b[3]])).is_nan(),
        8 => { let mut a = [0u8; 8]; a.copy_from_slice(b); f64::from_bits(u64::from_be_bytes(a)).is_nan() }
        _ => false
    }
}

/// Equality of an observed value with a specification value; the specification may say "some NaN".
pub fn value_matches(obs: &Value, pat: &Value) -> bool {
    match pat["k"].as_str() {
        Some("floatnan") => obs["k"] == "float" && obs["w"] == pat["w"] && is_nan_bits(&get_bytes(&obs["bits"])),
        Some("encf16nan") => { let b = get_bytes(&obs["b"]); obs["k"] == "enc" && b.len() == 3 && b[0] == 0xf9 && is_nan_bits(&b[1..]) }
        _ => obs == pat
    }
}
