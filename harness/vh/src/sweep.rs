//! C02: the totality sweep.  Every entry point on every input of the sweep, each call under the panic
//! boundary and the counting allocator.  The oracle-free part of the invariant (no panic, position bound,
//! allocation bound) is evaluated here on every call because the sweep is far beyond TLC's trace throughput;
//! every violating event and a seeded sample of the others are written out for validation against the full model.
use crate::abs::bytes;
use crate::ops::run_op;
use rand::{rngs::StdRng, Rng, SeedableRng};
use serde_json::{json, Value};
use std::io::Write;

pub const ACCS: &[&str] = &["u8","u16","u32","u64","i8","i16","i32","i64","int","char","bool","null","undefined","simple","f16","f32","f64",
                            "bytes","str","bytes_iter","str_iter","array","map","tag","datatype","skip","item","array_iter","map_iter","array_iter_with","map_iter_with"];
/// entry points also run through Decoder::probe() (the probing decoder must stay where it was)
pub const PROBED: &[&str] = &["u64", "int", "str", "bytes_iter", "array", "map_iter", "tag", "datatype", "skip", "f64"];

fn alloc_bound(n: usize) -> usize { 256 * n + 16384 }

/// Run every entry point on (buf, pos); returns (calls, violations as events, all events if `keep`).
fn run_all(buf: &[u8], pos: usize, keep: bool, viol: &mut Vec<Value>, kept: &mut Vec<Value>) -> u64 {
    let mut calls = 0u64;
    let bj = bytes(buf);
    let bound = if pos > buf.len() { pos } else { buf.len() };
    for a in ACCS {
        let input = json!({"buf": bj, "pos": pos});
        crate::alloc::reset();
        let obs = run_op("acc", a, &input);
        let alloc = crate::alloc::total();
        calls += 1;
        let bad = obs["p"] == "panic" || obs["pos"].as_u64().map(|p| p as usize > bound).unwrap_or(true) || alloc > alloc_bound(buf.len()) + 4096;
        if bad || keep {
            let ev = json!({"fam":"acc","name":a,"in":input,"obs":obs,"alloc":alloc});
            if bad { viol.push(ev) } else { kept.push(ev) }
        }
    }
    for a in PROBED {
        let input = json!({"buf": bj, "pos": pos});
        crate::alloc::reset();
        let obs = run_op("probe", a, &input);
        let alloc = crate::alloc::total();
        calls += 1;
        let bad = obs["p"] == "panic" || obs["pos"].as_u64().map(|p| p as usize > bound).unwrap_or(true) || obs["opos"].as_u64() != Some(pos as u64) || alloc > alloc_bound(buf.len()) + 4096;
        if bad || keep {
            let ev = json!({"fam":"probe","name":a,"in":input,"obs":obs,"alloc":alloc});
            if bad { viol.push(ev) } else { kept.push(ev) }
        }
    }
    if pos == 0 {
        for name in crate::types::NAMES {
            let obs = crate::ops::guarded(|| crate::types::decode_named(name, buf).unwrap());
            calls += 1;
            let bad = obs["p"] != "run" || obs["pos"].as_u64().map(|p| p as usize > buf.len()).unwrap_or(true)
                || obs["alloc"].as_u64().map(|a| a as usize > alloc_bound(buf.len())).unwrap_or(true);
            if bad || keep {
                let ev = json!({"fam":"typed","name":"mut","ty":name,"buf":bj,"obs":obs});
                if bad { viol.push(ev) } else { kept.push(ev) }
            }
        }
        // tokenizer and display
        let obs = run_op("tok", "bytes", &json!({"buf": bj}));
        calls += 1;
        let bad = obs["p"] != "run" || obs["count"].as_u64().map(|c| c as usize > buf.len()).unwrap_or(true) || obs["bcount"].as_u64().map(|c| c as usize > buf.len()).unwrap_or(true);
        if bad || keep { let ev = json!({"fam":"tokcount","name":"tokens","in":{"buf": bj},"obs":{"p":obs["p"],"count":obs["count"],"bcount":obs["bcount"]}}); if bad { viol.push(ev) } else { kept.push(ev) } }
        let obs = run_op("display", "fmt", &json!({"buf": bj}));
        calls += 1;
        let bad = obs["p"] != "run" || obs["overflow"] == true;
        if bad || keep { let ev = json!({"fam":"dispbound","name":"fmt","in":{"buf": bj},"obs":{"p":obs["p"],"overflow":obs["overflow"],"n":obs["out"].as_array().map(|a| a.len()).unwrap_or(0)}}); if bad { viol.push(ev) } else { kept.push(ev) } }
    }
    calls
}

const ALPHA72: &[u8] = &[0, 1, 23, 24, 25, 26, 27, 28, 31, 32, 55, 56, 57, 58, 59, 60, 63, 64, 65, 66, 88, 91, 92, 95, 96, 97, 98, 120, 123, 127, 128, 129, 130, 152, 155,
    159, 160, 161, 184, 187, 191, 192, 193, 216, 219, 220, 223, 224, 243, 244, 245, 246, 247, 248, 249, 250, 251, 252, 254, 255, 194, 195, 169, 237, 140, 240, 144, 16, 100, 200, 226, 0x80];

/// vh sweep <tier> <seed> <outdir>
pub fn cmd_sweep(args: &[String]) -> i32 {
    let (tier, seed, dir) = (args[0].as_str(), args[1].parse::<u64>().unwrap_or(1), &args[2]);
    std::fs::create_dir_all(dir).unwrap();
    let thorough = tier == "thorough";
    // the inputs: all 1- and 2-byte strings; 3-byte strings: all 2^24 (thorough) or first byte x 72 x 24 representatives (quick)
    let mut inputs: Vec<[u8; 4]> = Vec::new();      // [len, b0, b1, b2]
    inputs.push([0, 0, 0, 0]);
    for a in 0..=255u8 { inputs.push([1, a, 0, 0]) }
    for a in 0..=255u8 { for b in 0..=255u8 { inputs.push([2, a, b, 0]) } }
    if thorough { for a in 0..=255u8 { for b in 0..=255u8 { for c in 0..=255u8 { inputs.push([3, a, b, c]) } } } }
    else { for a in 0..=255u8 { for &b in ALPHA72 { for &c in ALPHA72.iter().step_by(3) { inputs.push([3, a, b, c]) } } } }
    let nthreads = 14usize;
    let sample_every = if thorough { 4001 } else { 211 };
    let chunks: Vec<&[[u8; 4]]> = inputs.chunks((inputs.len() + nthreads - 1) / nthreads).collect();
    let results: Vec<(u64, Vec<Value>, Vec<Value>)> = std::thread::scope(|s| {
        let hs: Vec<_> = chunks.iter().enumerate().map(|(ti, ch)| s.spawn(move || {
            std::panic::set_hook(Box::new(|_| {}));
            let mut rng = StdRng::seed_from_u64(seed ^ (ti as u64) << 32);
            let (mut calls, mut viol, mut kept) = (0u64, vec![], vec![]);
            for inp in ch.iter() {
                let buf = &inp[1..1 + inp[0] as usize];
                let keep = rng.gen_range(0..sample_every) == 0;
                calls += run_all(buf, 0, keep, &mut viol, &mut kept);
                // an arbitrary position, including beyond the end
                let p = rng.gen_range(0..=buf.len() + 2);
                if p > 0 { calls += run_all(buf, p, keep && rng.gen_range(0..4) == 0, &mut viol, &mut kept); }
                if viol.len() > 200 { break }
            }
            (calls, viol, kept)
        })).collect();
        hs.into_iter().map(|h| h.join().unwrap()).collect()
    });
    let (mut calls, mut viol, mut kept) = (0u64, vec![], vec![]);
    for (c, v, k) in results { calls += c; viol.extend(v); kept.extend(k) }
    // structured hostile inputs: generated items (definite / indefinite containers nested both ways, tags, chunked strings) in which one
    // or two head arguments are replaced by boundary values (2^63, 2^64 - 1, ...), framing is flipped, a sibling is spliced in, the tail cut
    let nitems = if thorough { 30000 } else { 2500 };
    let mut structured: Vec<Vec<u8>> = Vec::new();
    {
        use crate::cbgen::*;
        let mut rng = StdRng::seed_from_u64(seed ^ 0x5717);
        for i in 0..nitems {
            let o = Opts { max_depth: 6, max_nodes: if i % 8 == 0 { 40 } else { 12 }, bad_utf8: i % 11 == 0, ..Opts::default() };
            let it = gen_item(&mut rng, &o);
            // (a seeded handful of the mutations of each item: all of them would be hundreds per item)
            let muts = typed_mutations(&mut rng, &it);
            let take = if thorough { 24 } else { 10 };
            for k in 0..take.min(muts.len()) { let m = &muts[if muts.len() <= take { k } else { rng.gen_range(0..muts.len()) }]; if m.len() <= 64 { structured.push(m.clone()) } }
            // a huge declared length right behind the switch of skip() into its stack mode
            if i % 16 == 0 {
                let arg = [0x8000_0000_0000_0000u64, u64::MAX, 0x7fff_ffff_ffff_ffff, 1 << 32][rng.gen_range(0..4)];
                for lead in [&[0x82u8, 0x9f][..], &[0xa1, 0x9f], &[0x82, 0xbf, 0x00], &[0x83, 0x00, 0x9f, 0x00], &[0x9f, 0x82, 0x9f]] {
                    for mj in [4u8, 5, 2, 3, 6] { let mut b = lead.to_vec(); head(&mut b, mj, arg, 8); structured.push(b.clone()); b.extend_from_slice(&it); if b.len() <= 64 { structured.push(b) } }
                }
            }
        }
    }
    let ninputs = inputs.len() + structured.len();
    let schunks: Vec<&[Vec<u8>]> = structured.chunks((structured.len() + nthreads - 1) / nthreads.max(1)).collect();
    let sresults: Vec<(u64, Vec<Value>, Vec<Value>)> = std::thread::scope(|s| {
        let hs: Vec<_> = schunks.iter().enumerate().map(|(ti, ch)| s.spawn(move || {
            std::panic::set_hook(Box::new(|_| {}));
            let mut rng = StdRng::seed_from_u64(seed ^ 0xabcd ^ (ti as u64) << 32);
            let (mut calls, mut viol, mut kept) = (0u64, vec![], vec![]);
            for buf in ch.iter() {
                let keep = rng.gen_range(0..(sample_every / 8).max(1)) == 0;
                calls += run_all(buf, 0, keep, &mut viol, &mut kept);
                if viol.len() > 200 { break }
            }
            (calls, viol, kept)
        })).collect();
        hs.into_iter().map(|h| h.join().unwrap()).collect()
    });
    for (c, v, k) in sresults { calls += c; viol.extend(v); kept.extend(k) }
    let mut shard = 0;
    for (i, ev) in viol.iter().chain(kept.iter()).enumerate() {
        if i % 4000 == 0 { shard = i / 4000 }
        let mut f = std::fs::OpenOptions::new().create(true).append(true).open(format!("{}/shard-{:04}.ndjson", dir, shard)).unwrap();
        writeln!(f, "{}", ev).unwrap();
    }
    println!("{}", json!({"inputs": ninputs, "calls": calls, "monitor_violations": viol.len(), "violations": viol.iter().take(20).collect::<Vec<_>>(),
                         "events": viol.len() + kept.len(), "samples": kept.iter().take(3).collect::<Vec<_>>()}));
    0
}
