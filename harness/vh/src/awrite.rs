//! C16: minicbor_io::AsyncWriter driven by a scripted (or seeded random) sink and caller.
use minicbor::encode::{self, Encode, Encoder, Write};
use minicbor_io::{AsyncWriter, Error};
use serde_json::{json, Value};
use std::cell::RefCell;
use std::collections::VecDeque;
use std::future::Future;
use std::pin::Pin;
use std::rc::Rc;
use std::task::{Context, Poll, Waker};

/// Value v (1-based) with payload length n (n >= 1), or n = -1: its Encode impl fails part-way.
#[derive(Debug, Clone, Copy)]
pub struct Wv { pub v: usize, pub n: i64 }

pub fn payload_of(v: usize, n: usize) -> Vec<u8> {
    (0..n).map(|i| if i == 0 { (v % 24) as u8 } else { ((v * 41 + i * 13) & 0xff) as u8 }).collect()
}
pub fn frame_of(v: usize, n: usize) -> Vec<u8> {
    let mut f = (n as u32).to_be_bytes().to_vec();
    f.extend_from_slice(&payload_of(v, n));
    f
}

impl<C> Encode<C> for Wv {
    fn encode<W: Write>(&self, e: &mut Encoder<W>, _: &mut C) -> Result<(), encode::Error<W::Error>> {
        if self.n < 0 {
            e.u8(7)?;                                  // scribble something first
            return Err(encode::Error::message("value refuses to encode"))
        }
        let p = payload_of(self.v, self.n as usize);
        if p.is_empty() { return Ok(()) }
        e.u8(p[0])?;                                   // p[0] < 24: a one-byte unsigned integer
        e.writer_mut().write_all(&p[1..]).map_err(encode::Error::write)
    }
}

#[derive(Debug, Clone, PartialEq)]
pub enum Step { Write(usize), Sync, Resume, Drop, Accept(usize), Zero, Pending, Fail }
impl Step {
    pub fn is_caller(&self) -> bool { matches!(self, Step::Write(_) | Step::Sync | Step::Resume | Step::Drop) }
    pub fn from_json(v: &Value) -> Step {
        let k = v["k"].as_u64().unwrap_or(0) as usize;
        match v["a"].as_str().unwrap() {
            "write" => Step::Write(k), "sync" => Step::Sync, "resume" => Step::Resume, "drop" => Step::Drop,
            "accept" => Step::Accept(k), "zero" => Step::Zero, "pending" => Step::Pending, "fail" => Step::Fail,
            x => panic!("bad step {}", x)
        }
    }
}

pub trait Policy { fn next(&mut self, offered: usize) -> Step; }

pub struct Shared {
    pub sink: Vec<u8>,
    pub script: VecDeque<Step>,
    pub policy: Option<Box<dyn Policy>>,
    pub log: Vec<Value>,
    pub desync: Option<String>
}
pub struct Sink(pub Rc<RefCell<Shared>>);

impl futures_io::AsyncWrite for Sink {
    fn poll_write(self: Pin<&mut Self>, _cx: &mut Context<'_>, buf: &[u8]) -> Poll<std::io::Result<usize>> {
        let mut s = self.0.borrow_mut();
        let scripted = s.policy.is_none();
        let step = if !scripted {
            let mut p = s.policy.take().unwrap();
            let st = if budget_over() { Step::Fail } else { p.next(buf.len()) };
            s.policy = Some(p);
            budget_note();
            st
        } else {
            match s.script.front().cloned() {
                Some(st) if !st.is_caller() => st,
                None => return Poll::Pending,
                _ => { if s.desync.is_none() { s.desync = Some("extra_write".into()) } return Poll::Pending }
            }
        };
        match step {
            Step::Accept(k) => {
                let n = k.min(buf.len());
                if n == 0 { if s.desync.is_none() { s.desync = Some("accept_zero_offered".into()) } return Poll::Pending }
                s.sink.extend_from_slice(&buf[..n]);
                if scripted { if k == n { s.script.pop_front(); } else { *s.script.front_mut().unwrap() = Step::Accept(k - n) } }
                else { s.log.push(json!({"ev":"accept","k":n,"offered":buf.len()})) }
                Poll::Ready(Ok(n))
            }
            Step::Zero => {
                if scripted { s.script.pop_front(); } else { s.log.push(json!({"ev":"zero","k":0,"offered":buf.len()})) }
                Poll::Ready(Ok(0))
            }
            Step::Pending => {
                if scripted { s.script.pop_front(); } else { s.log.push(json!({"ev":"pending","k":0,"offered":buf.len()})) }
                Poll::Pending
            }
            Step::Fail => {
                if scripted { s.script.pop_front(); } else { s.log.push(json!({"ev":"fail","k":0,"offered":buf.len()})) }
                Poll::Ready(Err(std::io::Error::new(std::io::ErrorKind::Other, "transient")))
            }
            _ => unreachable!()
        }
    }
    fn poll_flush(self: Pin<&mut Self>, _: &mut Context<'_>) -> Poll<std::io::Result<()>> { Poll::Ready(Ok(())) }
    fn poll_close(self: Pin<&mut Self>, _: &mut Context<'_>) -> Poll<std::io::Result<()>> { Poll::Ready(Ok(())) }
}

fn classify_err(e: Error) -> Value {
    match e {
        Error::Io(e) if e.kind() == std::io::ErrorKind::WriteZero => json!(["write_zero"]),
        Error::Io(_) => json!(["io_error"]),
        Error::InvalidLen => json!(["invalid_len"]),
        Error::Encode(_) => json!(["encode_err"]),
        _ => json!(["other_err"])
    }
}

enum Fut<'a> {
    W(Pin<Box<dyn Future<Output = Result<usize, Error>> + 'a>>),
    S(Pin<Box<dyn Future<Output = Result<(), Error>> + 'a>>)
}
impl Fut<'_> {
    fn poll(&mut self, cx: &mut Context<'_>) -> Poll<Value> {
        match self {
            Fut::W(f) => f.as_mut().poll(cx).map(|r| match r { Ok(n) => json!(["ok", n]), Err(e) => classify_err(e) }),
            Fut::S(f) => f.as_mut().poll(cx).map(|r| match r { Ok(()) => json!(["ok_sync"]), Err(e) => classify_err(e) })
        }
    }
}

pub fn vals_from_json(v: &Value) -> Vec<i64> { v.as_array().unwrap().iter().map(|x| x.as_i64().unwrap()).collect() }

pub fn run_script(vals: &[i64], maxlen: u32, sched: &[Step]) -> Value {
    let shared = Rc::new(RefCell::new(Shared { sink: vec![], script: sched.iter().cloned().collect(), policy: None, log: vec![], desync: None }));
    let mut writer = AsyncWriter::new(Sink(shared.clone()));
    writer.set_max_len(maxlen);
    let wp: *mut AsyncWriter<Sink> = &mut writer;
    let mut fut: Option<Fut> = None;
    let mut out: Vec<Value> = Vec::new();
    let waker = Waker::noop();
    let mut cx = Context::from_waker(&waker);
    loop {
        let step = { shared.borrow_mut().script.front().cloned() };
        let step = match step { Some(s) => s, None => break };
        if shared.borrow().desync.is_some() { break }
        match step {
            Step::Write(_) | Step::Sync | Step::Resume => {
                shared.borrow_mut().script.pop_front();
                match step {
                    Step::Write(v) => {
                        if fut.is_some() { shared.borrow_mut().desync = Some("start_while_future_alive".into()); break }
                        // SAFETY: the previous future (the only other borrow of the writer) has been dropped
                        fut = Some(Fut::W(Box::pin(unsafe { &mut *wp }.write(Wv { v, n: vals[v - 1] }))));
                    }
                    Step::Sync => {
                        if fut.is_some() { shared.borrow_mut().desync = Some("start_while_future_alive".into()); break }
                        fut = Some(Fut::S(Box::pin(unsafe { &mut *wp }.sync())));
                    }
                    _ => if fut.is_none() { shared.borrow_mut().desync = Some("resume_without_future".into()); break }
                }
                if let Poll::Ready(r) = fut.as_mut().unwrap().poll(&mut cx) { fut = None; out.push(r) }
            }
            Step::Drop => {
                shared.borrow_mut().script.pop_front();
                if fut.is_none() { shared.borrow_mut().desync = Some("drop_without_future".into()); break }
                fut = None;
            }
            _ => { shared.borrow_mut().desync = Some("missing_write".into()); break }
        }
    }
    drop(fut);
    let s = shared.borrow();
    json!({"p":"run","out": out, "sink": crate::abs::bytes(&s.sink), "desync": s.desync.clone().unwrap_or_default()})
}

/// The bytes denoted by the specification's identity pairs <<v, i>> (i-th byte of the frame of value v).
pub fn bytes_of_ids(vals: &[i64], ids: &Value) -> Vec<u8> {
    ids.as_array().unwrap().iter().map(|p| {
        let v = p[0].as_u64().unwrap() as usize;
        let i = p[1].as_u64().unwrap() as usize;
        frame_of(v, vals[v - 1].max(0) as usize)[i - 1]
    }).collect()
}

// ---------------------------------------------------------------- random walks (I->S) ----
use rand::{rngs::StdRng, Rng, SeedableRng};
struct RandomPolicy { rng: StdRng, pend_run: u32, faults_left: u32 }
impl Policy for RandomPolicy {
    fn next(&mut self, offered: usize) -> Step {
        let r = self.rng.gen_range(0..100);
        if r < 15 && self.pend_run < 3 { self.pend_run += 1; return Step::Pending }
        self.pend_run = 0;
        if r < 19 && self.faults_left > 0 { self.faults_left -= 1; return if r < 17 { Step::Fail } else { Step::Zero } }
        let k = match self.rng.gen_range(0..4) { 0 => 1, 1 => offered, _ => self.rng.gen_range(1..=offered) };
        Step::Accept(k)
    }
}

/// Event budget of one random run: an implementation that moves a large frame in very small pieces would otherwise produce
/// runs no validation finishes in time. Past the budget the scripted environment ends the run with an outcome the
/// specification has anyway (a failing sink / source), and the driver stops.
pub const EVENT_BUDGET: usize = 6000;
pub static NEV: core::sync::atomic::AtomicUsize = core::sync::atomic::AtomicUsize::new(0);
pub fn budget_reset() { NEV.store(0, core::sync::atomic::Ordering::Relaxed) }
pub fn budget_note() { NEV.fetch_add(1, core::sync::atomic::Ordering::Relaxed); }
pub fn budget_over() -> bool { NEV.load(core::sync::atomic::Ordering::Relaxed) >= EVENT_BUDGET }

/// The buffer a random run hands to `with_buffer` (None: `new`): what it holds and how much room it has is no part of any contract.
pub fn start_buffer(seed: u64) -> Option<Vec<u8>> {
    match seed % 4 {
        2 => Some(vec![0xee; 9]),
        3 => { let mut b = Vec::with_capacity(70_000); b.extend_from_slice(&[0xdd; 5]); Some(b) }
        _ => None
    }
}

/// One seeded random run of a compliant caller (after a write that did not return Ok while armed,
/// sync is driven to completion before the next write; both kinds of future may be dropped at Pending).
pub fn run_random(seed: u64, nvals: usize, max_payload: usize) -> Vec<Value> {
    let mut rng = StdRng::seed_from_u64(seed);
    budget_reset();
    let maxlen = if seed % 3 == 0 { (max_payload as u32 * 3) / 4 + 1 } else { max_payload as u32 };
    let vals: Vec<i64> = (0..nvals).map(|_| match rng.gen_range(0..12) { 0 => -1, 1 => 1, 2 => max_payload as i64, _ => rng.gen_range(1..=max_payload as i64) }).collect();
    let shared = Rc::new(RefCell::new(Shared { sink: vec![], script: VecDeque::new(),
        policy: Some(Box::new(RandomPolicy { rng: StdRng::seed_from_u64(seed ^ 0xabcd), pend_run: 0, faults_left: 6 })), log: vec![], desync: None }));
    let mut writer = match start_buffer(seed) { Some(b) => AsyncWriter::with_buffer(Sink(shared.clone()), b), None => AsyncWriter::new(Sink(shared.clone())) };
    writer.set_max_len(maxlen);
    let wp: *mut AsyncWriter<Sink> = &mut writer;
    let mut events = vec![json!({"ev":"reset","vals": vals, "maxlen": maxlen, "seed": seed})];
    let waker = Waker::noop();
    let mut cx = Context::from_waker(&waker);
    let mut fut: Option<Fut> = None;
    let mut next_v = 1usize;
    let mut must_sync = false;       // the writer may be armed with an unfinished frame
    let mut steps = 0;
    while (next_v <= nvals || must_sync || fut.is_some()) && steps < 50 * nvals + 100 && !budget_over() {
        steps += 1;
        let mut was_write = false;
        if fut.is_none() {
            if must_sync || rng.gen_range(0..10) == 0 {
                events.push(json!({"ev":"sync","k":0}));
                fut = Some(Fut::S(Box::pin(unsafe { &mut *wp }.sync())));
            } else if next_v <= nvals {
                events.push(json!({"ev":"write","k":next_v}));
                fut = Some(Fut::W(Box::pin(unsafe { &mut *wp }.write(Wv { v: next_v, n: vals[next_v - 1] }))));
                next_v += 1;
                was_write = true;
            } else { break }
        } else {
            events.push(json!({"ev":"resume","k":0}));
        }
        let _ = was_write;
        let is_w = matches!(fut, Some(Fut::W(_)));
        let r = fut.as_mut().unwrap().poll(&mut cx);
        for e in shared.borrow_mut().log.drain(..) { events.push(e) }
        let sink_len = shared.borrow().sink.len();
        match r {
            Poll::Ready(r) => {
                fut = None;
                let kind = r[0].as_str().unwrap().to_string();
                // a completed write or sync leaves nothing behind; a sink failure leaves the frame armed
                if kind == "ok" || kind == "ok_sync" { must_sync = false }
                else if kind == "io_error" || kind == "write_zero" { must_sync = true }
                let _ = is_w;
                events.push(json!({"ev":"ret","k":0,"r":r,"sinklen":sink_len}));
            }
            Poll::Pending => {
                if rng.gen_range(0..100) < 35 { fut = None; must_sync = true; events.push(json!({"ev":"drop","k":0})); }
            }
        }
    }
    drop(fut);
    let s = shared.borrow();
    events.push(json!({"ev":"end","k":0,"sink": crate::abs::bytes(&s.sink)}));
    events
}
