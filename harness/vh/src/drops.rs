//! C02, drop accounting: an element type that registers its creation (on decode) and its drop.
use crate::abs::bytes;
use minicbor::decode::{Decode, Decoder, Error};
use serde_json::{json, Value};
use std::cell::RefCell;
use std::collections::BTreeMap;

thread_local! {
    static CREATED: RefCell<Vec<u32>> = RefCell::new(vec![]);
    static DROPPED: RefCell<Vec<u32>> = RefCell::new(vec![]);
}
#[derive(Debug, PartialEq, Eq, PartialOrd, Ord)]
pub struct Counted(u32);
impl<'b, C> Decode<'b, C> for Counted {
    fn decode(d: &mut Decoder<'b>, _: &mut C) -> Result<Self, Error> {
        d.u8()?;
        let id = CREATED.with(|c| { let mut c = c.borrow_mut(); let id = c.len() as u32 + 1; c.push(id); id });
        Ok(Counted(id))
    }
}
impl Drop for Counted { fn drop(&mut self) { DROPPED.with(|d| d.borrow_mut().push(self.0)) } }

fn run<T: for<'b> Decode<'b, ()>>(buf: &[u8]) -> Value {
    CREATED.with(|c| c.borrow_mut().clear());
    DROPPED.with(|d| d.borrow_mut().clear());
    let r: Result<T, Error> = minicbor::decode(buf);
    let ok = r.is_ok();
    let before: Vec<u32> = DROPPED.with(|d| d.borrow().clone());
    drop(r);
    let after: Vec<u32> = DROPPED.with(|d| d.borrow()[before.len()..].to_vec());
    let created: Vec<u32> = CREATED.with(|c| c.borrow().clone());
    json!({"p":"run","ok":ok,"created":created,"before":before,"after":after})
}

pub fn op(name: &str, buf: &[u8]) -> Value {
    match name {
        "arr3" => run::<[Counted; 3]>(buf), "vec" => run::<Vec<Counted>>(buf), "tup3" => run::<(Counted, Counted, Counted)>(buf),
        "result" => run::<Result<Counted, Counted>>(buf), "map" => run::<BTreeMap<u8, Counted>>(buf), "opt" => run::<Option<Counted>>(buf),
        "vecvec" => run::<Vec<Vec<Counted>>>(buf), "box" => run::<Box<Counted>>(buf), "arr0" => run::<[Counted; 0]>(buf),
        "vecarr2" => run::<Vec<[Counted; 2]>>(buf), "deque" => run::<std::collections::VecDeque<Counted>>(buf),
        "list" => run::<std::collections::LinkedList<Counted>>(buf), "heap" => run::<std::collections::BinaryHeap<Counted>>(buf),
        "set" => run::<std::collections::BTreeSet<Counted>>(buf), "range" => run::<core::ops::Range<Counted>>(buf),
        "bound" => run::<core::ops::Bound<Counted>>(buf),
        _ => json!({"p":"unsupported"})
    }
}
pub const NAMES: &[&str] = &["arr3", "vec", "tup3", "result", "map", "opt", "vecvec", "box", "arr0", "vecarr2", "deque", "list", "heap", "set", "range", "bound"];

/// Inputs: arrays / maps of k good elements with a failure injected at element j (a text item), truncated,
/// too long, too short, indefinite.
pub fn inputs() -> Vec<Vec<u8>> {
    let mut v: Vec<Vec<u8>> = vec![];
    for n in 0..=5u8 {
        for j in 0..=n {                       // j == n: no failure injected
            for indef in [false, true] {
                let mut b = vec![if indef { 0x9f } else { 0x80 + n }];
                for i in 0..n { if i == j { b.push(0x61); b.push(0x78) } else { b.push(i) } }
                if indef { b.push(0xff) }
                v.push(b.clone());
                if !b.is_empty() { b.pop(); v.push(b) }                 // truncated
            }
        }
    }
    // nested arrays, maps, [idx, value] variants
    for b in [vec![0x82, 0x82, 0, 1, 0x82, 2, 0x60], vec![0x82, 0x81, 0, 0x82, 1], vec![0xa2, 0, 1, 0, 2], vec![0xa2, 0, 1, 1, 0x60], vec![0xa3, 0, 1, 1, 2],
              vec![0x82, 0, 5], vec![0x82, 1, 5], vec![0x82, 2, 0x80], vec![0x82, 0, 0x60], vec![0x82, 7, 5], vec![0xf6], vec![5], vec![0x60],
              vec![0x82, 0x82, 0, 1, 0x82, 2, 3], vec![0x83, 0x82, 0, 1, 0x82, 2, 3, 0x82, 4, 0x60], vec![0x82, 0x82, 0, 1, 0x81, 2]] { v.push(b) }
    v
}
pub fn events() -> Vec<Value> {
    let mut out = vec![];
    for buf in inputs() { for n in NAMES { out.push(json!({"fam":"drop","name":n,"in":{"buf":bytes(&buf)},"obs":crate::ops::guarded(|| op(n, &buf))})) } }
    out
}
