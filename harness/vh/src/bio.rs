//! C14: the blocking frame Reader / Writer driven by a scripted (or seeded random) io::Read / io::Write.
use crate::frames::*;
use crate::awrite::{Wv, vals_from_json};
use minicbor_io::{Error, Reader, Writer};
use rand::{rngs::StdRng, Rng, SeedableRng};
use serde_json::{json, Value};
use std::cell::RefCell;
use std::collections::VecDeque;
use std::io;
use std::rc::Rc;

// ------------------------------------------------------------------ reader ----
pub struct RShared {
    pub stream: Vec<u8>, pub rd: usize,
    pub script: Option<VecDeque<Value>>,          // None: random mode
    pub rng: StdRng, pub intr_run: u32,
    pub log: Vec<Value>, pub desync: Option<String>
}
pub struct RSource(pub Rc<RefCell<RShared>>);
impl io::Read for RSource {
    fn read(&mut self, buf: &mut [u8]) -> io::Result<usize> {
        let mut s = self.0.borrow_mut();
        let avail = s.stream.len() - s.rd;
        let (a, k) = if s.script.is_some() {
            let front = s.script.as_ref().unwrap().front().cloned();
            match front {
                Some(st) if st["a"] != "read" => (st["a"].as_str().unwrap().to_string(), st["k"].as_u64().unwrap_or(0) as usize),
                None => {
                    // the schedule ends here; a blocking reader cannot be suspended, so fail the call with a marker error
                    return Err(io::Error::new(io::ErrorKind::Other, "schedule-end"))
                }
                _ => { if s.desync.is_none() { s.desync = Some("extra_read".into()) } return Err(io::Error::new(io::ErrorKind::Other, "schedule-end")) }
            }
        } else {
            // past the event budget the run simply stops inside this call (as at the end of a scripted schedule)
            if crate::awrite::budget_over() { return Err(io::Error::new(io::ErrorKind::Other, "schedule-end")) }
            crate::awrite::budget_note();
            let r = s.rng.gen_range(0..100);
            if r < 15 && s.intr_run < 3 { s.intr_run += 1; ("intr".to_string(), 0) }
            else if avail == 0 { ("eof".to_string(), 0) }
            else {
                s.intr_run = 0;
                let m = buf.len().min(avail);
                let k = match s.rng.gen_range(0..4) { 0 => 1, 1 => m, _ => s.rng.gen_range(1..=m) };
                ("deliver".to_string(), k)
            }
        };
        let scripted = s.script.is_some();
        match a.as_str() {
            "deliver" => {
                let n = k.min(buf.len()).min(avail);
                if n == 0 { if s.desync.is_none() { s.desync = Some("deliver_zero".into()) } return Err(io::Error::new(io::ErrorKind::Other, "schedule-end")) }
                let rd = s.rd;
                buf[..n].copy_from_slice(&s.stream[rd..rd + n]);
                s.rd += n;
                if scripted {
                    let q = s.script.as_mut().unwrap();
                    if k == n { q.pop_front(); } else { q.front_mut().unwrap()["k"] = json!(k - n) }
                } else { s.log.push(json!({"ev":"deliver","k":n,"req":buf.len()})) }
                Ok(n)
            }
            "intr" => {
                if scripted { s.script.as_mut().unwrap().pop_front(); } else { s.log.push(json!({"ev":"intr","k":0})) }
                Err(io::Error::new(io::ErrorKind::Interrupted, "interrupted"))
            }
            "eof" => {
                if avail != 0 && s.desync.is_none() { s.desync = Some("eof_with_bytes_left".into()) }
                if scripted { s.script.as_mut().unwrap().pop_front(); } else { s.log.push(json!({"ev":"eof","k":0})) }
                Ok(0)
            }
            _ => unreachable!()
        }
    }
}

fn is_schedule_end(e: &Error) -> bool { matches!(e, Error::Io(e) if e.to_string() == "schedule-end") }

pub fn real_stream(frames: &[FrameSpec]) -> Vec<u8> {
    let mut s = Vec::new();
    for (i, fr) in frames.iter().enumerate() {
        let claimed: u32 = if fr.huge { 0x7fff_fff0 } else { fr.n as u32 };
        s.extend_from_slice(&claimed.to_be_bytes());
        s.extend_from_slice(&payload(i + 1, fr));
    }
    s
}

pub fn run_read_script(frames: &[FrameSpec], cut: usize, maxlen: u32, sched: &Value) -> Value {
    let mut stream = real_stream(frames);
    stream.truncate(cut);
    let shared = Rc::new(RefCell::new(RShared { stream, rd: 0, script: Some(sched.as_array().unwrap().iter().cloned().collect()),
        rng: StdRng::seed_from_u64(0), intr_run: 0, log: vec![], desync: None }));
    let mut reader = Reader::new(RSource(shared.clone()));
    reader.set_max_len(maxlen);
    let mut out: Vec<Value> = vec![];
    let mut maxalloc = 0usize;
    loop {
        let front = { shared.borrow().script.as_ref().unwrap().front().cloned() };
        let st = match front { Some(s) => s, None => break };
        if shared.borrow().desync.is_some() { break }
        if st["a"] != "read" { shared.borrow_mut().desync = Some("missing_read".into()); break }
        shared.borrow_mut().script.as_mut().unwrap().pop_front();
        crate::alloc::reset();
        let r = reader.read::<Fr>();
        maxalloc = maxalloc.max(crate::alloc::max_one());
        match r {
            Err(ref e) if is_schedule_end(e) => break,
            r => out.push(crate::aread::classify(r, frames))
        }
    }
    let s = shared.borrow();
    json!({"p":"run","out": out, "rd": s.rd, "desync": s.desync.clone().unwrap_or_default(),
           "allocok": maxalloc <= 2 * maxlen as usize + 4096, "maxalloc": maxalloc})
}

/// One seeded random run of the blocking reader: header, then one event per caller read(), inner read and result.
pub fn run_read_random(seed: u64, nframes: usize, max_payload: usize) -> Vec<Value> {
    let mut rng = StdRng::seed_from_u64(seed);
    crate::awrite::budget_reset();
    let maxlen = if seed % 4 == 0 { (max_payload as u32 * 3) / 4 + 1 } else { max_payload as u32 };
    let frames: Vec<FrameSpec> = (0..nframes).map(|i| {
        let n = match rng.gen_range(0..10) { 0 => 0, 1 => 1, 2 => max_payload, _ => rng.gen_range(1..=max_payload) };
        FrameSpec { n, good: n >= min_good_len(i + 1) && rng.gen_range(0..8) != 0, huge: n > maxlen as usize && rng.gen_range(0..2) == 0 }
    }).collect();
    let mut stream = real_stream(&frames);
    let total = stream.len();
    let cut = if rng.gen_range(0..3) != 0 { total } else { rng.gen_range(0..=total) };
    stream.truncate(cut);
    let shared = Rc::new(RefCell::new(RShared { stream, rd: 0, script: None, rng: StdRng::seed_from_u64(seed ^ 0x77), intr_run: 0, log: vec![], desync: None }));
    let mut reader = match crate::awrite::start_buffer(seed) { Some(b) => Reader::with_buffer(RSource(shared.clone()), b), None => Reader::new(RSource(shared.clone())) };
    reader.set_max_len(maxlen);
    let mut events = vec![json!({"ev":"reset","frames": frames.iter().map(|f| json!({"n":f.n,"good":f.good,"huge":f.huge})).collect::<Vec<_>>(),
                                 "cut": cut, "maxlen": maxlen, "seed": seed})];
    let mut ends = 0;
    for _ in 0..(nframes + 3) {
        events.push(json!({"ev":"read","k":0}));
        crate::alloc::reset();
        let r = reader.read::<Fr>();
        let big = crate::alloc::max_one() > 2 * maxlen as usize + 4096;
        for e in shared.borrow_mut().log.drain(..) { events.push(e) }
        if matches!(&r, Err(e) if is_schedule_end(e)) { break }
        let c = crate::aread::classify(r, &frames);
        let kind = c[0].as_str().unwrap().to_string();
        events.push(json!({"ev":"ret","k":0,"r":c,"bigalloc":big}));
        if kind == "end" { ends += 1; if ends == 2 { break } }
        if kind == "invalid_len" || kind == "unexpected_eof" { break }
    }
    events
}

// ------------------------------------------------------------------ writer ----
pub struct WShared { pub sink: Vec<u8>, pub script: Option<VecDeque<Value>>, pub rng: StdRng, pub intr_run: u32, pub faults_left: u32,
                     pub log: Vec<Value>, pub desync: Option<String> }
pub struct WSink(pub Rc<RefCell<WShared>>);
impl io::Write for WSink {
    fn write(&mut self, buf: &[u8]) -> io::Result<usize> {
        let mut s = self.0.borrow_mut();
        let scripted = s.script.is_some();
        let (a, k) = if scripted {
            let front = s.script.as_ref().unwrap().front().cloned();
            match front {
                Some(st) if st["a"] != "write" => (st["a"].as_str().unwrap().to_string(), st["k"].as_u64().unwrap_or(0) as usize),
                None => return Err(io::Error::new(io::ErrorKind::Other, "schedule-end")),
                _ => { if s.desync.is_none() { s.desync = Some("extra_write".into()) } return Err(io::Error::new(io::ErrorKind::Other, "schedule-end")) }
            }
        } else if crate::awrite::budget_over() { ("fail".to_string(), 0) } else {
            crate::awrite::budget_note();
            let r = s.rng.gen_range(0..100);
            if r < 15 && s.intr_run < 3 { s.intr_run += 1; ("intr".to_string(), 0) }
            else if r < 17 && s.faults_left > 0 { s.faults_left -= 1; (if r < 16 { "zero" } else { "fail" }.to_string(), 0) }
            else { s.intr_run = 0; let k = match s.rng.gen_range(0..4) { 0 => 1, 1 => buf.len(), _ => s.rng.gen_range(1..=buf.len()) }; ("accept".to_string(), k) }
        };
        match a.as_str() {
            "accept" => {
                let n = k.min(buf.len());
                if n == 0 { if s.desync.is_none() { s.desync = Some("accept_zero_offered".into()) } return Err(io::Error::new(io::ErrorKind::Other, "schedule-end")) }
                s.sink.extend_from_slice(&buf[..n]);
                if scripted { let q = s.script.as_mut().unwrap(); if k == n { q.pop_front(); } else { q.front_mut().unwrap()["k"] = json!(k - n) } }
                else { s.log.push(json!({"ev":"accept","k":n,"offered":buf.len()})) }
                Ok(n)
            }
            "intr" => { if scripted { s.script.as_mut().unwrap().pop_front(); } else { s.log.push(json!({"ev":"intr","k":0})) }
                        Err(io::Error::new(io::ErrorKind::Interrupted, "interrupted")) }
            "zero" => { if scripted { s.script.as_mut().unwrap().pop_front(); } else { s.log.push(json!({"ev":"zero","k":0})) } Ok(0) }
            "fail" => { if scripted { s.script.as_mut().unwrap().pop_front(); } else { s.log.push(json!({"ev":"fail","k":0})) }
                        Err(io::Error::new(io::ErrorKind::Other, "transient")) }
            _ => unreachable!()
        }
    }
    fn flush(&mut self) -> io::Result<()> { Ok(()) }
}

fn classify_w(r: Result<usize, Error>) -> Value {
    match r {
        Ok(n) => json!(["ok", n]),
        Err(Error::Io(e)) if e.kind() == io::ErrorKind::WriteZero => json!(["write_zero"]),
        Err(Error::Io(_)) => json!(["io_error"]),
        Err(Error::InvalidLen) => json!(["invalid_len"]),
        Err(Error::Encode(_)) => json!(["encode_err"]),
        Err(_) => json!(["other_err"])
    }
}

pub fn run_write_script(vals: &[i64], maxlen: u32, sched: &Value) -> Value {
    let shared = Rc::new(RefCell::new(WShared { sink: vec![], script: Some(sched.as_array().unwrap().iter().cloned().collect()),
        rng: StdRng::seed_from_u64(0), intr_run: 0, faults_left: 0, log: vec![], desync: None }));
    let mut writer = Writer::new(WSink(shared.clone()));
    writer.set_max_len(maxlen);
    let mut out: Vec<Value> = vec![];
    loop {
        let front = { shared.borrow().script.as_ref().unwrap().front().cloned() };
        let st = match front { Some(s) => s, None => break };
        if shared.borrow().desync.is_some() { break }
        if st["a"] != "write" { shared.borrow_mut().desync = Some("missing_write".into()); break }
        shared.borrow_mut().script.as_mut().unwrap().pop_front();
        let v = st["k"].as_u64().unwrap() as usize;
        match writer.write(Wv { v, n: vals[v - 1] }) {
            Err(ref e) if is_schedule_end(e) => break,
            r => out.push(classify_w(r))
        }
    }
    let s = shared.borrow();
    json!({"p":"run","out": out, "sink": crate::abs::bytes(&s.sink), "desync": s.desync.clone().unwrap_or_default()})
}

pub fn run_write_random(seed: u64, nvals: usize, max_payload: usize) -> Vec<Value> {
    crate::awrite::budget_reset();
    let mut rng = StdRng::seed_from_u64(seed);
    let maxlen = if seed % 3 == 0 { (max_payload as u32 * 3) / 4 + 1 } else { max_payload as u32 };
    let vals: Vec<i64> = (0..nvals).map(|_| match rng.gen_range(0..12) { 0 => -1, 1 => 1, 2 => max_payload as i64, _ => rng.gen_range(1..=max_payload as i64) }).collect();
    let shared = Rc::new(RefCell::new(WShared { sink: vec![], script: None, rng: StdRng::seed_from_u64(seed ^ 0x99), intr_run: 0, faults_left: 1, log: vec![], desync: None }));
    let mut writer = match crate::awrite::start_buffer(seed) { Some(b) => Writer::with_buffer(WSink(shared.clone()), b), None => Writer::new(WSink(shared.clone())) };
    writer.set_max_len(maxlen);
    let mut events = vec![json!({"ev":"reset","vals": vals, "maxlen": maxlen, "seed": seed})];
    for v in 1..=nvals {
        events.push(json!({"ev":"write","k":v}));
        let r = writer.write(Wv { v, n: vals[v - 1] });
        for e in shared.borrow_mut().log.drain(..) { events.push(e) }
        let c = classify_w(r);
        let kind = c[0].as_str().unwrap().to_string();
        events.push(json!({"ev":"ret","k":0,"r":c,"sinklen":shared.borrow().sink.len()}));
        if kind == "io_error" || kind == "write_zero" { break }
    }
    let s = shared.borrow();
    events.push(json!({"ev":"end","k":0,"sink": crate::abs::bytes(&s.sink)}));
    events
}

pub fn vals(v: &Value) -> Vec<i64> { vals_from_json(v) }
