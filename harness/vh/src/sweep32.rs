//! Full sweeps of the 32-bit argument space against decision tables emitted by TLC (spec/MC_Tables.tla).
//! The specification's outcome for an integer read / for head selection depends only on the class (major, bit length) of the
//! argument; TLC emits the table over the classes and checks constancy on class representatives.  Here every argument of the
//! 1-, 2- and 4-byte head widths is run through every integer accessor, every integer-like typed decode and every integer
//! Encoder method, and compared with the row of its class.  Trusted here: the class function (leading_zeros) and to_be_bytes.
use minicbor::data::Int;
use minicbor::{Decoder, Encoder};
use serde_json::{json, Value};
use std::collections::HashMap;

fn bl(a: u64) -> usize { (64 - a.leading_zeros()) as usize }
fn head(mj: u8, a: u64, w: u8) -> ([u8; 9], usize) {
    let mut b = [0u8; 9];
    let m = mj << 5;
    match w {
        0 => { b[0] = m | a as u8; (b, 1) }
        1 => { b[0] = m | 24; b[1] = a as u8; (b, 2) }
        2 => { b[0] = m | 25; b[1..3].copy_from_slice(&(a as u16).to_be_bytes()); (b, 3) }
        4 => { b[0] = m | 26; b[1..5].copy_from_slice(&(a as u32).to_be_bytes()); (b, 5) }
        _ => { b[0] = m | 27; b[1..9].copy_from_slice(&a.to_be_bytes()); (b, 9) }
    }
}

/// (ok, value as i128 if ok, position) of reading `buf` as the named target.
macro_rules! acc { ($d:ident, $m:ident) => {{ let r = $d.$m(); (r.is_ok(), r.map(|v| v as i128).unwrap_or(0), $d.position()) }} }
macro_rules! dec { ($d:ident, $t:ty) => {{ let r: Result<$t, _> = $d.decode(); (r.is_ok(), r.map(|v| v as i128).unwrap_or(0), $d.position()) }} }
macro_rules! decnz { ($d:ident, $t:ty) => {{ let r: Result<$t, _> = $d.decode(); (r.is_ok(), r.map(|v| v.get() as i128).unwrap_or(0), $d.position()) }} }
macro_rules! decat { ($d:ident, $t:ty) => {{ let r: Result<$t, _> = $d.decode(); (r.is_ok(), r.map(|v| v.into_inner() as i128).unwrap_or(0), $d.position()) }} }

pub const READERS: &[&str] = &["u8","u16","u32","u64","i8","i16","i32","i64","int","usize","isize",
    "nzu8","nzu16","nzu32","nzu64","nzusize","nzi8","nzi16","nzi32","nzi64","nzisize",
    "au8","au16","au32","au64","ausize","ai8","ai16","ai32","ai64","aisize","wu8","wi64"];

fn read(ix: usize, buf: &[u8], typed: bool) -> (bool, i128, usize) {
    use core::num::*;
    use core::sync::atomic::*;
    let mut d = Decoder::new(buf);
    match ix {
        0 => if typed { dec!(d, u8) } else { acc!(d, u8) }, 1 => if typed { dec!(d, u16) } else { acc!(d, u16) },
        2 => if typed { dec!(d, u32) } else { acc!(d, u32) }, 3 => if typed { dec!(d, u64) } else { acc!(d, u64) },
        4 => if typed { dec!(d, i8) } else { acc!(d, i8) }, 5 => if typed { dec!(d, i16) } else { acc!(d, i16) },
        6 => if typed { dec!(d, i32) } else { acc!(d, i32) }, 7 => if typed { dec!(d, i64) } else { acc!(d, i64) },
        8 => { let r = if typed { d.decode::<Int>() } else { d.int() }; (r.is_ok(), r.map(i128::from).unwrap_or(0), d.position()) }
        9 => dec!(d, usize), 10 => dec!(d, isize),
        11 => decnz!(d, NonZeroU8), 12 => decnz!(d, NonZeroU16), 13 => decnz!(d, NonZeroU32), 14 => decnz!(d, NonZeroU64), 15 => decnz!(d, NonZeroUsize),
        16 => decnz!(d, NonZeroI8), 17 => decnz!(d, NonZeroI16), 18 => decnz!(d, NonZeroI32), 19 => decnz!(d, NonZeroI64), 20 => decnz!(d, NonZeroIsize),
        21 => decat!(d, AtomicU8), 22 => decat!(d, AtomicU16), 23 => decat!(d, AtomicU32), 24 => decat!(d, AtomicU64), 25 => decat!(d, AtomicUsize),
        26 => decat!(d, AtomicI8), 27 => decat!(d, AtomicI16), 28 => decat!(d, AtomicI32), 29 => decat!(d, AtomicI64), 30 => decat!(d, AtomicIsize),
        31 => { let r: Result<Wrapping<u8>, _> = d.decode(); (r.is_ok(), r.map(|v| v.0 as i128).unwrap_or(0), d.position()) }
        _ => { let r: Result<Wrapping<i64>, _> = d.decode(); (r.is_ok(), r.map(|v| v.0 as i128).unwrap_or(0), d.position()) }
    }
}

/// The bytes an integer Encoder method writes for (neg, mag), or None if the value is not in the method's domain.
fn enc(m: usize, neg: bool, mag: u64) -> Option<([u8; 12], usize)> {
    let v: i128 = if neg { -1 - mag as i128 } else { mag as i128 };
    let mut out = [0u8; 12];
    let mut e = Encoder::new(minicbor::encode::write::Cursor::new(&mut out[..]));
    macro_rules! put { ($meth:ident, $t:ty) => {{ let x = <$t>::try_from(v).ok()?; e.$meth(x).ok()?; }} }
    match m { 0 => put!(u8, u8), 1 => put!(u16, u16), 2 => put!(u32, u32), 3 => put!(u64, u64), 4 => put!(i8, i8), 5 => put!(i16, i16), 6 => put!(i32, i32), 7 => put!(i64, i64),
              _ => { let x = Int::try_from(v).ok()?; e.int(x).ok()?; } }
    let n = e.writer().position();
    Some((out, n))
}
const ENCODERS: &[&str] = &["u8","u16","u32","u64","i8","i16","i32","i64","int"];

struct Tables { read: Vec<[bool; 130]>, typed: Vec<bool>, width: [u8; 65] }

fn load(path: &str) -> Tables {
    let mut rows: HashMap<(String, usize, usize), bool> = HashMap::new();
    let mut width = [0u8; 65];
    for line in std::fs::read_to_string(path).expect("table").lines() {
        let r: Value = serde_json::from_str(line).expect("row");
        let (m, b) = (r["mj"].as_u64().unwrap() as usize, r["bl"].as_u64().unwrap() as usize);
        if r["kind"] == "width" { width[b] = r["w"].as_u64().unwrap() as u8 } else { rows.insert((r["t"].as_str().unwrap().to_string(), m, b), r["ok"] == true); }
    }
    let mut read = vec![];
    for t in READERS { let mut a = [false; 130]; for m in 0..2 { for b in 0..65 { a[m * 65 + b] = *rows.get(&(t.to_string(), m, b)).unwrap_or_else(|| panic!("no table row for {} {} {}", t, m, b)) } } read.push(a) }
    Tables { read, typed: READERS.iter().enumerate().map(|(i, _)| i >= 9).collect(), width }
}

/// vh sweep32 <table.ndjson> <stride> <out.json>: every `stride`-th argument below 2^32 (stride 1 = all), plus the boundaries.
pub fn cmd_sweep32(args: &[String]) -> i32 {
    let tables = load(&args[0]);
    let stride: u64 = args[1].parse().unwrap_or(1);
    let nthreads = std::thread::available_parallelism().map(|n| n.get()).unwrap_or(8).min(16) as u64;
    let total: u64 = 1 << 32;
    let per = total / nthreads;
    let results: Vec<(u64, u64, Vec<Value>)> = std::thread::scope(|s| {
        let hs: Vec<_> = (0..nthreads).map(|k| {
            let tables = &tables;
            s.spawn(move || {
                let (mut reads, mut encs, mut bad) = (0u64, 0u64, Vec::<Value>::new());
                let (lo, hi) = (k * per, if k == nthreads - 1 { total } else { (k + 1) * per });
                let mut a = lo + (k * 7919) % stride.max(1);
                while a < hi {
                    let class = bl(a);
                    for mj in 0..2u8 {
                        let neg = mj == 1;
                        let want: i128 = if neg { -1 - a as i128 } else { a as i128 };
                        // every width that can carry the argument
                        for w in [0u8, 1, 2, 4] {
                            if (w == 0 && a >= 24) || (w == 1 && a > 0xff) || (w == 2 && a > 0xffff) { continue }
                            let (buf, n) = head(mj, a, w);
                            for (ix, name) in READERS.iter().enumerate() {
                                // the plain accessors at every point; the typed decodes of the primitive types too; the wrappers on a 1/8 stratum
                                if ix >= 9 && (a % 8 != (ix as u64) % 8) && a > 0x1_0000 && class < 31 { continue }
                                let (ok, v, pos) = read(ix, &buf[..n], tables.typed[ix] || a % 2 == 1);
                                reads += 1;
                                let exp = tables.read[ix][mj as usize * 65 + class];
                                if ok != exp || (ok && (v != want || pos != n)) {
                                    if bad.len() < 6 { bad.push(json!({"kind":"read","t":name,"mj":mj,"w":w,"arg":a,"ok":ok,"expected_ok":exp,"value_is_identity":v == want,"pos":pos})) }
                                }
                            }
                        }
                        // the integer Encoder methods: the head width of the class, the argument big-endian
                        let w = if class == 5 { if a < 24 { 0 } else { 1 } } else { tables.width[class] };
                        let (hb, n) = head(mj, a, w);
                        for (m, name) in ENCODERS.iter().enumerate() {
                            if let Some((out, k)) = enc(m, neg, a) {
                                encs += 1;
                                if out[..k] != hb[..n] && bad.len() < 6 { bad.push(json!({"kind":"enc","t":name,"mj":mj,"arg":a,"wrote":out[..k].to_vec(),"expected":hb[..n].to_vec()})) }
                            }
                        }
                    }
                    a += stride;
                }
                (reads, encs, bad)
            })
        }).collect();
        hs.into_iter().map(|h| h.join().unwrap()).collect()
    });
    let (mut reads, mut encs, mut bad) = (0u64, 0u64, vec![]);
    for (r, e, b) in results { reads += r; encs += e; bad.extend(b) }
    let out = json!({"reads": reads, "encodes": encs, "stride": stride, "mismatches": bad});
    std::fs::write(&args[2], out.to_string()).unwrap();
    println!("{}", json!({"reads": reads, "encodes": encs, "stride": stride, "mismatches": bad.len()}));
    0
}

/// vh sweepf16 <table.bin> <out.json>: Encoder::f16 on every single-precision bit pattern whose rounding class has a row in the table
/// (a little-endian u16 per class index ((s * 256 + e) * 1024 + lead) * 4 + tail class; 0xffff = no row, 0xfffe = some NaN).
/// The class function: sign, exponent, leading 10 mantissa bits, and how the 13-bit tail compares with half a unit (4096).
pub fn cmd_sweepf16(args: &[String]) -> i32 {
    let raw = std::fs::read(&args[0]).expect("table");
    let table: Vec<u16> = raw.chunks(2).map(|c| u16::from_le_bytes([c[0], c[1]])).collect();
    assert_eq!(table.len(), 2 * 256 * 1024 * 4);
    let nthreads = std::thread::available_parallelism().map(|n| n.get()).unwrap_or(8).min(16) as u64;
    let total: u64 = 1 << 32;
    let per = total / nthreads;
    let results: Vec<(u64, Vec<Value>)> = std::thread::scope(|s| {
        let hs: Vec<_> = (0..nthreads).map(|k| {
            let table = &table;
            s.spawn(move || {
                let (mut n, mut bad) = (0u64, Vec::<Value>::new());
                let (lo, hi) = (k * per, if k == nthreads - 1 { total } else { (k + 1) * per });
                let mut buf = [0u8; 8];
                let mut bits = lo;
                while bits < hi {
                    let b = bits as u32;
                    let tail = b & 0x1fff;
                    let tc = if tail == 0 { 0 } else if tail < 4096 { 1 } else if tail == 4096 { 2 } else { 3 };
                    let ix = (((b >> 31) as usize * 256 + ((b >> 23) & 0xff) as usize) * 1024 + ((b >> 13) & 0x3ff) as usize) * 4 + tc;
                    let row = table[ix];
                    if row == 0xffff {                  // no row for this class in this tier: skip the rest of its tail range cheaply
                        bits = (bits | 0x1fff) + 1;
                        continue
                    }
                    let mut e = Encoder::new(minicbor::encode::write::Cursor::new(&mut buf[..]));
                    let ok = e.f16(f32::from_bits(b)).is_ok();
                    let len = e.writer().position();
                    n += 1;
                    let got = u16::from_be_bytes([buf[1], buf[2]]);
                    let good = ok && len == 3 && buf[0] == 0xf9 && if row == 0xfffe { (got & 0x7c00) == 0x7c00 && (got & 0x03ff) != 0 } else { got == row };
                    if !good && bad.len() < 6 { bad.push(json!({"kind":"f16","bits":b,"wrote":buf[..len.min(8)].to_vec(),"expected_half":row})) }
                    bits += 1;
                }
                (n, bad)
            })
        }).collect();
        hs.into_iter().map(|h| h.join().unwrap()).collect()
    });
    let (mut n, mut bad) = (0u64, vec![]);
    for (k, b) in results { n += k; bad.extend(b) }
    std::fs::write(&args[1], json!({"narrowed": n, "mismatches": bad}).to_string()).unwrap();
    println!("{}", json!({"narrowed": n, "mismatches": bad.len()}));
    0
}
