//! The built-in Encode / Decode / CborLen impls (C01, C07, typed parts of C02-C04).
//! `Abs` projects a Rust value structurally to the generic value tree of spec/Builtin.tla and draws
//! random values; the registry maps the names of spec/Builtin.tla!TypeTable to monomorphic drivers.
//! The projection knows nothing about CBOR.
use crate::abs::{bytes, u64b};
use minicbor::bytes::ByteArray;
#[cfg(feature = "alloc")]
use minicbor::bytes::ByteVec;
use minicbor::data::{Int, Tag, Tagged};
#[cfg(feature = "std")]
use minicbor::{CborLen, Decode, Encode};
use rand::{rngs::StdRng, Rng};
use serde_json::{json, Value};
use std::collections::*;

pub trait Abs: Sized {
    fn to_abs(&self) -> Value;
    fn gen(rng: &mut StdRng, depth: u32) -> Self;
}

fn int_abs(v: i128) -> Value { if v >= 0 { json!({"k":"int","neg":false,"mag":u64b(v as u64)}) } else { json!({"k":"int","neg":true,"mag":u64b((-1 - v) as u64)}) } }

macro_rules! abs_int {
    ($($t:ty)*) => { $(
        impl Abs for $t {
            fn to_abs(&self) -> Value { int_abs(*self as i128) }
            fn gen(rng: &mut StdRng, _: u32) -> Self {
                match rng.gen_range(0..8) {
                    0 => 0 as $t, 1 => <$t>::MAX, 2 => <$t>::MIN, 3 => 23 as $t, 4 => 24 as $t,
                    5 => { // around every power of two, both signs (wrapping into the type: still a value of the type)
                           let k = rng.gen_range(0..<$t>::BITS); let d = rng.gen_range(-2i128..=2);
                           let v = (1i128 << k) + d; (if rng.gen() { v } else { -v }) as $t }
                    6 => (rng.gen_range(-300i64..300)) as $t,
                    _ => rng.gen::<$t>()
                }
            }
        }
    )* }
}
abs_int!(u8 u16 u32 u64 usize i8 i16 i32 i64 isize);

macro_rules! abs_nz {
    ($($t:ty, $p:ty);*) => { $(
        impl Abs for $t {
            fn to_abs(&self) -> Value { int_abs(self.get() as i128) }
            fn gen(rng: &mut StdRng, d: u32) -> Self { loop { if let Some(x) = <$t>::new(<$p>::gen(rng, d)) { return x } } }
        }
    )* }
}
abs_nz!(core::num::NonZeroU8, u8; core::num::NonZeroU16, u16; core::num::NonZeroU32, u32; core::num::NonZeroU64, u64; core::num::NonZeroUsize, usize;
        core::num::NonZeroI8, i8; core::num::NonZeroI16, i16; core::num::NonZeroI32, i32; core::num::NonZeroI64, i64; core::num::NonZeroIsize, isize);

macro_rules! abs_atomic {
    ($($t:ty, $p:ty);*) => { $(
        impl Abs for $t {
            fn to_abs(&self) -> Value { self.load(core::sync::atomic::Ordering::SeqCst).to_abs() }
            fn gen(rng: &mut StdRng, d: u32) -> Self { <$t>::new(<$p>::gen(rng, d)) }
        }
    )* }
}
use core::sync::atomic::*;
abs_atomic!(AtomicBool, bool; AtomicU8, u8; AtomicU16, u16; AtomicU32, u32; AtomicU64, u64; AtomicUsize, usize;
            AtomicI8, i8; AtomicI16, i16; AtomicI32, i32; AtomicI64, i64; AtomicIsize, isize);

impl Abs for Int {
    fn to_abs(&self) -> Value { int_abs(i128::from(*self)) }
    fn gen(rng: &mut StdRng, d: u32) -> Self {
        let m = u64::gen(rng, d) as i128;
        Int::try_from(if rng.gen() { m } else { -1 - m }).unwrap()
    }
}
impl Abs for bool { fn to_abs(&self) -> Value { json!({"k":"bool","b":*self}) } fn gen(rng: &mut StdRng, _: u32) -> Self { rng.gen() } }
impl Abs for char {
    fn to_abs(&self) -> Value { json!({"k":"char","ch":*self as u32}) }
    fn gen(rng: &mut StdRng, _: u32) -> Self {
        match rng.gen_range(0..6) { 0 => '\0', 1 => '\u{d7ff}', 2 => '\u{e000}', 3 => '\u{10ffff}', 4 => rng.gen_range('a'..='z'), _ => rng.gen() }
    }
}
impl Abs for f32 {
    fn to_abs(&self) -> Value { crate::abs::vf32(*self) }
    fn gen(rng: &mut StdRng, _: u32) -> Self {
        const SPECIAL: [u32; 12] = [0, 0x8000_0000, 0x7f80_0000, 0xff80_0000, 0x7fc0_0000, 0x7f80_0001, 0xffff_ffff, 1, 0x007f_ffff, 0x0080_0000, 0x7f7f_ffff, 0x3f80_0000];
        if rng.gen_range(0..3) == 0 { f32::from_bits(SPECIAL[rng.gen_range(0..SPECIAL.len())]) } else { f32::from_bits(rng.gen()) }
    }
}
impl Abs for f64 {
    fn to_abs(&self) -> Value { crate::abs::vf64(*self) }
    fn gen(rng: &mut StdRng, _: u32) -> Self {
        const SPECIAL: [u64; 12] = [0, 0x8000_0000_0000_0000, 0x7ff0_0000_0000_0000, 0xfff0_0000_0000_0000, 0x7ff8_0000_0000_0000, 0x7ff0_0000_0000_0001,
                                    0xffff_ffff_ffff_ffff, 1, 0x000f_ffff_ffff_ffff, 0x0010_0000_0000_0000, 0x7fef_ffff_ffff_ffff, 0x3ff0_0000_0000_0000];
        if rng.gen_range(0..3) == 0 { f64::from_bits(SPECIAL[rng.gen_range(0..SPECIAL.len())]) } else { f64::from_bits(rng.gen()) }
    }
}

fn gen_string(rng: &mut StdRng) -> String {
    let pool = ["", "a", "\u{e9}", "\u{20ac}", "\u{1f600}", "hello", "x\"y\\z"];
    let mut s = String::new();
    let n = match rng.gen_range(0..10) { 0 => 0, 1 => 23, 2 => 24, 3 => 255, 4 => 256, _ => rng.gen_range(0..6) };
    if n > 6 { for i in 0..n { s.push((b'a' + (i % 26) as u8) as char) } } else { for _ in 0..n { s.push_str(pool[rng.gen_range(0..pool.len())]) } }
    s
}
pub static THOROUGH: core::sync::atomic::AtomicBool = core::sync::atomic::AtomicBool::new(false);
fn gen_bytes(rng: &mut StdRng) -> Vec<u8> {
    let big = if THOROUGH.load(core::sync::atomic::Ordering::Relaxed) { 70000 } else { 300 };
    let n = match rng.gen_range(0..10) { 0 => 0, 1 => 23, 2 => 24, 3 => 255, 4 => 256, 5 => big, _ => rng.gen_range(0..8) };
    (0..n).map(|_| rng.gen()).collect()
}
fn text(s: &str) -> Value { json!({"k":"text","b":bytes(s.as_bytes())}) }
impl Abs for String { fn to_abs(&self) -> Value { text(self) } fn gen(rng: &mut StdRng, _: u32) -> Self { gen_string(rng) } }
impl Abs for Box<str> { fn to_abs(&self) -> Value { text(self) } fn gen(rng: &mut StdRng, _: u32) -> Self { gen_string(rng).into_boxed_str() } }
impl Abs for std::borrow::Cow<'static, str> { fn to_abs(&self) -> Value { text(self) } fn gen(rng: &mut StdRng, _: u32) -> Self { gen_string(rng).into() } }
impl Abs for std::path::PathBuf { fn to_abs(&self) -> Value { text(self.to_str().unwrap()) } fn gen(rng: &mut StdRng, _: u32) -> Self { gen_string(rng).into() } }
impl Abs for Box<std::path::Path> { fn to_abs(&self) -> Value { text(self.to_str().unwrap()) } fn gen(rng: &mut StdRng, _: u32) -> Self { std::path::PathBuf::from(gen_string(rng)).into_boxed_path() } }
#[cfg(feature = "alloc")]
impl Abs for ByteVec { fn to_abs(&self) -> Value { json!({"k":"bytes","b":bytes(self)}) } fn gen(rng: &mut StdRng, _: u32) -> Self { gen_bytes(rng).into() } }
impl<const N: usize> Abs for ByteArray<N> {
    fn to_abs(&self) -> Value { json!({"k":"bytes","b":bytes(&self[..])}) }
    fn gen(rng: &mut StdRng, _: u32) -> Self { let mut a = [0u8; N]; for x in a.iter_mut() { *x = rng.gen() } a.into() }
}
impl Abs for std::ffi::CString {
    fn to_abs(&self) -> Value { json!({"k":"bytes","b":bytes(self.as_bytes())}) }
    fn gen(rng: &mut StdRng, _: u32) -> Self { let n = rng.gen_range(0..30); std::ffi::CString::new((0..n).map(|_| rng.gen_range(1..=255u8)).collect::<Vec<u8>>()).unwrap() }
}
impl<T: Abs> Abs for Option<T> {
    fn to_abs(&self) -> Value { match self { None => json!({"k":"none"}), Some(x) => json!({"k":"some","x":x.to_abs()}) } }
    fn gen(rng: &mut StdRng, d: u32) -> Self { if rng.gen_range(0..3) == 0 { None } else { Some(T::gen(rng, d + 1)) } }
}
impl<T: Abs, E: Abs> Abs for Result<T, E> {
    fn to_abs(&self) -> Value { match self { Ok(x) => json!({"k":"var","i":0,"x":x.to_abs()}), Err(x) => json!({"k":"var","i":1,"x":x.to_abs()}) } }
    fn gen(rng: &mut StdRng, d: u32) -> Self { if rng.gen() { Ok(T::gen(rng, d + 1)) } else { Err(E::gen(rng, d + 1)) } }
}
impl<T: Abs> Abs for core::ops::Bound<T> {
    fn to_abs(&self) -> Value {
        match self { core::ops::Bound::Included(x) => json!({"k":"var","i":0,"x":x.to_abs()}), core::ops::Bound::Excluded(x) => json!({"k":"var","i":1,"x":x.to_abs()}),
                     core::ops::Bound::Unbounded => json!({"k":"var","i":2,"x":{"k":"unit"}}) }
    }
    fn gen(rng: &mut StdRng, d: u32) -> Self { match rng.gen_range(0..3) { 0 => core::ops::Bound::Included(T::gen(rng, d)), 1 => core::ops::Bound::Excluded(T::gen(rng, d)), _ => core::ops::Bound::Unbounded } }
}
fn seq<'a, T: Abs + 'a>(it: impl Iterator<Item = &'a T>) -> Value { json!({"k":"seq","xs": it.map(|x| x.to_abs()).collect::<Vec<_>>()}) }
fn sorted(mut xs: Vec<Value>) -> Value { xs.sort_by_key(|v| v.to_string()); json!({"k":"seq","xs":xs}) }
/// Set for the last value an exercise loop draws: its outermost collection gets a few hundred elements (budgets that are per
/// decoder rather than per nesting level - depth guards, counters, buffers - only show on values with many items).
pub static MANY: core::sync::atomic::AtomicBool = core::sync::atomic::AtomicBool::new(false);
pub fn set_many(on: bool) { MANY.store(on, core::sync::atomic::Ordering::Relaxed) }
fn gen_len(rng: &mut StdRng, d: u32) -> usize { if d == 0 && MANY.load(core::sync::atomic::Ordering::Relaxed) { [130usize, 256, 300][rng.gen_range(0..3)] } else if d > 2 { rng.gen_range(0..2) } else { match rng.gen_range(0..8) { 0 => 0, 1 => 23, 2 => 24, 3 => 25, _ => rng.gen_range(0..5) } } }
impl<T: Abs> Abs for Vec<T> { fn to_abs(&self) -> Value { seq(self.iter()) } fn gen(rng: &mut StdRng, d: u32) -> Self { (0..gen_len(rng, d)).map(|_| T::gen(rng, d + 1)).collect() } }
impl<T: Abs> Abs for VecDeque<T> {
    fn to_abs(&self) -> Value { seq(self.iter()) }
    fn gen(rng: &mut StdRng, d: u32) -> Self {
        let items: Vec<T> = (0..gen_len(rng, d)).map(|_| T::gen(rng, d + 1)).collect();
        match rng.gen_range(0..3) {
            0 => items.into_iter().collect(),
            // the ring buffer physically wrapped: the tail pushed at the back, the head pushed at the front
            1 => { let k = if items.is_empty() { 0 } else { rng.gen_range(0..=items.len()) }; let mut dq = VecDeque::with_capacity(items.len());
                   let mut head: Vec<T> = Vec::new(); for (i, x) in items.into_iter().enumerate() { if i < k { head.push(x) } else { dq.push_back(x) } }
                   for x in head.into_iter().rev() { dq.push_front(x) } dq }
            // queue use: filled, then rotated by pop_front / push_back
            _ => { let mut dq: VecDeque<T> = VecDeque::with_capacity(items.len() + 1); let n = items.len(); for x in items { dq.push_back(x) }
                   for _ in 0..(if n == 0 { 0 } else { rng.gen_range(0..2 * n) }) { if let Some(x) = dq.pop_front() { dq.push_back(x) } }
                   // undo the logical rotation so that any order is as likely as before: not needed, any value is a value
                   dq }
        }
    }
}
impl<T: Abs> Abs for LinkedList<T> { fn to_abs(&self) -> Value { seq(self.iter()) } fn gen(rng: &mut StdRng, d: u32) -> Self { (0..gen_len(rng, d)).map(|_| T::gen(rng, d + 1)).collect() } }
impl<T: Abs + Ord> Abs for BTreeSet<T> { fn to_abs(&self) -> Value { seq(self.iter()) } fn gen(rng: &mut StdRng, d: u32) -> Self { (0..gen_len(rng, d)).map(|_| T::gen(rng, d + 1)).collect() } }
impl<T: Abs + Ord> Abs for BinaryHeap<T> { fn to_abs(&self) -> Value { sorted(self.iter().map(|x| x.to_abs()).collect()) } fn gen(rng: &mut StdRng, d: u32) -> Self { (0..gen_len(rng, d)).map(|_| T::gen(rng, d + 1)).collect() } }
impl<T: Abs + Eq + std::hash::Hash> Abs for HashSet<T> { fn to_abs(&self) -> Value { sorted(self.iter().map(|x| x.to_abs()).collect()) } fn gen(rng: &mut StdRng, d: u32) -> Self { (0..gen_len(rng, d)).map(|_| T::gen(rng, d + 1)).collect() } }
impl<K: Abs + Ord, V: Abs> Abs for BTreeMap<K, V> {
    fn to_abs(&self) -> Value { json!({"k":"map","xs": self.iter().map(|(k, v)| json!([k.to_abs(), v.to_abs()])).collect::<Vec<_>>()}) }
    fn gen(rng: &mut StdRng, d: u32) -> Self { (0..gen_len(rng, d)).map(|_| (K::gen(rng, d + 1), V::gen(rng, d + 1))).collect() }
}
impl<K: Abs + Eq + std::hash::Hash, V: Abs> Abs for HashMap<K, V> {
    fn to_abs(&self) -> Value { let mut xs: Vec<Value> = self.iter().map(|(k, v)| json!([k.to_abs(), v.to_abs()])).collect(); xs.sort_by_key(|v| v.to_string()); json!({"k":"map","xs":xs}) }
    fn gen(rng: &mut StdRng, d: u32) -> Self { (0..gen_len(rng, d)).map(|_| (K::gen(rng, d + 1), V::gen(rng, d + 1))).collect() }
}
impl<T: Abs, const N: usize> Abs for [T; N] { fn to_abs(&self) -> Value { seq(self.iter()) } fn gen(rng: &mut StdRng, d: u32) -> Self { core::array::from_fn(|_| T::gen(rng, d + 1)) } }
macro_rules! abs_tuple {
    ($( ($($T:ident $i:tt),+) )*) => { $(
        impl<$($T: Abs),+> Abs for ($($T,)+) {
            fn to_abs(&self) -> Value { json!({"k":"seq","xs":[$(self.$i.to_abs()),+]}) }
            fn gen(rng: &mut StdRng, d: u32) -> Self { ($($T::gen(rng, d + 1),)+) }
        }
    )* }
}
abs_tuple!((A 0) (A 0, B 1) (A 0, B 1, C 2) (A 0, B 1, C 2, D 3)
           (A 0, B 1, C 2, D 3, E 4) (A 0, B 1, C 2, D 3, E 4, F 5) (A 0, B 1, C 2, D 3, E 4, F 5, G 6) (A 0, B 1, C 2, D 3, E 4, F 5, G 6, H 7)
           (A 0, B 1, C 2, D 3, E 4, F 5, G 6, H 7, I 8) (A 0, B 1, C 2, D 3, E 4, F 5, G 6, H 7, I 8, J 9)
           (A 0, B 1, C 2, D 3, E 4, F 5, G 6, H 7, I 8, J 9, K 10) (A 0, B 1, C 2, D 3, E 4, F 5, G 6, H 7, I 8, J 9, K 10, L 11)
           (A 0, B 1, C 2, D 3, E 4, F 5, G 6, H 7, I 8, J 9, K 10, L 11, M 12) (A 0, B 1, C 2, D 3, E 4, F 5, G 6, H 7, I 8, J 9, K 10, L 11, M 12, N 13)
           (A 0, B 1, C 2, D 3, E 4, F 5, G 6, H 7, I 8, J 9, K 10, L 11, M 12, N 13, O 14)
           (A 0, B 1, C 2, D 3, E 4, F 5, G 6, H 7, I 8, J 9, K 10, L 11, M 12, N 13, O 14, P 15));
impl<T: Abs + Clone> Abs for std::borrow::Cow<'static, [T]> {
    fn to_abs(&self) -> Value { seq(self.iter()) }
    fn gen(rng: &mut StdRng, d: u32) -> Self { std::borrow::Cow::Owned(Vec::gen(rng, d)) }
}
impl Abs for () { fn to_abs(&self) -> Value { json!({"k":"unit"}) } fn gen(_: &mut StdRng, _: u32) -> Self {} }
impl<T> Abs for core::marker::PhantomData<T> { fn to_abs(&self) -> Value { json!({"k":"unit"}) } fn gen(_: &mut StdRng, _: u32) -> Self { core::marker::PhantomData } }
impl<T: Abs> Abs for core::num::Wrapping<T> { fn to_abs(&self) -> Value { self.0.to_abs() } fn gen(rng: &mut StdRng, d: u32) -> Self { core::num::Wrapping(T::gen(rng, d)) } }
impl<T: Abs + Copy> Abs for core::cell::Cell<T> { fn to_abs(&self) -> Value { self.get().to_abs() } fn gen(rng: &mut StdRng, d: u32) -> Self { core::cell::Cell::new(T::gen(rng, d)) } }
impl<T: Abs> Abs for core::cell::RefCell<T> { fn to_abs(&self) -> Value { self.borrow().to_abs() } fn gen(rng: &mut StdRng, d: u32) -> Self { core::cell::RefCell::new(T::gen(rng, d)) } }
impl<T: Abs> Abs for Box<T> { fn to_abs(&self) -> Value { (**self).to_abs() } fn gen(rng: &mut StdRng, d: u32) -> Self { Box::new(T::gen(rng, d)) } }
impl<T: Abs> Abs for core::ops::Range<T> { fn to_abs(&self) -> Value { json!({"k":"seq","xs":[self.start.to_abs(), self.end.to_abs()]}) } fn gen(rng: &mut StdRng, d: u32) -> Self { T::gen(rng, d)..T::gen(rng, d) } }
impl<T: Abs> Abs for core::ops::RangeFrom<T> { fn to_abs(&self) -> Value { json!({"k":"seq","xs":[self.start.to_abs()]}) } fn gen(rng: &mut StdRng, d: u32) -> Self { T::gen(rng, d).. } }
impl<T: Abs> Abs for core::ops::RangeTo<T> { fn to_abs(&self) -> Value { json!({"k":"seq","xs":[self.end.to_abs()]}) } fn gen(rng: &mut StdRng, d: u32) -> Self { ..T::gen(rng, d) } }
impl<T: Abs> Abs for core::ops::RangeToInclusive<T> { fn to_abs(&self) -> Value { json!({"k":"seq","xs":[self.end.to_abs()]}) } fn gen(rng: &mut StdRng, d: u32) -> Self { ..=T::gen(rng, d) } }
impl<T: Abs> Abs for core::ops::RangeInclusive<T> { fn to_abs(&self) -> Value { json!({"k":"seq","xs":[self.start().to_abs(), self.end().to_abs()]}) } fn gen(rng: &mut StdRng, d: u32) -> Self { T::gen(rng, d)..=T::gen(rng, d) } }
impl Abs for core::time::Duration {
    fn to_abs(&self) -> Value { json!({"k":"seq","xs":[self.as_secs().to_abs(), self.subsec_nanos().to_abs()]}) }
    fn gen(rng: &mut StdRng, d: u32) -> Self { core::time::Duration::new(u64::gen(rng, d), match rng.gen_range(0..4) { 0 => 0, 1 => 999_999_999, _ => rng.gen_range(0..1_000_000_000) }) }
}
impl Abs for std::time::SystemTime {
    fn to_abs(&self) -> Value { self.duration_since(std::time::UNIX_EPOCH).unwrap().to_abs() }
    fn gen(rng: &mut StdRng, _: u32) -> Self {
        match rng.gen_range(0..6) { 0 => std::time::UNIX_EPOCH, 1 => std::time::UNIX_EPOCH + core::time::Duration::new(0, 999_999_999), 2 => std::time::UNIX_EPOCH + core::time::Duration::new(u32::MAX as u64 + 1, 0),
                                    _ => std::time::UNIX_EPOCH + core::time::Duration::new(rng.gen_range(0..1u64 << 40), rng.gen_range(0..1_000_000_000)) }
    }
}
use std::net::*;
fn raw(b: &[u8]) -> Value { json!({"k":"bytes","b":bytes(b)}) }
impl Abs for Ipv4Addr {
    fn to_abs(&self) -> Value { raw(&self.octets()) }
    fn gen(rng: &mut StdRng, _: u32) -> Self {
        match rng.gen_range(0..8) { 0 => Ipv4Addr::UNSPECIFIED, 1 => Ipv4Addr::BROADCAST, 2 => Ipv4Addr::LOCALHOST, 3 => Ipv4Addr::new(10, 0, 0, 1), 4 => Ipv4Addr::new(224, 0, 0, 251),
                                    _ => Ipv4Addr::from(rng.gen::<[u8; 4]>()) }
    }
}
impl Abs for Ipv6Addr {
    fn to_abs(&self) -> Value { raw(&self.octets()) }
    fn gen(rng: &mut StdRng, d: u32) -> Self {
        // the address classes std treats specially, besides arbitrary bit patterns
        match rng.gen_range(0..12) {
            0 => Ipv6Addr::UNSPECIFIED, 1 => Ipv6Addr::LOCALHOST, 2 => Ipv4Addr::gen(rng, d).to_ipv6_mapped(), 3 => Ipv4Addr::gen(rng, d).to_ipv6_compatible(),
            4 => Ipv6Addr::from([0xff; 16]), 5 => Ipv6Addr::new(0xfe80, 0, 0, 0, rng.gen(), rng.gen(), rng.gen(), rng.gen()), 6 => Ipv6Addr::new(0xff02, 0, 0, 0, 0, 0, 0, 1),
            7 => Ipv6Addr::new(0x64, 0xff9b, 0, 0, 0, 0, rng.gen(), rng.gen()), 8 => Ipv6Addr::new(0x2002, rng.gen(), rng.gen(), 0, 0, 0, 0, 1),
            _ => Ipv6Addr::from(rng.gen::<[u8; 16]>())
        }
    }
}
impl Abs for IpAddr {
    fn to_abs(&self) -> Value { match self { IpAddr::V4(a) => json!({"k":"var","i":0,"x":a.to_abs()}), IpAddr::V6(a) => json!({"k":"var","i":1,"x":a.to_abs()}) } }
    fn gen(rng: &mut StdRng, d: u32) -> Self { if rng.gen() { IpAddr::V4(Ipv4Addr::gen(rng, d)) } else { IpAddr::V6(Ipv6Addr::gen(rng, d)) } }
}
impl Abs for SocketAddrV4 { fn to_abs(&self) -> Value { json!({"k":"seq","xs":[self.ip().to_abs(), self.port().to_abs()]}) } fn gen(rng: &mut StdRng, d: u32) -> Self { SocketAddrV4::new(Ipv4Addr::gen(rng, d), u16::gen(rng, d)) } }
impl Abs for SocketAddrV6 { fn to_abs(&self) -> Value { json!({"k":"seq","xs":[self.ip().to_abs(), self.port().to_abs()]}) } fn gen(rng: &mut StdRng, d: u32) -> Self { SocketAddrV6::new(Ipv6Addr::gen(rng, d), u16::gen(rng, d), 0, 0) } }
impl Abs for SocketAddr {
    fn to_abs(&self) -> Value { match self { SocketAddr::V4(a) => json!({"k":"var","i":0,"x":a.to_abs()}), SocketAddr::V6(a) => json!({"k":"var","i":1,"x":a.to_abs()}) } }
    fn gen(rng: &mut StdRng, d: u32) -> Self { if rng.gen() { SocketAddr::V4(SocketAddrV4::gen(rng, d)) } else { SocketAddr::V6(SocketAddrV6::gen(rng, d)) } }
}
impl Abs for Tag { fn to_abs(&self) -> Value { json!({"k":"tagv","tg":u64b(self.as_u64())}) } fn gen(rng: &mut StdRng, d: u32) -> Self { Tag::new(u64::gen(rng, d)) } }
impl<const N: u64, T: Abs> Abs for Tagged<N, T> { fn to_abs(&self) -> Value { json!({"k":"tagged","x":self.value().to_abs()}) } fn gen(rng: &mut StdRng, d: u32) -> Self { Tagged::new(T::gen(rng, d)) } }

// ------------------------------------------------------------------------------------------------
#[cfg(feature = "std")]
pub trait Full: Abs + Encode<()> + CborLen<()> + for<'b> Decode<'b, ()> {}
#[cfg(feature = "std")]
impl<T: Abs + Encode<()> + CborLen<()> + for<'b> Decode<'b, ()>> Full for T {}

#[cfg(feature = "std")]
/// Decode `bytes` as T and report value, position, the re-encoding of the decoded value and its computed length.
pub fn decode_report<T: Full>(b: &[u8]) -> Value {
    let mut d = minicbor::Decoder::new(b);
    crate::alloc::set_case("typed-decode", core::any::type_name::<T>(), b);
    crate::alloc::reset();
    let r: Result<T, _> = d.decode();
    let alloc = crate::alloc::total();
    match r {
        Ok(v) => {
            let re = minicbor::to_vec(&v);
            json!({"p":"run","dec_ok":true,"dec":v.to_abs(),"pos":d.position(),"reenc_ok":re.is_ok(),"reenc":bytes(&re.unwrap_or_default()),
                   "len":minicbor::len(&v),"alloc":alloc})
        }
        Err(e) => json!({"p":"run","dec_ok":false,"cls":crate::abs::err_class(&e),"pos":d.position(),"alloc":alloc})
    }
}

#[cfg(feature = "std")]
/// Events for one random value of T: round trip ("rt"), a re-framed alternative encoding ("alt"), a mutation ("mut").
pub fn exercise<T: Full>(name: &str, rng: &mut StdRng, sink: &mut crate::gen::Sink, n: usize, want: &str) {
    for i in 0..n {
        set_many(i + 1 == n && want != "mut");
        let v = T::gen(rng, 0);
        set_many(false);
        let val = v.to_abs();
        let enc = match minicbor::to_vec(&v) { Ok(b) => b, Err(_) => continue };
        sink.distinct_inputs += 1;
        if want == "rt" || want == "all" {
            let dec = crate::ops::guarded(|| decode_report::<T>(&enc));
            sink.put(json!({"fam":"typed","name":"rt","ty":name,"val":val,"bytes":bytes(&enc),"len":minicbor::len(&v),"obs":dec}));
        }
        if (want == "alt" || want == "all") && name != "tag" {
            let alt = crate::cbgen::reframe(rng, &enc);
            if alt != enc {
                let dec = crate::ops::guarded(|| decode_report::<T>(&alt));
                sink.put(json!({"fam":"typed","name":"alt","ty":name,"val":val,"bytes":bytes(&enc),"alt":bytes(&alt),"obs":dec}));
            }
        }
        #[cfg(feature = "half")]
        if want == "sink" {
            // C13: this value through its own Encode impl into bounded sinks that are too small, exactly big enough, one byte larger
            let len = enc.len();
            let mut caps = vec![0usize, 1, len / 2, len.saturating_sub(2), len.saturating_sub(1), len, len + 1];
            caps.sort(); caps.dedup();
            for kind in ["slice", "cslice", "cbox", "iowslice"] {
                for cap in &caps { if let Some(ev) = crate::sinks::encode_value_event(kind, *cap, &v, &enc) { sink.put(ev) } }
            }
            continue
        }
        if want == "cross" && !enc.is_empty() {
            // a strict prefix of the encoding decoded as the same type: the end-of-input class, nothing else
            let cuts: Vec<usize> = if enc.len() <= 6 { (0..enc.len()).collect() } else { vec![0, 1, rng.gen_range(0..enc.len()), enc.len() - 1] };
            for cut in cuts {
                let dec = crate::ops::guarded(|| decode_report::<T>(&enc[..cut]));
                sink.put(json!({"fam":"typed","name":"prefix","ty":name,"bytes":bytes(&enc),"cut":cut,"obs":dec}));
            }
        }
        if want == "cross" {
            // the encoding of this value decoded as every other registered type: an error, or - where it is accepted - no other value than
            // the one the bytes denote (judged by TLC); refusals are sampled, acceptances and anything else are all recorded
            for (j, other) in NAMES.iter().enumerate() {
                if *other == name { continue }
                let dec = crate::ops::guarded(|| decode_named(other, &enc).unwrap());
                sink.monitored += 1;
                if dec["p"] != "run" || dec["dec_ok"] == true || (j + enc.len()) % 29 == 0 {
                    sink.put(json!({"fam":"typed","name":"cross","ty":other,"from":name,"bytes":bytes(&enc),"obs":dec}));
                }
            }
        }
        if want == "mut" || want == "all" {
            // every mutant is monitored here (no panic, position bound, allocation bound); violating events and a sample go to TLC
            for (i, m) in crate::cbgen::typed_mutations(rng, &enc).into_iter().enumerate() {
                let dec = crate::ops::guarded(|| decode_report::<T>(&m));
                sink.monitored += 1;
                let bad = dec["p"] != "run" || dec["pos"].as_u64().map(|p| p as usize > m.len()).unwrap_or(true)
                    || dec["alloc"].as_u64().map(|a| a as usize > 256 * m.len() + 16384).unwrap_or(true);
                if bad || i < 12 || i % 37 == 0 { sink.put(json!({"fam":"typed","name":"mut","ty":name,"buf":bytes(&m),"obs":dec})); }
            }
        }
    }
}

macro_rules! registry {
    ($m:ident, $($key:literal => $t:ty),* $(,)?) => {
        /// Replay: decode the specification's bytes as the named type.
        #[cfg(feature = "std")]
        pub fn decode_named(name: &str, b: &[u8]) -> Option<Value> {
            match name { $( $key => Some(decode_report::<$t>(b)), )* _ => None }
        }
        #[cfg(feature = "std")]
        pub fn exercise_all(rng: &mut StdRng, sink: &mut crate::gen::Sink, n: usize, want: &str) {
            $( exercise::<$t>($key, rng, sink, n, want); )*
        }
        pub const NAMES: &[&str] = &[$($key),*];
    };
}
registry!(reg,
    "u8" => u8, "u16" => u16, "u32" => u32, "u64" => u64, "usize" => usize, "i8" => i8, "i16" => i16, "i32" => i32, "i64" => i64, "isize" => isize,
    "int" => Int, "bool" => bool, "char" => char, "f32" => f32, "f64" => f64,
    "string" => String, "boxstr" => Box<str>, "cowstr" => std::borrow::Cow<'static, str>, "pathbuf" => std::path::PathBuf, "boxpath" => Box<std::path::Path>,
    "bytevec" => ByteVec, "bytearray0" => ByteArray<0>, "bytearray4" => ByteArray<4>, "bytearray24" => ByteArray<24>, "cstring" => std::ffi::CString,
    "nzu8" => core::num::NonZeroU8, "nzu16" => core::num::NonZeroU16, "nzu32" => core::num::NonZeroU32, "nzu64" => core::num::NonZeroU64, "nzusize" => core::num::NonZeroUsize,
    "nzi8" => core::num::NonZeroI8, "nzi16" => core::num::NonZeroI16, "nzi32" => core::num::NonZeroI32, "nzi64" => core::num::NonZeroI64, "nzisize" => core::num::NonZeroIsize,
    "wrapu16" => core::num::Wrapping<u16>, "cellu32" => core::cell::Cell<u32>, "refcellstring" => core::cell::RefCell<String>, "boxu64" => Box<u64>,
    "abool" => AtomicBool, "au8" => AtomicU8, "au16" => AtomicU16, "au32" => AtomicU32, "au64" => AtomicU64, "ausize" => AtomicUsize,
    "ai8" => AtomicI8, "ai16" => AtomicI16, "ai32" => AtomicI32, "ai64" => AtomicI64, "aisize" => AtomicIsize,
    "optu8" => Option<u8>, "optstring" => Option<String>, "optvecu16" => Option<Vec<u16>>,
    "resu8string" => Result<u8, String>, "resunitu64" => Result<(), u64>, "boundi16" => core::ops::Bound<i16>,
    "rangeu8" => core::ops::Range<u8>, "rangefromu16" => core::ops::RangeFrom<u16>, "rangetoi8" => core::ops::RangeTo<i8>,
    "rangetoinclu32" => core::ops::RangeToInclusive<u32>, "rangeincli64" => core::ops::RangeInclusive<i64>,
    "unit" => (), "phantom" => core::marker::PhantomData<u8>,
    "tup1" => (u8,), "tup2" => (u8, String), "tup3" => (i16, bool, Option<u8>), "tup4" => (u64, String, f32, ()),
    "tup16" => (u8, u8, u8, u8, u8, u8, u8, u8, u8, u8, u8, u8, u8, u8, u8, u8),
    "tup5" => (u8, i16, u8, i16, u8), "tup6" => (u8, i16, u8, i16, u8, i16), "tup7" => (u8, i16, u8, i16, u8, i16, u8), "tup8" => (u8, i16, u8, i16, u8, i16, u8, i16), "tup9" => (u8, i16, u8, i16, u8, i16, u8, i16, u8), "tup10" => (u8, i16, u8, i16, u8, i16, u8, i16, u8, i16), "tup11" => (u8, i16, u8, i16, u8, i16, u8, i16, u8, i16, u8), "tup12" => (u8, i16, u8, i16, u8, i16, u8, i16, u8, i16, u8, i16), "tup13" => (u8, i16, u8, i16, u8, i16, u8, i16, u8, i16, u8, i16, u8), "tup14" => (u8, i16, u8, i16, u8, i16, u8, i16, u8, i16, u8, i16, u8, i16), "tup15" => (u8, i16, u8, i16, u8, i16, u8, i16, u8, i16, u8, i16, u8, i16, u8),
    "cowsliceu16" => std::borrow::Cow<'static, [u16]>, "arr2tup" => [(u8, bool); 2], "vecarr" => Vec<[u8; 3]>, "optbox" => Option<Box<i32>>, "boxvec" => Box<Vec<String>>,
    "arr0u8" => [u8; 0], "arr1string" => [String; 1], "arr3i32" => [i32; 3], "arr23u16" => [u16; 23], "arr24bool" => [bool; 24], "arr25i8" => [i8; 25], "arr16u8" => [u8; 16], "arr32u8" => [u8; 32],
    "vecu8" => Vec<u8>, "vecstring" => Vec<String>, "vecvecu16" => Vec<Vec<u16>>, "vecoptbool" => Vec<Option<bool>>, "vecdequei32" => VecDeque<i32>, "linkedlistu64" => LinkedList<u64>,
    "btreesetu16" => BTreeSet<u16>, "binaryheapu8" => BinaryHeap<u8>, "hashsetstring" => HashSet<String>, "hashseti32" => HashSet<i32>,
    "btreemapu8string" => BTreeMap<u8, String>, "btreemapstringvecu8" => BTreeMap<String, Vec<u8>>, "hashmapu16bool" => HashMap<u16, bool>, "hashmapstringi64" => HashMap<String, i64>,
    "duration" => core::time::Duration, "systemtime" => std::time::SystemTime,
    "ipv4" => Ipv4Addr, "ipv6" => Ipv6Addr, "ipaddr" => IpAddr, "sockv4" => SocketAddrV4, "sockv6" => SocketAddrV6, "sockaddr" => SocketAddr,
    "tag" => Tag, "tagged7u8" => Tagged<7, u8>, "tagged256string" => Tagged<256, String>, "tagged1vecu8" => Tagged<1, Vec<u8>>,
    "vectup" => Vec<(u8, Option<String>)>, "optresult" => Option<Result<u8, bool>>, "maptuple" => BTreeMap<u8, (i8, f64)>,
);

/// Comparison for replayed typed cases.
#[cfg(feature = "std")]
pub fn matches(obs: &Value, exp: &Value) -> bool {
    obs["p"] == "run" && obs["dec_ok"] == true && obs["dec"] == exp["dec"] && obs["pos"] == exp["pos"] && obs["len"] == exp["len"]
        && obs["reenc_ok"] == true && (exp["unordered"] == true || obs["reenc"] == exp["reenc"])
}
