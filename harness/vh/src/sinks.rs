//! C13: the Write sinks.  Raw write_all sequences (replay of specification cases) and encoding of
//! values into every sink kind at every capacity (trace recording).
use crate::abs::bytes;
use minicbor::encode::write::{Cursor, Write};
use minicbor::Encoder;
use serde_json::{json, Value};

const FILL: u8 = 0xAA;
const CANARY: u8 = 0xC5;

pub fn chunk(i: usize, n: usize) -> Vec<u8> { (1..=n).map(|j| ((i * 16 + j) % 256) as u8).collect() }

/// What a sink looks like after use.
pub struct After { pub position: usize, pub content: Vec<u8>, pub canary: bool, pub untouched: bool }

/// Run `f` on a sink of the given kind and capacity.  f gets a `&mut dyn FnMut(&[u8]) -> bool` style writer
/// through the generic `Use` trait (the sinks have different error types).
pub trait Use { fn run<W: Write>(&mut self, w: &mut W) where W::Error: 'static; }

macro_rules! carray {
    ($u:expr, $cap:expr, $($n:literal)*) => {
        match $cap {
            $( $n => { let mut c = Cursor::new([FILL; $n]); $u.run(&mut c); let p = c.position(); let a = c.into_inner();
                       Some(After { position: p, content: a[..p.min($n)].to_vec(), canary: true, untouched: a[p.min($n)..].iter().all(|b| *b == FILL) }) } )*
            _ => None
        }
    };
}

pub fn with_sink<U: Use>(kind: &str, cap: usize, u: &mut U) -> Option<After> {
    match kind {
        "slice" | "cslice" => {
            let mut backing = vec![CANARY; cap + 32];
            for b in &mut backing[16..16 + cap] { *b = FILL }
            let position;
            {
                let mid = &mut backing[16..16 + cap];
                if kind == "slice" {
                    let mut s: &mut [u8] = mid;
                    u.run(&mut s);
                    position = cap - s.len();
                } else {
                    let mut c = Cursor::new(mid);
                    u.run(&mut c);
                    position = c.position();
                }
            }
            let canary = backing[..16].iter().all(|b| *b == CANARY) && backing[16 + cap..].iter().all(|b| *b == CANARY);
            let p = position.min(cap);
            Some(After { position, content: backing[16..16 + p].to_vec(), canary, untouched: backing[16 + p..16 + cap].iter().all(|b| *b == FILL) })
        }
        "cbox" => {
            let mut c = Cursor::new(vec![FILL; cap].into_boxed_slice());
            u.run(&mut c);
            let p = c.position();
            let a = c.into_inner();
            Some(After { position: p, content: a[..p.min(cap)].to_vec(), canary: true, untouched: a[p.min(cap)..].iter().all(|b| *b == FILL) })
        }
        "carray" => carray!(u, cap, 0 1 2 3 4 5 6 7 8 9 10 11 12 13 14 15 16 17 18 19 20 21 22 23 24 25 26 27 28 29 30 31 32 33 40 48 64 65 100 128 256 300 512 1024),
        "vec" => { let mut v: Vec<u8> = Vec::new(); u.run(&mut v); Some(After { position: v.len(), content: v, canary: true, untouched: true }) }
        "iow" => { let mut w = minicbor::encode::write::Writer::new(Vec::<u8>::new()); u.run(&mut w); let v = w.into_inner();
                   Some(After { position: v.len(), content: v, canary: true, untouched: true }) }
        // std::io writers that make short writes: a bounded byte slice, and an unbounded one that takes at most three bytes per call
        "iowslice" => {
            let mut backing = vec![CANARY; cap + 32];
            for b in &mut backing[16..16 + cap] { *b = FILL }
            let position;
            {
                let mid: &mut [u8] = &mut backing[16..16 + cap];
                let mut w = minicbor::encode::write::Writer::new(mid);
                u.run(&mut w);
                position = cap - w.into_inner().len();
            }
            let canary = backing[..16].iter().all(|b| *b == CANARY) && backing[16 + cap..].iter().all(|b| *b == CANARY);
            let p = position.min(cap);
            Some(After { position, content: backing[16..16 + p].to_vec(), canary, untouched: backing[16 + p..16 + cap].iter().all(|b| *b == FILL) })
        }
        "iowchunk" => { let mut w = minicbor::encode::write::Writer::new(Chunky(Vec::new())); u.run(&mut w); let v = w.into_inner().0;
                        Some(After { position: v.len(), content: v, canary: true, untouched: true }) }
        _ => None
    }
}
/// A std::io::Write that accepts at most three bytes per call.
pub struct Chunky(pub Vec<u8>);
impl std::io::Write for Chunky {
    fn write(&mut self, b: &[u8]) -> std::io::Result<usize> { let n = b.len().min(3); self.0.extend_from_slice(&b[..n]); Ok(n) }
    fn flush(&mut self) -> std::io::Result<()> { Ok(()) }
}

pub const CARRAY_CAPS: &[usize] = &[0,1,2,3,4,5,6,7,8,9,10,11,12,13,14,15,16,17,18,19,20,21,22,23,24,25,26,27,28,29,30,31,32,33,40,48,64,65,100,128,256,300,512,1024];

struct Raw { lens: Vec<usize>, res: Vec<bool> }
impl Use for Raw {
    fn run<W: Write>(&mut self, w: &mut W) {
        for (i, n) in self.lens.iter().enumerate() { self.res.push(w.write_all(&chunk(i + 1, *n)).is_ok()) }
    }
}

/// Replay of a specification case: a sequence of raw write_all calls.
pub fn raw(kind: &str, input: &Value) -> Value {
    let cap = input["cap"].as_u64().unwrap() as usize;
    let lens: Vec<usize> = input["lens"].as_array().unwrap().iter().map(|x| x.as_u64().unwrap() as usize).collect();
    let mut u = Raw { lens, res: vec![] };
    match with_sink(kind, cap, &mut u) {
        Some(a) => json!({"p":"run","res": u.res, "content": bytes(&a.content), "position": a.position, "canary": a.canary && a.untouched}),
        None => json!({"p":"unsupported"})
    }
}

/// Encoding a token sequence into a sink.
pub struct Enc<'a> { pub toks: &'a [minicbor::data::Token<'a>], pub ok: bool, pub write_err: bool }
impl<'a> Use for Enc<'a> {
    fn run<W: Write>(&mut self, w: &mut W) {
        let mut e = Encoder::new(w);
        match e.tokens(self.toks.iter()) {
            Ok(()) => { self.ok = true }
            Err(err) => { self.ok = false; self.write_err = err.is_write() }
        }
    }
}

/// Encoding a value through its own Encode impl (the impls that write in several steps, loops included) into a sink.
pub struct EncVal<'a, T: minicbor::Encode<()>> { pub v: &'a T, pub ok: bool, pub write_err: bool }
impl<'a, T: minicbor::Encode<()>> Use for EncVal<'a, T> {
    fn run<W: Write>(&mut self, w: &mut W) {
        match minicbor::encode(self.v, w) {
            Ok(()) => { self.ok = true }
            Err(err) => { self.ok = false; self.write_err = err.is_write() }
        }
    }
}
pub fn encode_value_event<T: minicbor::Encode<()>>(kind: &str, cap: usize, v: &T, reference: &[u8]) -> Option<Value> {
    let mut u = EncVal { v, ok: false, write_err: false };
    event_of(kind, cap, reference, &mut u, |u| (u.ok, u.write_err))
}

pub fn encode_event(kind: &str, cap: usize, toks: &[minicbor::data::Token<'_>], reference: &[u8]) -> Option<Value> {
    let mut u = Enc { toks, ok: false, write_err: false };
    event_of(kind, cap, reference, &mut u, |u| (u.ok, u.write_err))
}

fn event_of<U: Use>(kind: &str, cap: usize, reference: &[u8], u: &mut U, res: impl Fn(&U) -> (bool, bool)) -> Option<Value> {
    let u = EvU(u, res);
    return u.go(kind, cap, reference);
}
struct EvU<'a, U: Use, F: Fn(&U) -> (bool, bool)>(&'a mut U, F);
impl<'a, U: Use, F: Fn(&U) -> (bool, bool)> EvU<'a, U, F> {
    fn go(self, kind: &str, cap: usize, reference: &[u8]) -> Option<Value> {
        let EvU(u, res) = self;
        let r = std::panic::catch_unwind(std::panic::AssertUnwindSafe(|| with_sink(kind, cap, u)));
        let (ok, write_err) = res(u);
        match r {
            Ok(Some(a)) => Some(json!({"kind": kind, "cap": cap, "ref": bytes(reference), "ok": ok, "write_err": write_err, "panic": false,
                                       "position": a.position, "content": bytes(&a.content), "canary": a.canary, "untouched": a.untouched})),
            Ok(None) => None,
            Err(_) => Some(json!({"kind": kind, "cap": cap, "ref": bytes(reference), "ok": false, "write_err": false, "panic": true,
                                  "position": 0, "content": [], "canary": true, "untouched": true}))
        }
    }
}
