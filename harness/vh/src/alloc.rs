//! Counting global allocator: bytes requested and the largest single request since the last reset,
//! per thread (thread-local cells with constant initialisers: no allocation on access).
use std::alloc::{GlobalAlloc, Layout, System};
use std::cell::Cell;

pub struct Counting;
thread_local! {
    static TOTAL: Cell<usize> = const { Cell::new(0) };
    static MAX_ONE: Cell<usize> = const { Cell::new(0) };
}
fn note(n: usize) {
    let _ = TOTAL.try_with(|t| t.set(t.get().wrapping_add(n)));
    let _ = MAX_ONE.try_with(|m| if n > m.get() { m.set(n) });
}
unsafe impl GlobalAlloc for Counting {
    unsafe fn alloc(&self, l: Layout) -> *mut u8 { note(l.size()); System.alloc(l) }
    unsafe fn dealloc(&self, p: *mut u8, l: Layout) { System.dealloc(p, l) }
    unsafe fn alloc_zeroed(&self, l: Layout) -> *mut u8 { note(l.size()); System.alloc_zeroed(l) }
    unsafe fn realloc(&self, p: *mut u8, l: Layout, new: usize) -> *mut u8 {
        if new > l.size() { let _ = TOTAL.try_with(|t| t.set(t.get().wrapping_add(new - l.size()))); }
        let _ = MAX_ONE.try_with(|m| if new > m.get() { m.set(new) });
        System.realloc(p, l, new)
    }
}
pub fn reset() { TOTAL.with(|t| t.set(0)); MAX_ONE.with(|m| m.set(0)); }
pub fn total() -> usize { TOTAL.with(|t| t.get()) }
pub fn max_one() -> usize { MAX_ONE.with(|m| m.get()) }
