//! Counting global allocator: bytes requested and the largest single request since the last reset,
//! per thread (thread-local cells with constant initialisers: no allocation on access).
use std::alloc::{GlobalAlloc, Layout, System};
use std::cell::Cell;

pub struct Counting;
thread_local! {
    static TOTAL: Cell<usize> = const { Cell::new(0) };
    static MAX_ONE: Cell<usize> = const { Cell::new(0) };
}
/// A request above this is never attempted: a decoder that asks for it has taken a length from the input.
pub const REFUSE_ABOVE: usize = 1 << 31;
thread_local! {
    static CASE: Cell<([u8; 768], usize)> = const { Cell::new(([0; 768], 0)) };
}
/// Remember what is being executed, so that a refused allocation (which aborts the process: allocation failure
/// cannot be unwound) leaves a witness behind.
pub fn set_case(fam: &str, name: &str, buf: &[u8]) {
    let mut a = [0u8; 768];
    let mut n = 0;
    for b in fam.bytes().chain(std::iter::once(b'|')).chain(name.bytes()).chain(std::iter::once(b'|')) { if n < 760 { a[n] = b; n += 1 } }
    for b in buf.iter().take(340) { let h = b"0123456789abcdef"; if n < 766 { a[n] = h[(*b >> 4) as usize]; a[n + 1] = h[(*b & 15) as usize]; n += 2 } }
    let _ = CASE.try_with(|c| c.set((a, n)));
}
fn witness(size: usize) {
    if let Ok(path) = std::env::var("VH_WITNESS") {
        let (a, n) = CASE.try_with(|c| c.get()).unwrap_or(([0; 768], 0));
        let case = String::from_utf8_lossy(&a[..n]).to_string();
        let _ = std::fs::write(path, format!("{{\"refused_allocation_bytes\": {}, \"case\": \"{}\"}}\n", size, case));
    }
}
// ---- a fatal signal raised by the code under test (abort on heap corruption, segmentation fault, ...) leaves the same kind of witness ----
extern "C" {
    fn signal(sig: i32, handler: usize) -> usize;
    fn open(path: *const u8, flags: i32, mode: u32) -> i32;
    fn write(fd: i32, buf: *const u8, n: usize) -> isize;
    fn _exit(code: i32) -> !;
}
static mut WPATH: [u8; 512] = [0; 512];
extern "C" fn on_fatal(sig: i32) {
    // (no allocation here: fixed buffers and raw system calls only)
    unsafe {
        let (a, n) = CASE.try_with(|c| c.get()).unwrap_or(([0; 768], 0));
        let mut out = [0u8; 900];
        let mut k = 0;
        for b in b"{\"signal\": " { out[k] = *b; k += 1 }
        if sig >= 10 { out[k] = b'0' + (sig / 10) as u8; k += 1 }
        out[k] = b'0' + (sig % 10) as u8; k += 1;
        for b in b", \"case\": \"" { out[k] = *b; k += 1 }
        for b in &a[..n] { if *b != b'"' && *b != b'\\' && *b >= 0x20 { out[k] = *b; k += 1 } }
        for b in b"\"}\n" { out[k] = *b; k += 1 }
        let p = core::ptr::addr_of!(WPATH) as *const u8;
        if *p != 0 {
            let fd = open(p, 0o1101, 0o644);     // O_WRONLY | O_CREAT | O_TRUNC
            if fd >= 0 { let _ = write(fd, out.as_ptr(), k); }
        }
        _exit(128 + sig)
    }
}
/// Install the handlers (SIGABRT, SIGSEGV, SIGBUS, SIGILL, SIGFPE); the witness goes to $VH_WITNESS.
pub fn install_fatal_handlers() {
    if let Ok(path) = std::env::var("VH_WITNESS") {
        let b = path.as_bytes();
        if b.len() < 511 {
            unsafe { let p = core::ptr::addr_of_mut!(WPATH) as *mut u8; for (i, x) in b.iter().enumerate() { *p.add(i) = *x } *p.add(b.len()) = 0; }
            for sig in [6, 11, 7, 4, 8] { unsafe { signal(sig, on_fatal as usize); } }
        }
    }
}
fn note(n: usize) {
    let _ = TOTAL.try_with(|t| t.set(t.get().wrapping_add(n)));
    let _ = MAX_ONE.try_with(|m| if n > m.get() { m.set(n) });
}
unsafe impl GlobalAlloc for Counting {
    unsafe fn alloc(&self, l: Layout) -> *mut u8 { note(l.size()); if l.size() > REFUSE_ABOVE { witness(l.size()); return std::ptr::null_mut() } System.alloc(l) }
    unsafe fn dealloc(&self, p: *mut u8, l: Layout) { System.dealloc(p, l) }
    unsafe fn alloc_zeroed(&self, l: Layout) -> *mut u8 { note(l.size()); if l.size() > REFUSE_ABOVE { witness(l.size()); return std::ptr::null_mut() } System.alloc_zeroed(l) }
    unsafe fn realloc(&self, p: *mut u8, l: Layout, new: usize) -> *mut u8 {
        if new > l.size() { let _ = TOTAL.try_with(|t| t.set(t.get().wrapping_add(new - l.size()))); }
        let _ = MAX_ONE.try_with(|m| if new > m.get() { m.set(new) });
        if new > REFUSE_ABOVE { witness(new); return std::ptr::null_mut() }
        System.realloc(p, l, new)
    }
}
pub fn reset() { TOTAL.with(|t| t.set(0)); MAX_ONE.with(|m| m.set(0)); }
pub fn total() -> usize { TOTAL.with(|t| t.get()) }
pub fn max_one() -> usize { MAX_ONE.with(|m| m.get()) }
