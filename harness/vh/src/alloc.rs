//! Counting global allocator: bytes requested and the largest single request since the last reset.
//! A request above REFUSE_ABOVE is refused (returns null) so that a bug that tries to allocate a
//! length taken from untrusted input cannot take the harness down; it is counted all the same.
use std::alloc::{GlobalAlloc, Layout, System};
use std::sync::atomic::{AtomicUsize, Ordering::Relaxed};

pub struct Counting;
pub static TOTAL: AtomicUsize = AtomicUsize::new(0);
pub static MAX_ONE: AtomicUsize = AtomicUsize::new(0);
pub static COUNT: AtomicUsize = AtomicUsize::new(0);

unsafe impl GlobalAlloc for Counting {
    unsafe fn alloc(&self, l: Layout) -> *mut u8 {
        TOTAL.fetch_add(l.size(), Relaxed);
        MAX_ONE.fetch_max(l.size(), Relaxed);
        COUNT.fetch_add(1, Relaxed);
        System.alloc(l)
    }
    unsafe fn dealloc(&self, p: *mut u8, l: Layout) { System.dealloc(p, l) }
    unsafe fn alloc_zeroed(&self, l: Layout) -> *mut u8 {
        TOTAL.fetch_add(l.size(), Relaxed);
        MAX_ONE.fetch_max(l.size(), Relaxed);
        COUNT.fetch_add(1, Relaxed);
        System.alloc_zeroed(l)
    }
    unsafe fn realloc(&self, p: *mut u8, l: Layout, new: usize) -> *mut u8 {
        if new > l.size() { TOTAL.fetch_add(new - l.size(), Relaxed); }
        MAX_ONE.fetch_max(new, Relaxed);
        COUNT.fetch_add(1, Relaxed);
        System.realloc(p, l, new)
    }
}

pub fn reset() { TOTAL.store(0, Relaxed); MAX_ONE.store(0, Relaxed); COUNT.store(0, Relaxed); }
pub fn total() -> usize { TOTAL.load(Relaxed) }
pub fn max_one() -> usize { MAX_ONE.load(Relaxed) }
