//! Counting global allocator: bytes requested and the largest single request since the last reset,
//! per thread (thread-local cells with constant initialisers: no allocation on access).
use std::alloc::{GlobalAlloc, Layout, System};
use std::cell::Cell;

pub struct Counting;
thread_local! {
    static TOTAL: Cell<usize> = const { Cell::new(0) };
    static MAX_ONE: Cell<usize> = const { Cell::new(0) };
}
/// A request above this is never attempted: a decoder that asks for it has taken a length from the input.
pub const REFUSE_ABOVE: usize = 1 << 31;
thread_local! {
    static CASE: Cell<([u8; 768], usize)> = const { Cell::new(([0; 768], 0)) };
}
/// Remember what is being executed, so that a refused allocation (which aborts the process: allocation failure
/// cannot be unwound) leaves a witness behind.
pub fn set_case(fam: &str, name: &str, buf: &[u8]) {
    let mut a = [0u8; 768];
    let mut n = 0;
    for b in fam.bytes().chain(std::iter::once(b'|')).chain(name.bytes()).chain(std::iter::once(b'|')) { if n < 760 { a[n] = b; n += 1 } }
    for b in buf.iter().take(340) { let h = b"0123456789abcdef"; if n < 766 { a[n] = h[(*b >> 4) as usize]; a[n + 1] = h[(*b & 15) as usize]; n += 2 } }
    let _ = CASE.try_with(|c| c.set((a, n)));
}
fn witness(size: usize) {
    if let Ok(path) = std::env::var("VH_WITNESS") {
        let (a, n) = CASE.try_with(|c| c.get()).unwrap_or(([0; 768], 0));
        let case = String::from_utf8_lossy(&a[..n]).to_string();
        let _ = std::fs::write(path, format!("{{\"refused_allocation_bytes\": {}, \"case\": \"{}\"}}\n", size, case));
    }
}
fn note(n: usize) {
    let _ = TOTAL.try_with(|t| t.set(t.get().wrapping_add(n)));
    let _ = MAX_ONE.try_with(|m| if n > m.get() { m.set(n) });
}
unsafe impl GlobalAlloc for Counting {
    unsafe fn alloc(&self, l: Layout) -> *mut u8 { note(l.size()); if l.size() > REFUSE_ABOVE { witness(l.size()); return std::ptr::null_mut() } System.alloc(l) }
    unsafe fn dealloc(&self, p: *mut u8, l: Layout) { System.dealloc(p, l) }
    unsafe fn alloc_zeroed(&self, l: Layout) -> *mut u8 { note(l.size()); if l.size() > REFUSE_ABOVE { witness(l.size()); return std::ptr::null_mut() } System.alloc_zeroed(l) }
    unsafe fn realloc(&self, p: *mut u8, l: Layout, new: usize) -> *mut u8 {
        if new > l.size() { let _ = TOTAL.try_with(|t| t.set(t.get().wrapping_add(new - l.size()))); }
        let _ = MAX_ONE.try_with(|m| if new > m.get() { m.set(new) });
        if new > REFUSE_ABOVE { witness(new); return std::ptr::null_mut() }
        System.realloc(p, l, new)
    }
}
pub fn reset() { TOTAL.with(|t| t.set(0)); MAX_ONE.with(|m| m.set(0)); }
pub fn total() -> usize { TOTAL.with(|t| t.get()) }
pub fn max_one() -> usize { MAX_ONE.with(|m| m.get()) }
