//! Input generation: random well-formed CBOR items with random head widths, indefinite framing,
//! chunked strings and tags, plus mutations.  This produces *inputs* only; what the implementation
//! must do with them is decided by the specification.
use rand::{rngs::StdRng, Rng};

thread_local! {
    /// (width, bit pattern) of every float emitted by the last gen_item call, in input order
    pub static FLOATS: std::cell::RefCell<Vec<(u8, Vec<u8>)>> = std::cell::RefCell::new(Vec::new());
}

pub struct Opts {
    pub max_depth: u32,
    pub max_nodes: u32,
    pub nonminimal: bool,   // allow wider-than-needed heads
    pub indefinite: bool,   // allow indefinite arrays/maps/strings
    pub bad_utf8: bool,     // occasionally emit text that is not valid UTF-8
    pub floats: bool
}

impl Default for Opts {
    fn default() -> Self { Opts { max_depth: 8, max_nodes: 200, nonminimal: true, indefinite: true, bad_utf8: false, floats: true } }
}

pub fn head(out: &mut Vec<u8>, major: u8, arg: u64, w: u8) {
    let m = major << 5;
    match w {
        0 => out.push(m | arg as u8),
        1 => { out.push(m | 24); out.push(arg as u8) }
        2 => { out.push(m | 25); out.extend_from_slice(&(arg as u16).to_be_bytes()) }
        4 => { out.push(m | 26); out.extend_from_slice(&(arg as u32).to_be_bytes()) }
        _ => { out.push(m | 27); out.extend_from_slice(&arg.to_be_bytes()) }
    }
}
pub fn min_width(arg: u64) -> u8 {
    if arg < 24 { 0 } else if arg <= 0xff { 1 } else if arg <= 0xffff { 2 } else if arg <= 0xffff_ffff { 4 } else { 8 }
}
pub fn pick_width(rng: &mut StdRng, arg: u64, nonminimal: bool) -> u8 {
    let m = min_width(arg);
    if !nonminimal || rng.gen_range(0..4) != 0 { return m }
    let all = [0u8, 1, 2, 4, 8];
    let ok: Vec<u8> = all.iter().copied().filter(|w| *w >= m).collect();
    ok[rng.gen_range(0..ok.len())]
}
pub fn rand_arg(rng: &mut StdRng) -> u64 {
    match rng.gen_range(0..10) {
        0..=3 => rng.gen_range(0..32),
        4 => rng.gen_range(0..0x200),
        5 => rng.gen_range(0..0x20000),
        6 => { let k = rng.gen_range(0..64); (1u64 << k).wrapping_add(rng.gen_range(0..7)).wrapping_sub(3) }
        7 => rng.gen::<u32>() as u64,
        _ => rng.gen()
    }
}
const TEXTS: &[&str] = &["", "a", "ab", "hello", "\u{e9}", "\u{20ac}", "\u{1f600}", "x\u{7ff}y", "\u{800}\u{ffff}", "\u{10000}\u{10ffff}", "quote\"back\\slash"];
fn rand_text(rng: &mut StdRng, bad: bool) -> Vec<u8> {
    if bad && rng.gen_range(0..6) == 0 {
        let bads: [&[u8]; 8] = [&[0xff], &[0xc0, 0x80], &[0xe0, 0x80, 0x80], &[0xed, 0xa0, 0x80], &[0xf4, 0x90, 0x80, 0x80], &[0x61, 0x80], &[0xc3], &[0xf0, 0x9f, 0x98]];
        return bads[rng.gen_range(0..bads.len())].to_vec()
    }
    let mut s = String::new();
    for _ in 0..rng.gen_range(0..3) { s.push_str(TEXTS[rng.gen_range(0..TEXTS.len())]) }
    s.into_bytes()
}
fn rand_bytes(rng: &mut StdRng) -> Vec<u8> {
    let n = match rng.gen_range(0..8) { 0 => 0, 1 => 23, 2 => 24, 3 => rng.gen_range(0..300), _ => rng.gen_range(0..6) };
    (0..n).map(|_| rng.gen()).collect()
}

pub fn item(rng: &mut StdRng, o: &Opts, depth: u32, budget: &mut u32, out: &mut Vec<u8>) {
    if *budget > 0 { *budget -= 1 }
    let leaf = depth >= o.max_depth || *budget == 0;
    let k = if leaf { rng.gen_range(0..7) } else { rng.gen_range(0..12) };
    match k {
        0 => { let a = rand_arg(rng); let w = pick_width(rng, a, o.nonminimal); head(out, 0, a, w) }
        1 => { let a = rand_arg(rng); let w = pick_width(rng, a, o.nonminimal); head(out, 1, a, w) }
        2 | 3 => {
            let major = if k == 2 { 2 } else { 3 };
            if o.indefinite && rng.gen_range(0..4) == 0 {
                out.push((major << 5) | 31);
                for _ in 0..rng.gen_range(0..4) {
                    let b = if major == 2 { rand_bytes(rng) } else { rand_text(rng, o.bad_utf8) };
                    let w = pick_width(rng, b.len() as u64, o.nonminimal);
                    head(out, major, b.len() as u64, w); out.extend_from_slice(&b)
                }
                out.push(0xff)
            } else {
                let b = if major == 2 { rand_bytes(rng) } else { rand_text(rng, o.bad_utf8) };
                let w = pick_width(rng, b.len() as u64, o.nonminimal);
                head(out, major, b.len() as u64, w); out.extend_from_slice(&b)
            }
        }
        4 => { // simple / bool / null / undefined
            match rng.gen_range(0..6) {
                0 => out.push(0xf4), 1 => out.push(0xf5), 2 => out.push(0xf6), 3 => out.push(0xf7),
                4 => out.push(0xe0 + rng.gen_range(0..20)),
                _ => { out.push(0xf8); out.push(rng.gen_range(32..=255)) }
            }
        }
        5 => if o.floats {
            match rng.gen_range(0..3) {
                0 => { let b = rng.gen::<u16>().to_be_bytes(); out.push(0xf9); out.extend_from_slice(&b); FLOATS.with(|f| f.borrow_mut().push((2, b.to_vec()))) }
                1 => { let b = rng.gen::<u32>().to_be_bytes(); out.push(0xfa); out.extend_from_slice(&b); FLOATS.with(|f| f.borrow_mut().push((4, b.to_vec()))) }
                _ => { let b = rng.gen::<u64>().to_be_bytes(); out.push(0xfb); out.extend_from_slice(&b); FLOATS.with(|f| f.borrow_mut().push((8, b.to_vec()))) }
            }
        } else { out.push(0xf6) }
        6 => { let a = rng.gen_range(0..24); head(out, 0, a, 0) }
        7 | 8 => { // array
            let n = rng.gen_range(0..5u64);
            if o.indefinite && rng.gen_range(0..3) == 0 {
                out.push(0x9f); for _ in 0..n { item(rng, o, depth + 1, budget, out) } out.push(0xff)
            } else {
                let w = pick_width(rng, n, o.nonminimal); head(out, 4, n, w);
                for _ in 0..n { item(rng, o, depth + 1, budget, out) }
            }
        }
        9 | 10 => { // map
            let n = rng.gen_range(0..4u64);
            if o.indefinite && rng.gen_range(0..3) == 0 {
                out.push(0xbf); for _ in 0..2 * n { item(rng, o, depth + 1, budget, out) } out.push(0xff)
            } else {
                let w = pick_width(rng, n, o.nonminimal); head(out, 5, n, w);
                for _ in 0..2 * n { item(rng, o, depth + 1, budget, out) }
            }
        }
        _ => { let t = rand_arg(rng); let w = pick_width(rng, t, o.nonminimal); head(out, 6, t, w); item(rng, o, depth + 1, budget, out) }
    }
}

pub fn gen_item(rng: &mut StdRng, o: &Opts) -> Vec<u8> {
    FLOATS.with(|f| f.borrow_mut().clear());
    let mut out = Vec::new();
    let mut budget = o.max_nodes;
    item(rng, o, 0, &mut budget, &mut out);
    out
}

/// Small mutations of a valid encoding: flip/replace a byte, delete or duplicate a byte, splice.
pub fn mutate(rng: &mut StdRng, b: &[u8]) -> Vec<u8> {
    let mut v = b.to_vec();
    if v.is_empty() { return vec![rng.gen()] }
    let i = rng.gen_range(0..v.len());
    match rng.gen_range(0..6) {
        0 => v[i] = rng.gen(),
        1 => v[i] ^= 1 << rng.gen_range(0..8),
        2 => { v.remove(i); }
        3 => { let x = v[i]; v.insert(i, x) }
        4 => v[i] = [0x1b, 0x3b, 0x5b, 0x7b, 0x9b, 0xbb, 0xdb, 0x9f, 0xbf, 0xff, 0x5f, 0x7f, 0xf8, 0x1c, 0xfc][rng.gen_range(0..15)],
        _ => { v.truncate(i); }
    }
    v
}

// ---------------------------------------------------------------------------------------------
// A small walker over encodings the harness itself produced (generation side only: what the
// re-framed or mutated bytes mean is decided by the specification).
#[derive(Clone, Copy, Debug)]
pub struct HeadInfo { pub off: usize, pub hl: usize, pub major: u8, pub info: u8, pub arg: u64 }

fn read_head(b: &[u8], p: usize) -> Option<HeadInfo> {
    let x = *b.get(p)?;
    let (major, info) = (x >> 5, x & 31);
    let (hl, arg) = match info {
        0..=23 => (1, info as u64),
        24 => (2, *b.get(p + 1)? as u64),
        25 => (3, u16::from_be_bytes([*b.get(p + 1)?, *b.get(p + 2)?]) as u64),
        26 => (5, u32::from_be_bytes(b.get(p + 1..p + 5)?.try_into().ok()?) as u64),
        27 => (9, u64::from_be_bytes(b.get(p + 1..p + 9)?.try_into().ok()?)),
        31 => (1, 0),
        _ => return None
    };
    Some(HeadInfo { off: p, hl, major, info, arg })
}

/// Walk one item at p; calls `f` for every head; returns the end offset.
pub fn walk(b: &[u8], p: usize, f: &mut dyn FnMut(HeadInfo)) -> Option<usize> {
    let h = read_head(b, p)?;
    f(h);
    let mut q = p + h.hl;
    match h.major {
        0 | 1 | 7 => Some(q),
        2 | 3 => if h.info == 31 { loop { if *b.get(q)? == 0xff { return Some(q + 1) } q = walk(b, q, f)?; } } else { let e = q.checked_add(h.arg as usize)?; if e <= b.len() { Some(e) } else { None } },
        4 | 5 => {
            if h.info == 31 { loop { if *b.get(q)? == 0xff { return Some(q + 1) } q = walk(b, q, f)?; } }
            let n = if h.major == 4 { h.arg } else { h.arg.checked_mul(2)? };
            for _ in 0..n { q = walk(b, q, f)?; }
            Some(q)
        }
        _ => walk(b, q, f)
    }
}

fn reframe_item(rng: &mut StdRng, b: &[u8], p: usize, out: &mut Vec<u8>) -> Option<usize> {
    let h = read_head(b, p)?;
    let mut q = p + h.hl;
    match h.major {
        0 | 1 | 6 => {
            let w = pick_width(rng, h.arg, true);
            head(out, h.major, h.arg, w);
            if h.major == 6 { return reframe_item(rng, b, q, out) }
            Some(q)
        }
        7 => { out.extend_from_slice(&b[p..p + h.hl]); Some(q) }
        2 | 3 => {
            if h.info == 31 {
                // already chunked: the chunks stay definite (a chunk must not be chunked again), only their head widths vary
                out.extend_from_slice(&b[p..p + 1]);
                loop {
                    if *b.get(q)? == 0xff { out.push(0xff); return Some(q + 1) }
                    let c = read_head(b, q)?;
                    if c.major != h.major || c.info == 31 { return None }
                    let e = q + c.hl + c.arg as usize;
                    let body = b.get(q + c.hl..e)?;
                    let w = pick_width(rng, c.arg, true);
                    head(out, c.major, c.arg, w); out.extend_from_slice(body);
                    q = e;
                }
            }
            let e = q + h.arg as usize;
            let body = b.get(q..e)?;
            if rng.gen_range(0..4) == 0 {
                // chunked: split at positions that are not UTF-8 continuation bytes
                out.push((h.major << 5) | 31);
                let mut start = 0;
                while start < body.len() {
                    let mut end = (start + rng.gen_range(1..=body.len() - start)).min(body.len());
                    while end < body.len() && (body[end] & 0xc0) == 0x80 { end += 1 }
                    let w = pick_width(rng, (end - start) as u64, true);
                    head(out, h.major, (end - start) as u64, w); out.extend_from_slice(&body[start..end]);
                    start = end;
                }
                out.push(0xff);
            } else {
                let w = pick_width(rng, h.arg, true);
                head(out, h.major, h.arg, w); out.extend_from_slice(body);
            }
            Some(e)
        }
        _ => {
            let indef_in = h.info == 31;
            let n = if h.major == 4 { h.arg } else { h.arg * 2 };
            let make_indef = indef_in || rng.gen_range(0..3) == 0;
            if make_indef { out.push((h.major << 5) | 31) } else { let w = pick_width(rng, h.arg, true); head(out, h.major, h.arg, w) }
            if indef_in { loop { if *b.get(q)? == 0xff { q += 1; break } q = reframe_item(rng, b, q, out)?; } }
            else { for _ in 0..n { q = reframe_item(rng, b, q, out)?; } }
            if make_indef { out.push(0xff) }
            Some(q)
        }
    }
}

/// The same data item with other head widths, indefinite containers and chunked strings.
pub fn reframe(rng: &mut StdRng, b: &[u8]) -> Vec<u8> {
    let mut out = Vec::new();
    match reframe_item(rng, b, 0, &mut out) { Some(e) if e == b.len() => out, _ => b.to_vec() }
}

const BOUNDARY: &[u64] = &[0, 1, 23, 24, 25, 127, 128, 255, 256, 257, 32767, 32768, 65535, 65536, 65537, 999_999_999, 1_000_000_000,
    0x7fff_ffff, 0x8000_0000, 0xffff_ffff, 0x1_0000_0000, 0x1_0000_0001, 0x7fff_ffff_ffff_ffff, 0x8000_0000_0000_0000, 0xffff_ffff_ffff_fffe, 0xffff_ffff_ffff_ffff];

/// Type-directed mutations of a valid encoding: a head argument replaced by a boundary value, definite <-> indefinite,
/// truncation, a spliced sibling, a changed byte.
pub fn typed_mutations(rng: &mut StdRng, enc: &[u8]) -> Vec<Vec<u8>> {
    let mut heads = Vec::new();
    let _ = walk(enc, 0, &mut |h| heads.push(h));
    let mut out = Vec::new();
    if !heads.is_empty() {
        for _ in 0..3 {
            let h = heads[rng.gen_range(0..heads.len())];
            if h.info == 31 { continue }
            let arg = BOUNDARY[rng.gen_range(0..BOUNDARY.len())];
            let mut m = enc[..h.off].to_vec();
            let w = pick_width(rng, arg, true);
            head(&mut m, h.major, arg, w);
            m.extend_from_slice(&enc[h.off + h.hl..]);
            out.push(m);
        }
        // every (head, boundary) pair for small encodings
        if enc.len() <= 24 && heads.len() <= 4 {
            for h in &heads { if h.info == 31 { continue } for &arg in BOUNDARY {
                let mut m = enc[..h.off].to_vec(); head(&mut m, h.major, arg, min_width(arg)); m.extend_from_slice(&enc[h.off + h.hl..]); out.push(m);
            } }
        }
        // two heads at once, every pair of boundary values (small encodings only): conditions that need two cooperating arguments
        if enc.len() <= 20 && heads.len() >= 2 && heads.len() <= 4 {
            for i in 0..heads.len() { for j in i + 1..heads.len() {
                let (h1, h2) = (heads[i], heads[j]);
                if h1.info == 31 || h2.info == 31 || h1.off + h1.hl > h2.off { continue }
                for &a1 in BOUNDARY { for &a2 in BOUNDARY {
                    let mut m = enc[..h1.off].to_vec(); head(&mut m, h1.major, a1, min_width(a1));
                    m.extend_from_slice(&enc[h1.off + h1.hl..h2.off]); head(&mut m, h2.major, a2, min_width(a2));
                    m.extend_from_slice(&enc[h2.off + h2.hl..]); out.push(m);
                } }
            } }
        }
        // definite container -> indefinite without break / with break
        let h = heads[rng.gen_range(0..heads.len())];
        if (h.major == 4 || h.major == 5) && h.info != 31 {
            let mut m = enc[..h.off].to_vec(); m.push((h.major << 5) | 31); m.extend_from_slice(&enc[h.off + h.hl..]); out.push(m.clone());
            m.push(0xff); out.push(m);
        }
        // splice: repeat the bytes from a head to the end
        let h = heads[rng.gen_range(0..heads.len())];
        let mut m = enc.to_vec(); m.extend_from_slice(&enc[h.off..]); out.push(m);
    }
    if !enc.is_empty() { out.push(enc[..rng.gen_range(0..enc.len())].to_vec()); }
    out.push(mutate(rng, enc));
    out
}
