//! Input generation: random well-formed CBOR items with random head widths, indefinite framing,
//! chunked strings and tags, plus mutations.  This produces *inputs* only; what the implementation
//! must do with them is decided by the specification.
use rand::{rngs::StdRng, Rng};

thread_local! {
    /// (width, bit pattern) of every float emitted by the last gen_item call, in input order
    pub static FLOATS: std::cell::RefCell<Vec<(u8, Vec<u8>)>> = std::cell::RefCell::new(Vec::new());
}

pub struct Opts {
    pub max_depth: u32,
    pub max_nodes: u32,
    pub nonminimal: bool,   // allow wider-than-needed heads
    pub indefinite: bool,   // allow indefinite arrays/maps/strings
    pub bad_utf8: bool,     // occasionally emit text that is not valid UTF-8
    pub floats: bool
}

impl Default for Opts {
    fn default() -> Self { Opts { max_depth: 8, max_nodes: 200, nonminimal: true, indefinite: true, bad_utf8: false, floats: true } }
}

pub fn head(out: &mut Vec<u8>, major: u8, arg: u64, w: u8) {
    let m = major << 5;
    match w {
        0 => out.push(m | arg as u8),
        1 => { out.push(m | 24); out.push(arg as u8) }
        2 => { out.push(m | 25); out.extend_from_slice(&(arg as u16).to_be_bytes()) }
        4 => { out.push(m | 26); out.extend_from_slice(&(arg as u32).to_be_bytes()) }
        _ => { out.push(m | 27); out.extend_from_slice(&arg.to_be_bytes()) }
    }
}
pub fn min_width(arg: u64) -> u8 {
    if arg < 24 { 0 } else if arg <= 0xff { 1 } else if arg <= 0xffff { 2 } else if arg <= 0xffff_ffff { 4 } else { 8 }
}
pub fn pick_width(rng: &mut StdRng, arg: u64, nonminimal: bool) -> u8 {
    let m = min_width(arg);
    if !nonminimal || rng.gen_range(0..4) != 0 { return m }
    let all = [0u8, 1, 2, 4, 8];
    let ok: Vec<u8> = all.iter().copied().filter(|w| *w >= m).collect();
    ok[rng.gen_range(0..ok.len())]
}
pub fn rand_arg(rng: &mut StdRng) -> u64 {
    match rng.gen_range(0..10) {
        0..=3 => rng.gen_range(0..32),
        4 => rng.gen_range(0..0x200),
        5 => rng.gen_range(0..0x20000),
        6 => { let k = rng.gen_range(0..64); (1u64 << k).wrapping_add(rng.gen_range(0..7)).wrapping_sub(3) }
        7 => rng.gen::<u32>() as u64,
        _ => rng.gen()
    }
}
const TEXTS: &[&str] = &["", "a", "ab", "hello", "\u{e9}", "\u{20ac}", "\u{1f600}", "x\u{7ff}y", "\u{800}\u{ffff}", "\u{10000}\u{10ffff}", "quote\"back\\slash"];
fn rand_text(rng: &mut StdRng, bad: bool) -> Vec<u8> {
    if bad && rng.gen_range(0..6) == 0 {
        let bads: [&[u8]; 8] = [&[0xff], &[0xc0, 0x80], &[0xe0, 0x80, 0x80], &[0xed, 0xa0, 0x80], &[0xf4, 0x90, 0x80, 0x80], &[0x61, 0x80], &[0xc3], &[0xf0, 0x9f, 0x98]];
        return bads[rng.gen_range(0..bads.len())].to_vec()
    }
    let mut s = String::new();
    for _ in 0..rng.gen_range(0..3) { s.push_str(TEXTS[rng.gen_range(0..TEXTS.len())]) }
    s.into_bytes()
}
fn rand_bytes(rng: &mut StdRng) -> Vec<u8> {
    let n = match rng.gen_range(0..8) { 0 => 0, 1 => 23, 2 => 24, 3 => rng.gen_range(0..300), _ => rng.gen_range(0..6) };
    (0..n).map(|_| rng.gen()).collect()
}

pub fn item(rng: &mut StdRng, o: &Opts, depth: u32, budget: &mut u32, out: &mut Vec<u8>) {
    if *budget > 0 { *budget -= 1 }
    let leaf = depth >= o.max_depth || *budget == 0;
    let k = if leaf { rng.gen_range(0..7) } else { rng.gen_range(0..12) };
    match k {
        0 => { let a = rand_arg(rng); let w = pick_width(rng, a, o.nonminimal); head(out, 0, a, w) }
        1 => { let a = rand_arg(rng); let w = pick_width(rng, a, o.nonminimal); head(out, 1, a, w) }
        2 | 3 => {
            let major = if k == 2 { 2 } else { 3 };
            if o.indefinite && rng.gen_range(0..4) == 0 {
                out.push((major << 5) | 31);
                for _ in 0..rng.gen_range(0..4) {
                    let b = if major == 2 { rand_bytes(rng) } else { rand_text(rng, o.bad_utf8) };
                    let w = pick_width(rng, b.len() as u64, o.nonminimal);
                    head(out, major, b.len() as u64, w); out.extend_from_slice(&b)
                }
                out.push(0xff)
            } else {
                let b = if major == 2 { rand_bytes(rng) } else { rand_text(rng, o.bad_utf8) };
                let w = pick_width(rng, b.len() as u64, o.nonminimal);
                head(out, major, b.len() as u64, w); out.extend_from_slice(&b)
            }
        }
        4 => { // simple / bool / null / undefined
            match rng.gen_range(0..6) {
                0 => out.push(0xf4), 1 => out.push(0xf5), 2 => out.push(0xf6), 3 => out.push(0xf7),
                4 => out.push(0xe0 + rng.gen_range(0..20)),
                _ => { out.push(0xf8); out.push(rng.gen_range(32..=255)) }
            }
        }
        5 => if o.floats {
            match rng.gen_range(0..3) {
                0 => { let b = rng.gen::<u16>().to_be_bytes(); out.push(0xf9); out.extend_from_slice(&b); FLOATS.with(|f| f.borrow_mut().push((2, b.to_vec()))) }
                1 => { let b = rng.gen::<u32>().to_be_bytes(); out.push(0xfa); out.extend_from_slice(&b); FLOATS.with(|f| f.borrow_mut().push((4, b.to_vec()))) }
                _ => { let b = rng.gen::<u64>().to_be_bytes(); out.push(0xfb); out.extend_from_slice(&b); FLOATS.with(|f| f.borrow_mut().push((8, b.to_vec()))) }
            }
        } else { out.push(0xf6) }
        6 => { let a = rng.gen_range(0..24); head(out, 0, a, 0) }
        7 | 8 => { // array
            let n = rng.gen_range(0..5u64);
            if o.indefinite && rng.gen_range(0..3) == 0 {
                out.push(0x9f); for _ in 0..n { item(rng, o, depth + 1, budget, out) } out.push(0xff)
            } else {
                let w = pick_width(rng, n, o.nonminimal); head(out, 4, n, w);
                for _ in 0..n { item(rng, o, depth + 1, budget, out) }
            }
        }
        9 | 10 => { // map
            let n = rng.gen_range(0..4u64);
            if o.indefinite && rng.gen_range(0..3) == 0 {
                out.push(0xbf); for _ in 0..2 * n { item(rng, o, depth + 1, budget, out) } out.push(0xff)
            } else {
                let w = pick_width(rng, n, o.nonminimal); head(out, 5, n, w);
                for _ in 0..2 * n { item(rng, o, depth + 1, budget, out) }
            }
        }
        _ => { let t = rand_arg(rng); let w = pick_width(rng, t, o.nonminimal); head(out, 6, t, w); item(rng, o, depth + 1, budget, out) }
    }
}

pub fn gen_item(rng: &mut StdRng, o: &Opts) -> Vec<u8> {
    FLOATS.with(|f| f.borrow_mut().clear());
    let mut out = Vec::new();
    let mut budget = o.max_nodes;
    item(rng, o, 0, &mut budget, &mut out);
    out
}

/// Small mutations of a valid encoding: flip/replace a byte, delete or duplicate a byte, splice.
pub fn mutate(rng: &mut StdRng, b: &[u8]) -> Vec<u8> {
    let mut v = b.to_vec();
    if v.is_empty() { return vec![rng.gen()] }
    let i = rng.gen_range(0..v.len());
    match rng.gen_range(0..6) {
        0 => v[i] = rng.gen(),
        1 => v[i] ^= 1 << rng.gen_range(0..8),
        2 => { v.remove(i); }
        3 => { let x = v[i]; v.insert(i, x) }
        4 => v[i] = [0x1b, 0x3b, 0x5b, 0x7b, 0x9b, 0xbb, 0xdb, 0x9f, 0xbf, 0xff, 0x5f, 0x7f, 0xf8, 0x1c, 0xfc][rng.gen_range(0..15)],
        _ => { v.truncate(i); }
    }
    v
}
