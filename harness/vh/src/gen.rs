//! Trace generation (implementation -> specification): drive the real code over inputs far
//! outside the bounded model and record one event per call.
use crate::ops::run_op;
use rand::{rngs::StdRng, Rng, SeedableRng};
use serde_json::{json, Value};
use std::io::{BufWriter, Write};

pub struct Sink {
    dir: String,
    shard_cap: usize,
    cur: Option<BufWriter<std::fs::File>>,
    in_cur: usize,
    pub shards: usize,
    pub events: u64,
    pub distinct_inputs: u64,
    pub monitored: u64,
    pub samples: Vec<Value>
}

impl Sink {
    pub fn new(dir: &str, shard_cap: usize) -> Self {
        std::fs::create_dir_all(dir).unwrap();
        Sink { dir: dir.into(), shard_cap, cur: None, in_cur: 0, shards: 0, events: 0, distinct_inputs: 0, monitored: 0, samples: vec![] }
    }
    pub fn put(&mut self, ev: Value) {
        if self.cur.is_none() || self.in_cur >= self.shard_cap {
            if let Some(mut w) = self.cur.take() { w.flush().unwrap() }
            let f = std::fs::File::create(format!("{}/shard-{:04}.ndjson", self.dir, self.shards)).unwrap();
            self.cur = Some(BufWriter::new(f));
            self.shards += 1;
            self.in_cur = 0;
        }
        if self.samples.len() < 4 || (self.events % 100_003 == 0 && self.samples.len() < 10) { self.samples.push(ev.clone()) }
        writeln!(self.cur.as_mut().unwrap(), "{}", ev).unwrap();
        self.in_cur += 1;
        self.events += 1;
    }
    pub fn call(&mut self, fam: &str, name: &str, input: &Value) {
        let obs = run_op(fam, name, input);
        self.put(json!({"fam": fam, "name": name, "in": input, "obs": obs}));
    }
    pub fn finish(mut self) -> Value {
        if let Some(mut w) = self.cur.take() { w.flush().unwrap() }
        json!({"events": self.events, "shards": self.shards, "distinct_inputs": self.distinct_inputs, "monitored": self.monitored, "samples": self.samples})
    }
}

fn head(major: u8, arg: u64, w: u8) -> Vec<u8> {
    let m = major << 5;
    match w {
        0 => vec![m | arg as u8],
        1 => vec![m | 24, arg as u8],
        2 => { let mut v = vec![m | 25]; v.extend_from_slice(&(arg as u16).to_be_bytes()); v }
        4 => { let mut v = vec![m | 26]; v.extend_from_slice(&(arg as u32).to_be_bytes()); v }
        _ => { let mut v = vec![m | 27]; v.extend_from_slice(&arg.to_be_bytes()); v }
    }
}
fn fits(arg: u64, w: u8) -> bool {
    match w { 0 => arg < 24, 1 => arg <= 0xff, 2 => arg <= 0xffff, 4 => arg <= 0xffff_ffff, _ => true }
}

const ACC_INT: &[&str] = &["u8","u16","u32","u64","i8","i16","i32","i64","int","char","datatype"];
const DEC_INT: &[&str] = &["u8","u16","u32","u64","usize","i8","i16","i32","i64","isize","int","char",
    "nzu8","nzu16","nzu32","nzu64","nzusize","nzi8","nzi16","nzi32","nzi64","nzisize",
    "au8","au16","au32","au64","ausize","ai8","ai16","ai32","ai64","aisize","wu8","wi64"];

/// C05: (major, width, argument) triples x all integer targets.
fn gen_c05(sink: &mut Sink, tier: &str, seed: u64) {
    let mut rng = StdRng::seed_from_u64(seed);
    let mut args: Vec<u64> = Vec::new();
    // every argument below 2^16 (thorough) or a seeded stratified 1/64 of them (quick)
    if tier == "thorough" { args.extend(0..=0xffffu64) }
    else { for base in (0..=0xffffu64).step_by(64) { args.push(base + rng.gen_range(0..64)) } args.extend(0..=300u64); }
    for k in 0..64u32 { for d in 0..=3u64 { args.push((1u64 << k).wrapping_add(d)); args.push((1u64 << k).wrapping_sub(d)); } }
    for d in 0..=3u64 { args.push(u64::MAX - d) }
    let nrand = if tier == "thorough" { 20000 } else { 500 };
    for _ in 0..nrand { let bits = rng.gen_range(0..=64u32); args.push(if bits == 64 { rng.gen() } else { rng.gen::<u64>() & ((1u64 << bits) - 1) }); }
    args.sort_unstable(); args.dedup();
    // decode targets are sampled per input in the quick tier to keep the event count in budget
    for major in 0..2u8 {
        for &w in &[0u8, 1, 2, 4, 8] {
            for &a in &args {
                if !fits(a, w) { continue }
                let buf = head(major, a, w);
                sink.distinct_inputs += 1;
                let input = json!({"buf": crate::abs::bytes(&buf), "pos": 0});
                for n in ACC_INT { sink.call("acc", n, &input) }
                if tier == "thorough" || a > 0xffff || a % 16 == 0 || a < 300 {
                    for n in DEC_INT { sink.call("dec", n, &input) }
                } else {
                    let n = DEC_INT[rng.gen_range(0..DEC_INT.len())];
                    sink.call("dec", n, &input)
                }
                if w == 8 {
                    for t in ["u8","u16","u32","u64","i8","i16","i32","i64","u128","i128"] {
                        sink.call("int_into", t, &json!({"neg": major == 1, "mag": crate::abs::u64b(a)}));
                    }
                    let mut m16 = vec![0u8; 8]; m16.extend_from_slice(&a.to_be_bytes());
                    sink.call("int_from", "i128", &json!({"neg": major == 1, "mag": crate::abs::bytes(&m16)}));
                    if major == 0 { sink.call("int_from", "u128", &json!({"neg": false, "mag": crate::abs::bytes(&m16)})); }
                    let hi: u64 = rng.gen_range(1..=u64::MAX >> 1);
                    let mut m16 = hi.to_be_bytes().to_vec(); m16.extend_from_slice(&a.to_be_bytes());
                    sink.call("int_from", "i128", &json!({"neg": major == 1, "mag": crate::abs::bytes(&m16)}));
                    if major == 0 { sink.call("int_from", "u128", &json!({"neg": false, "mag": crate::abs::bytes(&m16)})); }
                }
                // a strict prefix of the head
                if w > 0 && (tier == "thorough" || a % 8 == 0) {
                    let cut = rng.gen_range(0..buf.len());
                    let input = json!({"buf": crate::abs::bytes(&buf[..cut]), "pos": 0});
                    for n in ACC_INT { sink.call("acc", n, &input) }
                }
            }
        }
    }
}

pub const CFG: &str = if cfg!(feature = "std") { "std" } else if cfg!(feature = "alloc") { "alloc" } else { "none" };

/// C06: skip() on generated items with suffixes, prefixes, deep chains; also the full decode of the same item.
fn gen_c06(sink: &mut Sink, tier: &str, seed: u64) {
    use crate::cbgen::*;
    let mut rng = StdRng::seed_from_u64(seed ^ 0xc06);
    let n = if tier == "thorough" { 60000 } else { 8000 };
    let suffixes: [&[u8]; 4] = [&[], &[0x00], &[0xff], &[0x9f, 0x01]];
    let mut call = |sink: &mut Sink, name: &str, buf: &[u8]| {
        let input = json!({"buf": crate::abs::bytes(buf), "pos": 0});
        let obs = run_op("acc", name, &input);
        sink.put(json!({"fam": "acc", "name": name, "cfg": CFG, "in": input, "obs": obs}));
    };
    // deep chains (indefinite arrays / maps / tags / singletons nested very deep), spread over the shards
    let mut chains = deep_chains(tier);
    let every = std::cmp::max(1, n / (chains.len() + 1));
    for i in 0..n {
        if i % every == 0 { if let Some(c) = chains.pop() { sink.distinct_inputs += 1; call(sink, "skip", &c); } }
        let o = Opts { max_depth: 8, max_nodes: if i % 10 == 0 { 200 } else { 30 }, bad_utf8: i % 7 == 0, ..Opts::default() };
        let it = gen_item(&mut rng, &o);
        sink.distinct_inputs += 1;
        // the item followed by each suffix
        for s in suffixes.iter() {
            let mut b = it.clone(); b.extend_from_slice(s);
            call(sink, "skip", &b);
        }
        if cfg!(feature = "alloc") { call(sink, "item", &it); }
        // strict prefixes: all of them for 1 in 20 items, one random otherwise
        if i % 20 == 0 && (it.len() <= 100 || tier == "thorough") { for cut in 0..it.len() { call(sink, "skip", &it[..cut]); } }
        else { let cut = rng.gen_range(0..it.len()); call(sink, "skip", &it[..cut]); }
        // a mutation (may or may not be well-formed: the specification classifies it)
        let m = mutate(&mut rng, &it);
        call(sink, "skip", &m);
    }
}

fn deep_chains(tier: &str) -> Vec<Vec<u8>> {
    let mut outv = Vec::new();
    let depths: &[usize] = if tier == "thorough" { &[10, 100, 1000, 4000] } else { &[10, 100, 500] };
    for &depth in depths {
        for kind in 0..6 {
            let mut b = Vec::new();
            for j in 0..depth {
                match kind {
                    0 => b.push(0x9f), 1 => { b.push(0xbf); b.push(0x00) } 2 => b.push(0xc1), 3 => b.push(0x81),
                    4 => { if j % 2 == 0 { b.push(0x9f) } else { b.push(0x81) } }
                    _ => { if j % 3 == 0 { b.push(0x82); b.push(0x00) } else { b.push(0x9f) } }
                }
            }
            b.push(0x01);
            for j in (0..depth).rev() {
                match kind {
                    0 | 1 => b.push(0xff), 2 | 3 => {}
                    4 => { if j % 2 == 0 { b.push(0xff) } }
                    _ => { if j % 3 != 0 { b.push(0xff) } }
                }
            }
            let mut c = b.clone(); c.push(0x05);
            outv.push(b[..b.len() - 1].to_vec());
            outv.push(b[..b.len() / 2].to_vec());
            outv.push(c);
            outv.push(b);
        }
    }
    outv
}

/// C03: every Encoder method over exhaustive 8/16-bit ranges, boundary-dense and random wider arguments, all simple
/// values, lengths of strings, and random call sequences (balanced or not: the specification classifies them).
#[cfg(feature = "alloc")]
fn gen_c03(sink: &mut Sink, tier: &str, seed: u64) {
    let mut rng = StdRng::seed_from_u64(seed ^ 0xc03);
    let thorough = tier == "thorough";
    let ival = |v: i128| -> (bool, u64) { if v >= 0 { (false, v as u64) } else { (true, (-1 - v) as u64) } };
    let mut put_int = |sink: &mut Sink, m: &str, v: i128| {
        let (neg, mag) = ival(v);
        sink.distinct_inputs += 1;
        sink.call("enc", m, &json!({"m": m, "neg": neg, "mag": crate::abs::u64b(mag)}));
    };
    for v in 0..=255i128 { put_int(sink, "u8", v); put_int(sink, "i8", v - 128); }
    let step16 = if thorough { 1 } else { 13 };
    for v in (0..=65535i128).step_by(step16) { put_int(sink, "u16", v); put_int(sink, "i16", v - 32768); }
    let mut wide: Vec<i128> = vec![];
    for k in 0..=64u32 { for d in -3i128..=3 { wide.push((1i128 << k) + d); wide.push(-(1i128 << k) + d); } }
    for _ in 0..(if thorough { 40000 } else { 3000 }) { let bits = rng.gen_range(0..=64); let m: i128 = (rng.gen::<u64>() as i128) & ((1i128 << bits) - 1); wide.push(m); wide.push(-1 - m); }
    if thorough { for v in 0..=0x1ffffi128 { wide.push(v); wide.push(-v); } } else { for v in (0..=0x1ffffi128).step_by(29) { wide.push(v); wide.push(-v); } }
    for v in wide {
        if v >= 0 && v <= u32::MAX as i128 { put_int(sink, "u32", v) }
        if v >= i32::MIN as i128 && v <= i32::MAX as i128 { put_int(sink, "i32", v) }
        if v >= 0 && v <= u64::MAX as i128 { put_int(sink, "u64", v) }
        if v >= i64::MIN as i128 && v <= i64::MAX as i128 { put_int(sink, "i64", v) }
        if v >= -(1i128 << 64) && v < (1i128 << 64) { put_int(sink, "int", v) }
        if v >= 0 && v <= u64::MAX as i128 {
            for m in ["tag", "array", "map"] { sink.call("enc", m, &json!({"m": m, "n": crate::abs::u64b(v as u64)})) }
        }
        if v >= 0 && v < 0x110000 && char::from_u32(v as u32).is_some() { sink.call("enc", "char", &json!({"m": "char", "i": v})) }
    }
    for n in 0..=255 { sink.call("enc", "simple", &json!({"m": "simple", "i": n})) }
    for b in [true, false] { sink.call("enc", "bool", &json!({"m": "bool", "b": b})) }
    for m in ["null", "undefined", "begin_array", "begin_map", "begin_bytes", "begin_str", "end"] { sink.call("enc", m, &json!({"m": m})) }
    for n in [0usize, 1, 22, 23, 24, 25, 254, 255, 256, 257, 1000, 65535, 65536, 65537] {
        if n > 1000 && !thorough { continue }
        let b: Vec<u8> = (0..n).map(|i| (i * 7 % 128) as u8).collect();
        for m in ["bytes", "str"] { sink.call("enc", m, &json!({"m": m, "b": crate::abs::bytes(&b)})) }
    }
    // the iterator encoders under every kind of size hint a well-behaved iterator can give
    for _ in 0..(if thorough { 20000 } else { 1500 }) {
        let n = match rng.gen_range(0..6) { 0 => 0, 1 => 23, 2 => 24, 3 => rng.gen_range(0..300), _ => rng.gen_range(0..6) };
        let kind = if rng.gen() { "array" } else { "map" };
        let xs: Vec<Value> = (0..(if kind == "array" { n } else { 2 * n })).map(|_| crate::abs::u64b(crate::cbgen::rand_arg(&mut rng))).collect();
        let low = match rng.gen_range(0..4) { 0 => n, 1 => 0, _ => rng.gen_range(0..=n) };
        let up: i64 = match rng.gen_range(0..4) { 0 => -1, 1 => n as i64, 2 => low.max(n) as i64, _ => (n + rng.gen_range(0..4)) as i64 };
        sink.distinct_inputs += 1;
        sink.call("encit", kind, &json!({"kind": kind, "xs": xs, "low": low, "up": up}));
    }
    // random call sequences
    let alphabet: Vec<Value> = vec![json!({"m":"u8","neg":false,"mag":crate::abs::u64b(7)}), json!({"m":"i16","neg":true,"mag":crate::abs::u64b(300)}),
        json!({"m":"array","n":crate::abs::u64b(0)}), json!({"m":"array","n":crate::abs::u64b(1)}), json!({"m":"array","n":crate::abs::u64b(2)}),
        json!({"m":"map","n":crate::abs::u64b(1)}), json!({"m":"map","n":crate::abs::u64b(2)}), json!({"m":"begin_array"}), json!({"m":"begin_map"}),
        json!({"m":"end"}), json!({"m":"tag","n":crate::abs::u64b(1000)}), json!({"m":"str","b":[104, 105]}), json!({"m":"begin_str"}),
        json!({"m":"begin_bytes"}), json!({"m":"bytes","b":[1, 2, 3]}), json!({"m":"null"}), json!({"m":"bool","b":true}), json!({"m":"simple","i":99})];
    for _ in 0..(if thorough { 60000 } else { 6000 }) {
        let n = rng.gen_range(1..10);
        let calls: Vec<Value> = (0..n).map(|_| alphabet[rng.gen_range(0..alphabet.len())].clone()).collect();
        sink.distinct_inputs += 1;
        sink.call("encseq", "calls", &json!({"calls": calls}));
    }
}

/// C04: every accessor on generated well-formed items (random widths and framing, depth 8), at the start and at random
/// offsets inside them, and on their strict prefixes.
#[cfg(all(feature = "alloc", feature = "half"))]
fn gen_c04(sink: &mut Sink, tier: &str, seed: u64) {
    use crate::cbgen::*;
    let mut rng = StdRng::seed_from_u64(seed ^ 0xc04);
    let n = if tier == "thorough" { 30000 } else { 2500 };
    const ACCS: &[&str] = &["u8","u16","u32","u64","i8","i16","i32","i64","int","char","bool","null","undefined","simple","f16","f32","f64",
                            "bytes","str","bytes_iter","str_iter","array","map","tag","datatype","array_iter","map_iter","array_iter_with","map_iter_with"];
    for i in 0..n {
        let o = Opts { max_depth: 8, max_nodes: if i % 10 == 0 { 200 } else { 12 }, bad_utf8: i % 6 == 0, ..Opts::default() };
        let it = gen_item(&mut rng, &o);
        sink.distinct_inputs += 1;
        let b = crate::abs::bytes(&it);
        for a in ACCS { sink.call("acc", a, &json!({"buf": b, "pos": 0})) }
        { let a = ACCS[rng.gen_range(0..ACCS.len())]; sink.call("probe", a, &json!({"buf": b, "pos": 0})); }
        // somewhere inside
        for k in 0..3 { let p = rng.gen_range(0..=it.len()); let a = ACCS[rng.gen_range(0..ACCS.len())]; sink.call(if k == 2 { "probe" } else { "acc" }, a, &json!({"buf": b, "pos": p})); }
        // strict prefixes: all for 1 in 50 small items, else one
        if i % 50 == 0 && it.len() <= 40 { for cut in 0..it.len() { let pb = crate::abs::bytes(&it[..cut]); for a in ACCS { sink.call("acc", a, &json!({"buf": pb, "pos": 0})) } } }
        else { let cut = rng.gen_range(0..it.len()); let pb = crate::abs::bytes(&it[..cut]); for a in ACCS { sink.call("acc", a, &json!({"buf": pb, "pos": 0})) } }
    }
}

/// C01 / C07 / C02 (typed): every registered built-in instantiation: round trip, re-framed encodings, mutations.
#[cfg(feature = "std")]
fn gen_typed(sink: &mut Sink, tier: &str, seed: u64, want: &str) {
    let mut rng = StdRng::seed_from_u64(seed ^ 0xc01);
    crate::types::THOROUGH.store(tier == "thorough", core::sync::atomic::Ordering::Relaxed);
    let n = match (tier, want) { ("thorough", "mut") => 120, ("thorough", "cross") => 60, ("thorough", _) => 400, (_, "mut") => 12, (_, "cross") => 10, _ => 40 };
    crate::types::exercise_all(&mut rng, sink, n, want);
}

/// C07 for tokens: every Token variant over boundary arguments: bytes written vs length computed.
#[cfg(all(feature = "std", feature = "half"))]
fn gen_toklen(sink: &mut Sink, tier: &str, seed: u64) {
    use minicbor::data::{Int, Tag, Token};
    let mut rng = StdRng::seed_from_u64(seed ^ 0xc07);
    let mut args: Vec<u64> = vec![0, 1, 19, 20, 23, 24, 25, 31, 32, 255, 256, 65535, 65536, u32::MAX as u64, u32::MAX as u64 + 1, u64::MAX];
    for _ in 0..(if tier == "thorough" { 400 } else { 40 }) { args.push(crate::cbgen::rand_arg(&mut rng)) }
    let blobs: Vec<Vec<u8>> = [0usize, 1, 2, 23, 24, 255, 256, 300].iter().map(|n| (0..*n).map(|i| (i % 251) as u8).collect()).collect();
    let texts: Vec<String> = [0usize, 1, 23, 24, 255, 256].iter().map(|n| "x".repeat(*n)).collect();
    let mut emit = |sink: &mut Sink, t: Token| {
        let b = minicbor::to_vec(&t).unwrap_or_default();
        sink.distinct_inputs += 1;
        sink.put(json!({"fam":"typed","name":"toklen","tok":crate::toks::tok_json(&t),"variant":format!("{:?}", t).split('(').next().unwrap_or(""),
                        "bytes":crate::abs::bytes(&b),"len":minicbor::len(&t)}));
    };
    for &a in &args {
        emit(sink, Token::U8(a as u8)); emit(sink, Token::U16(a as u16)); emit(sink, Token::U32(a as u32)); emit(sink, Token::U64(a));
        emit(sink, Token::I8(a as i8)); emit(sink, Token::I16(a as i16)); emit(sink, Token::I32(a as i32)); emit(sink, Token::I64(a as i64));
        emit(sink, Token::I64(-1 - (a >> 1) as i64));
        emit(sink, Token::Int(Int::from(a))); emit(sink, Token::Int(Int::try_from(-1 - a as i128).unwrap()));
        emit(sink, Token::Array(a)); emit(sink, Token::Map(a)); emit(sink, Token::Tag(Tag::new(a)));
        emit(sink, Token::F32(f32::from_bits(a as u32))); emit(sink, Token::F64(f64::from_bits(a)));
        emit(sink, Token::F16(half::f16::from_bits(a as u16).to_f32()));
    }
    for s in 0..=255u8 { emit(sink, Token::Simple(s)) }
    for b in &blobs { emit(sink, Token::Bytes(b)) }
    for t in &texts { emit(sink, Token::String(t)) }
    for t in [Token::Bool(true), Token::Bool(false), Token::Null, Token::Undefined, Token::Break, Token::BeginBytes, Token::BeginString, Token::BeginArray, Token::BeginMap] { emit(sink, t) }
}

/// decode::info::Size::head / Size::tail on every first byte and every head.
#[cfg(feature = "std")]
fn gen_sizes(sink: &mut Sink) {
    use minicbor::decode::info::Size;
    for b in 0..=255u8 {
        let obs = match Size::head(b) { Ok(n) => json!({"p":"ok","v":{"k":"nat","n":n},"pos":0}), Err(e) => json!({"p":"err","cls":crate::abs::err_class(&e),"pos":0}) };
        sink.put(json!({"fam":"size","name":"head","in":{"fst":b},"obs":obs}));
        for extra in [vec![], vec![0u8], vec![1, 2], vec![0, 0, 1, 0], vec![255; 8], vec![0, 0, 0, 0, 0, 0, 1, 0]] {
            let mut h = vec![b]; h.extend_from_slice(&extra);
            let obs = crate::ops::guarded(|| match Size::tail(&h) {
                Ok(Size::Head) => json!({"p":"ok","v":{"k":"size","kind":"head","n":crate::abs::u64b(0)},"pos":0}),
                Ok(Size::Indef) => json!({"p":"ok","v":{"k":"size","kind":"indef","n":crate::abs::u64b(0)},"pos":0}),
                Ok(Size::Bytes(n)) => json!({"p":"ok","v":{"k":"size","kind":"bytes","n":crate::abs::u64b(n)},"pos":0}),
                Ok(Size::Items(n)) => json!({"p":"ok","v":{"k":"size","kind":"items","n":crate::abs::u64b(n)},"pos":0}),
                Err(e) => json!({"p":"err","cls":crate::abs::err_class(&e),"pos":0}) });
            sink.put(json!({"fam":"size","name":"tail","in":{"head":crate::abs::bytes(&h)},"obs":obs}));
        }
    }
    let obs = crate::ops::guarded(|| match Size::tail(&[]) { Ok(_) => json!({"p":"ok","pos":0,"v":{"k":"?"}}), Err(e) => json!({"p":"err","cls":crate::abs::err_class(&e),"pos":0}) });
    sink.put(json!({"fam":"size","name":"tail","in":{"head":[]},"obs":obs}));
}

/// C11: tokenise + re-encode generated item sequences (preferred and not), mutated and random bytes; encode + tokenise
/// random token sequences.
#[cfg(all(feature = "alloc", feature = "half"))]
fn gen_c11(sink: &mut Sink, tier: &str, seed: u64) {
    use crate::cbgen::*;
    let mut rng = StdRng::seed_from_u64(seed ^ 0xc11);
    let n = if tier == "thorough" { 40000 } else { 4000 };
    for i in 0..n {
        let o = Opts { max_depth: 6, max_nodes: if i % 10 == 0 { 150 } else { 20 }, nonminimal: i % 2 == 0, bad_utf8: i % 11 == 0, ..Opts::default() };
        let mut b = gen_item(&mut rng, &o);
        for _ in 0..rng.gen_range(0..3) { b.extend_from_slice(&gen_item(&mut rng, &o)) }       // a sequence of items
        sink.distinct_inputs += 1;
        sink.call("tok", "bytes", &json!({"buf": crate::abs::bytes(&b)}));
        if i % 3 == 0 { let m = mutate(&mut rng, &b); sink.call("tok", "bytes", &json!({"buf": crate::abs::bytes(&m)})); }
        if i % 5 == 0 { let cut = rng.gen_range(0..b.len()); sink.call("tok", "bytes", &json!({"buf": crate::abs::bytes(&b[..cut])})); }
        if i % 7 == 0 { let r: Vec<u8> = (0..rng.gen_range(1..16)).map(|_| rng.gen()).collect(); sink.call("tok", "bytes", &json!({"buf": crate::abs::bytes(&r)})); }
    }
    // all half patterns as tokens (signalling NaNs are outside the identity; they are NaN in any case)
    for h in (0..=0xffffu32).step_by(if tier == "thorough" { 1 } else { 17 }) {
        let b = [0xf9, (h >> 8) as u8, h as u8];
        sink.call("tok", "bytes", &json!({"buf": crate::abs::bytes(&b)}));
    }
    for s in 0..=255u32 { sink.call("tok", "toks", &json!({"toks": [{"m":"simple","i":s}]})); }
    // random token sequences
    let texts = ["", "a", "h\u{e9}llo", "\u{1f600}"];
    for _ in 0..n {
        let k = rng.gen_range(1..6);
        let toks: Vec<Value> = (0..k).map(|_| match rng.gen_range(0..17) {
            0 | 1 => { let (neg, mag) = (rng.gen::<bool>(), rand_arg(&mut rng)); json!({"m":"int","neg":neg,"mag":crate::abs::u64b(mag)}) }
            2 => json!({"m":"bool","b":rng.gen::<bool>()}), 3 => json!({"m":"null"}), 4 => json!({"m":"undefined"}),
            5 => { let i: u8 = loop { let x: u8 = rng.gen(); if !(24..32).contains(&x) { break x } }; json!({"m":"simple","i":i}) }
            6 => { let h: u16 = loop { let x: u16 = rng.gen(); if !half::f16::from_bits(x).is_nan() { break x } };
                   json!({"m":"f16","bits":crate::abs::bytes(&half::f16::from_bits(h).to_f32().to_bits().to_be_bytes())}) }
            7 => { let x: u32 = loop { let x: u32 = rng.gen(); if !f32::from_bits(x).is_nan() { break x } }; json!({"m":"f32","bits":crate::abs::bytes(&x.to_be_bytes())}) }
            8 => json!({"m":"f64","bits":crate::abs::bytes(&rng.gen::<u64>().to_be_bytes())}),
            9 => { let l = rng.gen_range(0..30); let b: Vec<u8> = (0..l).map(|_| rng.gen()).collect(); json!({"m":"bytes","b":crate::abs::bytes(&b)}) }
            10 => json!({"m":"str","b":crate::abs::bytes(texts[rng.gen_range(0..4)].as_bytes())}),
            11 => json!({"m":"array","n":crate::abs::u64b(rand_arg(&mut rng))}), 12 => json!({"m":"map","n":crate::abs::u64b(rand_arg(&mut rng))}),
            13 => json!({"m":"tag","n":crate::abs::u64b(rand_arg(&mut rng))}), 14 => json!({"m":"end"}),
            15 => { let m = ["begin_bytes", "begin_str"][rng.gen_range(0..2)]; json!({"m": m}) } _ => { let m = ["begin_array", "begin_map"][rng.gen_range(0..2)]; json!({"m": m}) }
        }).collect();
        sink.distinct_inputs += 1;
        sink.call("tok", "toks", &json!({"toks": toks}));
    }
}

/// C12: encode -> decode of f32 / f64 bit patterns (exponent boundaries, subnormals, zeros, infinities, NaN payloads,
/// f32-representable doubles, seeded random), widening reads, narrowing writes.
#[cfg(all(feature = "alloc", feature = "half"))]
fn gen_c12(sink: &mut Sink, tier: &str, seed: u64) {
    let mut rng = StdRng::seed_from_u64(seed ^ 0xc12);
    let nrand = if tier == "thorough" { 200_000 } else { 12_000 };
    let mut f32s: Vec<u32> = vec![];
    for e in 0..=255u32 { for m in [0u32, 1, 2, 0x3fffff, 0x400000, 0x400001, 0x7ffffe, 0x7fffff, 0x1000, 0x0fff, 0x1001, 0x1fff, 0x2000] {
        for s in [0u32, 1] { f32s.push((s << 31) | (e << 23) | m) } } }
    for _ in 0..nrand { f32s.push(rng.gen()) }
    // around the half-precision rounding thresholds
    for h in (0..=0xffffu32).step_by(if tier == "thorough" { 1 } else { 97 }) {
        let x = half::f16::from_bits(h as u16).to_f32().to_bits();
        for d in [0i64, -1, 1, 0x0fff, 0x1000, 0x1001, -0x1000] { f32s.push((x as i64 + d) as u32) }
    }
    f32s.sort_unstable(); f32s.dedup();
    for x in &f32s {
        let bits = x.to_be_bytes();
        sink.distinct_inputs += 1;
        let i1 = json!({"bits": crate::abs::bytes(&bits)});
        for name in ["f32", "f16"] {
            let obs = run_op("encf", name, &i1);
            // read back what was written, through every accessor
            if let Some(b) = obs["v"]["b"].as_array() {
                let input = json!({"buf": b, "pos": 0});
                for acc in ["f16", "f32", "f64"] { sink.call("acc", acc, &input) }
            }
            sink.put(json!({"fam": "encf", "name": name, "in": i1, "obs": obs}));
        }
    }
    let mut f64s: Vec<u64> = vec![];
    for e in [0u64, 1, 2, 872, 873, 874, 896, 897, 1007, 1008, 1009, 1022, 1023, 1024, 1038, 1039, 1040, 1150, 1151, 1152, 2045, 2046, 2047] {
        for m in [0u64, 1, 1 << 28, 1 << 29, (1 << 29) - 1, (1 << 29) + 1, 1 << 51, (1 << 52) - 1, 0x000f_ffff_e000_0000] {
            for s in [0u64, 1] { f64s.push((s << 63) | (e << 52) | m) } } }
    for x in f32s.iter().step_by(7) { f64s.push((f32::from_bits(*x) as f64).to_bits()) }
    for _ in 0..nrand { f64s.push(rng.gen()) }
    f64s.sort_unstable(); f64s.dedup();
    for x in &f64s {
        let bits = x.to_be_bytes();
        sink.distinct_inputs += 1;
        let i1 = json!({"bits": crate::abs::bytes(&bits)});
        let obs = run_op("encf", "f64", &i1);
        if let Some(b) = obs["v"]["b"].as_array() {
            let input = json!({"buf": b, "pos": 0});
            for acc in ["f16", "f32", "f64"] { sink.call("acc", acc, &input) }
        }
        sink.put(json!({"fam": "encf", "name": "f64", "in": i1, "obs": obs}));
    }
}

/// C19: display of generated items (exact notation), of mutated / truncated ones and of heads with extreme
/// declared lengths (totality and the size bound).
#[cfg(all(feature = "alloc", feature = "half"))]
fn gen_c19(sink: &mut Sink, tier: &str, seed: u64) {
    use crate::cbgen::*;
    let mut rng = StdRng::seed_from_u64(seed ^ 0xc19);
    let n = if tier == "thorough" { 40000 } else { 5000 };
    // For every position that could start a float (f9 / fa / fb followed by enough bytes) the harness supplies
    // Rust's `{:e}` of that bit pattern; the specification looks renderings up by (width, bits).
    let put = |sink: &mut Sink, buf: &[u8], _fl: &[(u8, Vec<u8>)]| {
        let input = json!({"buf": crate::abs::bytes(buf)});
        let obs = run_op("display", "fmt", &input);
        let mut seen = std::collections::BTreeSet::new();
        let mut fls: Vec<Value> = vec![];
        for i in 0..buf.len() {
            let w = match buf[i] { 0xf9 => 2usize, 0xfa => 4, 0xfb => 8, _ => continue };
            if i + 1 + w > buf.len() { continue }
            let b = &buf[i + 1..i + 1 + w];
            if !seen.insert((w, b.to_vec())) { continue }
            fls.push(json!({"w": w, "bits": crate::abs::bytes(b), "text": crate::abs::bytes(crate::disp::float_text(w as u64, b).as_bytes())}));
        }
        sink.put(json!({"fam": "display", "name": "fmt", "in": input, "fl": fls, "obs": obs}));
    };
    // every head kind with extreme declared lengths, alone and followed by a little content
    for major in 2..=5u8 {
        for arg in [0u64, 1, 23, 24, 255, 256, 65535, 65536, 100000, u32::MAX as u64, u32::MAX as u64 + 1, u64::MAX / 2, u64::MAX - 1, u64::MAX] {
            for w in [0u8, 1, 2, 4, 8] {
                if min_width(arg) > w { continue }
                let mut b = Vec::new(); head(&mut b, major, arg, w);
                sink.distinct_inputs += 1;
                put(sink, &b, &[]);
                let mut c = b.clone(); c.extend_from_slice(&[0x01, 0x61, 0x61]); put(sink, &c, &[]);
                let mut d = vec![0x9f]; d.extend_from_slice(&b); put(sink, &d, &[]);
                let mut e = vec![0xc1]; e.extend_from_slice(&b); e.push(0x00); put(sink, &e, &[]);
            }
        }
    }
    for i in 0..n {
        let o = Opts { max_depth: 6, max_nodes: if i % 10 == 0 { 120 } else { 20 }, bad_utf8: i % 9 == 0, ..Opts::default() };
        let it = gen_item(&mut rng, &o);
        let fl = FLOATS.with(|f| f.borrow().clone());
        sink.distinct_inputs += 1;
        put(sink, &it, &fl);
        let cut = rng.gen_range(0..it.len());
        put(sink, &it[..cut], &[]);
        let m = mutate(&mut rng, &it);
        put(sink, &m, &[]);
        if i % 4 == 0 { let r: Vec<u8> = (0..rng.gen_range(1..12)).map(|_| rng.gen()).collect(); put(sink, &r, &[]); }
    }
}

/// C13: token sequences of generated items encoded into every sink kind at every capacity 0..=len+1.
#[cfg(all(feature = "std", feature = "half"))]
fn gen_c13(sink: &mut Sink, tier: &str, seed: u64) {
    use crate::cbgen::*;
    use minicbor::data::Token;
    let mut rng = StdRng::seed_from_u64(seed ^ 0xc13);
    let n = if tier == "thorough" { 8000 } else { 1500 };
    // hand-picked sequences whose last write is empty or which sit exactly on a width boundary
    let mut fixed: Vec<Vec<u8>> = vec![vec![0x82, 0x62, 0x61, 0x62, 0x60], vec![0x60], vec![0x40], vec![0x81, 0x40], vec![0x5f, 0x40, 0xff],
        vec![0x00], vec![0x17], vec![0x18, 0x18], vec![0x19, 0x01, 0x00], vec![0xf6], vec![0x80], vec![0xa0]];
    for i in 0..n {
        let bytes_in = if let Some(f) = fixed.pop() { f } else {
            let o = Opts { max_depth: 4, max_nodes: if i % 10 == 0 { 40 } else { 8 }, nonminimal: false, ..Opts::default() };
            gen_item(&mut rng, &o)
        };
        let toks: Vec<Token> = match minicbor::decode::Tokenizer::new(&bytes_in).collect::<Result<Vec<_>, _>>() { Ok(t) => t, Err(_) => continue };
        let mut reference = Vec::new();
        if minicbor::Encoder::new(&mut reference).tokens(toks.iter()).is_err() { continue }
        sink.distinct_inputs += 1;
        let len = reference.len();
        for kind in ["slice", "cslice", "carray", "cbox", "vec", "iow", "iowslice", "iowchunk"] {
            let caps: Vec<usize> = if kind == "vec" || kind == "iow" || kind == "iowchunk" { vec![0] }
                else if len <= 40 || tier == "thorough" { (0..=len + 1).collect() }
                else { vec![0, 1, len / 2, len - 1, len, len + 1] };
            for cap in caps {
                if kind == "carray" && !crate::sinks::CARRAY_CAPS.contains(&cap) { continue }
                if let Some(ev) = crate::sinks::encode_event(kind, cap, &toks, &reference) { sink.put(ev) }
            }
        }
    }
    // values whose own Encode impl writes in several steps: the iterator encoders under every kind of size hint (definite and
    // indefinite framing), collections, tuples, options - at every capacity
    macro_rules! val_events { ($v:expr) => {{
        let v = $v;
        if let Ok(reference) = minicbor::to_vec(&v) {
            sink.distinct_inputs += 1;
            let len = reference.len();
            for kind in ["slice", "cslice", "carray", "cbox", "iowslice", "vec"] {
                let caps: Vec<usize> = if kind == "vec" { vec![0] } else if len <= 48 { (0..=len + 1).collect() } else { vec![0, 1, len / 2, len - 2, len - 1, len, len + 1] };
                for cap in caps {
                    if kind == "carray" && !crate::sinks::CARRAY_CAPS.contains(&cap) { continue }
                    if let Some(ev) = crate::sinks::encode_value_event(kind, cap, &v, &reference) { sink.put(ev) }
                }
            }
        }
    }}; }
    // ... and every registered built-in instantiation (paths, addresses, times, atomics, collections, tuples of every arity, ...)
    crate::types::exercise_all(&mut rng, sink, if tier == "thorough" { 12 } else { 2 }, "sink");
    let nvals = if tier == "thorough" { 300 } else { 40 };
    for i in 0..nvals {
        let n = rng.gen_range(0..5usize);
        let xs: Vec<u64> = (0..n).map(|_| [1u64, 23, 24, 255, 256, 0x12345678, 0x1_0000_0000, u64::MAX][rng.gen_range(0..8)]).collect();
        let (low, up) = match i % 4 { 0 => (n, Some(n)), 1 => (0, None), 2 => (0, Some(n + 3)), _ => (n.saturating_sub(1), Some(n)) };
        val_events!(minicbor::encode::ArrayIter::new(crate::ops::Hinted::new(xs.clone(), n, low, up)));
        let pairs: Vec<u64> = xs.iter().flat_map(|x| [*x, x ^ 0xff]).collect();
        val_events!(minicbor::encode::MapIter::new(crate::ops::HintedPairs::new(crate::ops::Hinted::new(pairs, n, low, up))));
        use crate::types::Abs;
        val_events!(<Vec<u32>>::gen(&mut rng, 1));
        val_events!(<(u8, String)>::gen(&mut rng, 1));
        val_events!(<std::collections::BTreeMap<u8, String>>::gen(&mut rng, 1));
        val_events!(<Option<Vec<u16>>>::gen(&mut rng, 1));
        val_events!(<[i32; 3]>::gen(&mut rng, 1));
        val_events!(<Result<u8, String>>::gen(&mut rng, 1));
    }
}

/// C15: seeded random walks of the AsyncReader, one file per run.
#[cfg(feature = "io")]
fn gen_runs(fam: &str, tier: &str, seed: u64, dir: &str) -> Value {
    std::fs::create_dir_all(dir).unwrap();
    let nruns = if tier == "thorough" { 240 } else { 36 };
    let (mut events, mut samples) = (0u64, vec![]);
    for r in 0..nruns {
        // (every twelfth run: a few frames beyond 64 KiB, where buffers are regrown or released)
        let (nframes, maxp) = if r % 12 == 11 { (3, 70_000) } else { match r % 3 { 0 => (8, 6), 1 => (40, 40), _ => (if tier == "thorough" { 200 } else { 60 }, 300) } };
        let evs = match fam {
            "c15" => crate::aread::run_random(seed.wrapping_mul(1000003).wrapping_add(r as u64), nframes, maxp),
            "c14r" => crate::bio::run_read_random(seed.wrapping_mul(1000003).wrapping_add(r as u64), nframes, maxp),
            "c14w" => crate::bio::run_write_random(seed.wrapping_mul(1000003).wrapping_add(r as u64), nframes, maxp),
            "c16" => crate::awrite::run_random(seed.wrapping_mul(1000003).wrapping_add(r as u64), nframes, maxp),
            _ => vec![]
        };
        let mut w = BufWriter::new(std::fs::File::create(format!("{}/run-{:04}.ndjson", dir, r)).unwrap());
        for e in &evs { writeln!(w, "{}", e).unwrap(); }
        w.flush().unwrap();
        events += evs.len() as u64;
        if samples.len() < 2 { samples.push(json!(evs.iter().take(12).collect::<Vec<_>>())) }
    }
    json!({"events": events, "shards": nruns, "distinct_inputs": nruns, "samples": samples})
}

/// vh gen <family> <tier> <seed> <outdir>
pub fn cmd_gen(args: &[String]) -> i32 {
    let (fam, tier, seed, dir) = (&args[0], &args[1], args[2].parse::<u64>().unwrap_or(0), &args[3]);
    let cap = args.get(4).and_then(|s| s.parse::<usize>().ok()).unwrap_or(100_000);
    #[cfg(feature = "io")]
    if fam == "c15" || fam == "c16" || fam == "c14r" || fam == "c14w" { println!("{}", gen_runs(fam, tier, seed, dir)); return 0 }
    let mut sink = Sink::new(dir, cap);
    match fam.as_str() {
        "c05" => gen_c05(&mut sink, tier, seed),
        "c06" => gen_c06(&mut sink, tier, seed),
        #[cfg(feature = "std")]
        "c01" => { gen_typed(&mut sink, tier, seed, "rt"); gen_typed(&mut sink, tier, seed + 1, "alt") }
        #[cfg(all(feature = "std", feature = "half"))]
        "c07" => { gen_typed(&mut sink, tier, seed, "rt"); gen_toklen(&mut sink, tier, seed) }
        #[cfg(feature = "std")]
        "c04x" => gen_typed(&mut sink, tier, seed, "cross"),
        #[cfg(feature = "std")]
        "c01mut" => { gen_typed(&mut sink, tier, seed, "mut"); for e in crate::drops::events() { sink.put(e) } gen_sizes(&mut sink) }
        #[cfg(all(feature = "alloc", feature = "half"))]
        "c04" => gen_c04(&mut sink, tier, seed),
        #[cfg(all(feature = "alloc", feature = "half"))]
        "c11" => gen_c11(&mut sink, tier, seed),
        #[cfg(feature = "alloc")]
        "c03" => gen_c03(&mut sink, tier, seed),
        #[cfg(all(feature = "alloc", feature = "half"))]
        "c12" => gen_c12(&mut sink, tier, seed),
        #[cfg(all(feature = "alloc", feature = "half"))]
        "c19" => gen_c19(&mut sink, tier, seed),
        #[cfg(all(feature = "std", feature = "half"))]
        "c13" => gen_c13(&mut sink, tier, seed),
        #[cfg(feature = "full")]
        "c17" => {
            let n = if tier == "thorough" { 1200 } else { 40 };
            let mut rng = StdRng::seed_from_u64(seed ^ 0xc17);
            crate::sfam::exercise_all(&mut rng, &mut sink, n, "all");
        }
        #[cfg(feature = "full")]
        "c18" => {
            let n = if tier == "thorough" { 3000 } else { 50 };
            let mut rng = StdRng::seed_from_u64(seed ^ 0xc18);
            crate::sbridge::both_all(&mut rng, &mut sink, n);
            crate::sbridge::both_borrowed(&mut rng, &mut sink, n);
        }
        #[cfg(feature = "std")]
        "extra" => crate::extra::gen_extra(&mut sink, seed),
        _ => { eprintln!("unknown family {}", fam); return 2 }
    }
    println!("{}", sink.finish());
    0
}
