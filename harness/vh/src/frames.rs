//! Frame payloads for the I/O properties (C14-C16).  A frame is described by (n, good): payload length
//! and whether it decodes.  A good payload is the CBOR unsigned integer `f` (the 1-based frame index,
//! < 24, one byte) followed by n-1 filler bytes that depend on (f, i), so that a torn or foreign payload
//! is recognisable; `minicbor::decode` ignores bytes after the first item.  A bad payload starts with
//! 0xf6.  The decoded type `Fr` captures the whole buffer handed to the decoder.
use minicbor::decode::{Decode, Decoder, Error};
use serde_json::Value;

#[derive(Debug, Clone, Copy)]
pub struct FrameSpec { pub n: usize, pub good: bool, pub huge: bool }

pub fn frames_from_json(v: &Value) -> Vec<FrameSpec> {
    v.as_array().unwrap().iter().map(|f| FrameSpec { n: f["n"].as_u64().unwrap() as usize, good: f["good"].as_bool().unwrap(), huge: f["huge"].as_bool().unwrap_or(false) }).collect()
}

/// Smallest payload length a good frame with index f can have (its id must fit).
pub fn min_good_len(f: usize) -> usize { if f < 24 { 1 } else if f < 256 { 2 } else { 3 } }

pub fn payload(f: usize, spec: &FrameSpec) -> Vec<u8> {
    let mut p = Vec::with_capacity(spec.n);
    if spec.good {
        if f < 24 { p.push(f as u8) } else if f < 256 { p.push(0x18); p.push(f as u8) }
        else { p.push(0x19); p.extend_from_slice(&(f as u16).to_be_bytes()) }
        assert!(p.len() <= spec.n, "good frame too short for its id");
    } else if spec.n > 0 { p.push(0xf6) }
    for i in p.len()..spec.n { p.push(((f * 37 + i * 11) & 0xff) as u8) }
    p
}

pub fn stream_of(frames: &[FrameSpec]) -> Vec<u8> {
    let mut s = Vec::new();
    for (i, fr) in frames.iter().enumerate() {
        s.extend_from_slice(&(fr.n as u32).to_be_bytes());
        s.extend_from_slice(&payload(i + 1, fr));
    }
    s
}

#[derive(Debug)]
pub struct Fr { pub id: u64, pub all: Vec<u8> }

impl<'b, C> Decode<'b, C> for Fr {
    fn decode(d: &mut Decoder<'b>, _: &mut C) -> Result<Self, Error> {
        let id = d.u64()?;
        Ok(Fr { id, all: d.input().to_vec() })
    }
}
