//! The serde bridge (C17, C18): hand-written helper types that reach the Serializer / Deserializer methods the
//! derived family cannot (serialize_bytes, unknown-length seq/map, collect_str, deserialize_str / _bytes with a
//! borrowing visitor), and the drivers.  Values are projected with the same `Abs` as the native impls; nothing
//! here knows the wire format.
use crate::abs::bytes;
use crate::types::Abs;
use rand::{rngs::StdRng, Rng};
use serde::de::{self, Deserialize, Deserializer, MapAccess, SeqAccess, Visitor};
use serde::ser::{Serialize, SerializeMap, SerializeSeq, Serializer};
use serde_json::{json, Value};
use std::fmt;
use std::marker::PhantomData;

/// A byte buffer that goes through serialize_bytes / deserialize_byte_buf.
#[derive(Debug, Clone, PartialEq)]
pub struct SBytes(pub Vec<u8>);
impl Serialize for SBytes {
    fn serialize<S: Serializer>(&self, s: S) -> Result<S::Ok, S::Error> { s.serialize_bytes(&self.0) }
}
struct BytesV;
impl<'de> Visitor<'de> for BytesV {
    type Value = SBytes;
    fn expecting(&self, f: &mut fmt::Formatter) -> fmt::Result { f.write_str("bytes") }
    fn visit_bytes<E: de::Error>(self, v: &[u8]) -> Result<SBytes, E> { Ok(SBytes(v.to_vec())) }
    fn visit_byte_buf<E: de::Error>(self, v: Vec<u8>) -> Result<SBytes, E> { Ok(SBytes(v)) }
}
impl<'de> Deserialize<'de> for SBytes {
    fn deserialize<D: Deserializer<'de>>(d: D) -> Result<Self, D::Error> { d.deserialize_byte_buf(BytesV) }
}
impl Abs for SBytes {
    fn to_abs(&self) -> Value { json!({"k":"bytes","b":bytes(&self.0)}) }
    fn gen(rng: &mut StdRng, _: u32) -> Self {
        let n = match rng.gen_range(0..8) { 0 => 0, 1 => 23, 2 => 24, 3 => 256, _ => rng.gen_range(0..6) };
        SBytes((0..n).map(|_| rng.gen()).collect())
    }
}

/// A byte buffer read through deserialize_bytes (the borrowing entry point) with a visitor that copies.
#[derive(Debug, Clone, PartialEq)]
pub struct RefBytes(pub Vec<u8>);
impl Serialize for RefBytes {
    fn serialize<S: Serializer>(&self, s: S) -> Result<S::Ok, S::Error> { s.serialize_bytes(&self.0) }
}
struct RefBytesV;
impl<'de> Visitor<'de> for RefBytesV {
    type Value = RefBytes;
    fn expecting(&self, f: &mut fmt::Formatter) -> fmt::Result { f.write_str("bytes") }
    fn visit_borrowed_bytes<E: de::Error>(self, v: &'de [u8]) -> Result<RefBytes, E> { Ok(RefBytes(v.to_vec())) }
}
impl<'de> Deserialize<'de> for RefBytes {
    fn deserialize<D: Deserializer<'de>>(d: D) -> Result<Self, D::Error> { d.deserialize_bytes(RefBytesV) }
}
impl Abs for RefBytes {
    fn to_abs(&self) -> Value { json!({"k":"bytes","b":bytes(&self.0)}) }
    fn gen(rng: &mut StdRng, d: u32) -> Self { RefBytes(SBytes::gen(rng, d).0) }
}

// ---- types whose serde impls choose between a readable and a compact form by asking the format (is_human_readable): the bridge
// is a binary format on both sides, so they take the compact form - and serializer and deserializer must agree about that
macro_rules! net_wrapper {
    ($name:ident, $inner:ty, $abs:expr) => {
        #[derive(Debug, Clone, PartialEq, serde::Serialize, serde::Deserialize)]
        pub struct $name(pub $inner);
        impl Abs for $name {
            fn to_abs(&self) -> Value { let f: fn(&$inner) -> Value = $abs; f(&self.0) }
            fn gen(rng: &mut StdRng, d: u32) -> Self { $name(<$inner as Abs>::gen(rng, d)) }
        }
    };
}
fn octets(b: &[u8]) -> Value { json!({"k":"seq","xs": b.iter().map(|x| x.to_abs()).collect::<Vec<_>>()}) }
fn sock4(a: &std::net::SocketAddrV4) -> Value { json!({"k":"seq","xs":[octets(&a.ip().octets()), a.port().to_abs()]}) }
fn sock6(a: &std::net::SocketAddrV6) -> Value { json!({"k":"seq","xs":[octets(&a.ip().octets()), a.port().to_abs()]}) }
net_wrapper!(SIpv4, std::net::Ipv4Addr, |a| octets(&a.octets()));
net_wrapper!(SIpv6, std::net::Ipv6Addr, |a| octets(&a.octets()));
net_wrapper!(SIpAddr, std::net::IpAddr, |a| match a { std::net::IpAddr::V4(x) => json!({"k":"var","i":0,"x":octets(&x.octets())}), std::net::IpAddr::V6(x) => json!({"k":"var","i":1,"x":octets(&x.octets())}) });
net_wrapper!(SSockV4, std::net::SocketAddrV4, sock4);
net_wrapper!(SSockAddr, std::net::SocketAddr, |a| match a { std::net::SocketAddr::V4(x) => json!({"k":"var","i":0,"x":sock4(x)}), std::net::SocketAddr::V6(x) => json!({"k":"var","i":1,"x":sock6(x)}) });
/// A hand-written type that records what the format says about itself on each side.
#[derive(Debug, Clone, PartialEq)]
pub struct Readable(pub bool);
impl Serialize for Readable {
    fn serialize<S: Serializer>(&self, s: S) -> Result<S::Ok, S::Error> { let h = s.is_human_readable(); s.serialize_bool(h) }
}
impl<'de> Deserialize<'de> for Readable {
    fn deserialize<D: Deserializer<'de>>(d: D) -> Result<Self, D::Error> { let h = d.is_human_readable(); let w = bool::deserialize(d)?; if w == h { Ok(Readable(h)) } else { Err(de::Error::custom("serializer and deserializer disagree about is_human_readable")) } }
}
impl Abs for Readable {
    fn to_abs(&self) -> Value { json!({"k":"bool","b":false}) }       // a binary format: never human readable
    fn gen(_: &mut StdRng, _: u32) -> Self { Readable(false) }
}

/// A string written through collect_str (Display) and read through deserialize_str with a visitor that accepts borrowed and transient strings.
#[derive(Debug, Clone, PartialEq)]
pub struct DispStr(pub String);
struct Shown<'a>(&'a str);
impl fmt::Display for Shown<'_> { fn fmt(&self, f: &mut fmt::Formatter) -> fmt::Result { f.write_str(self.0) } }
impl Serialize for DispStr {
    fn serialize<S: Serializer>(&self, s: S) -> Result<S::Ok, S::Error> { s.collect_str(&Shown(&self.0)) }
}
struct StrV;
impl<'de> Visitor<'de> for StrV {
    type Value = DispStr;
    fn expecting(&self, f: &mut fmt::Formatter) -> fmt::Result { f.write_str("a string") }
    fn visit_str<E: de::Error>(self, v: &str) -> Result<DispStr, E> { Ok(DispStr(v.to_string())) }
}
impl<'de> Deserialize<'de> for DispStr {
    fn deserialize<D: Deserializer<'de>>(d: D) -> Result<Self, D::Error> { d.deserialize_str(StrV) }
}
impl Abs for DispStr {
    fn to_abs(&self) -> Value { json!({"k":"text","b":bytes(self.0.as_bytes())}) }
    fn gen(rng: &mut StdRng, d: u32) -> Self { DispStr(String::gen(rng, d)) }
}

/// A sequence whose length the serializer is not told (serialize_seq(None)): indefinite-length array on the wire.
#[derive(Debug, Clone, PartialEq)]
pub struct USeq<T>(pub Vec<T>);
impl<T: Serialize> Serialize for USeq<T> {
    fn serialize<S: Serializer>(&self, s: S) -> Result<S::Ok, S::Error> {
        let mut q = s.serialize_seq(None)?;
        for x in &self.0 { q.serialize_element(x)? }
        q.end()
    }
}
struct SeqV<T>(PhantomData<T>);
impl<'de, T: Deserialize<'de>> Visitor<'de> for SeqV<T> {
    type Value = USeq<T>;
    fn expecting(&self, f: &mut fmt::Formatter) -> fmt::Result { f.write_str("a sequence") }
    fn visit_seq<A: SeqAccess<'de>>(self, mut a: A) -> Result<USeq<T>, A::Error> {
        let mut v = Vec::new();
        while let Some(x) = a.next_element()? { v.push(x) }
        Ok(USeq(v))
    }
}
impl<'de, T: Deserialize<'de>> Deserialize<'de> for USeq<T> {
    fn deserialize<D: Deserializer<'de>>(d: D) -> Result<Self, D::Error> { d.deserialize_seq(SeqV(PhantomData)) }
}
impl<T: Abs> Abs for USeq<T> {
    fn to_abs(&self) -> Value { self.0.to_abs() }
    fn gen(rng: &mut StdRng, d: u32) -> Self { USeq(Vec::gen(rng, d)) }
}

/// A map whose length the serializer is not told (serialize_map(None)), entries in the given order; read back with
/// next_key / next_value called separately.
#[derive(Debug, Clone, PartialEq)]
pub struct UMap<K, V>(pub Vec<(K, V)>);
impl<K: Serialize, V: Serialize> Serialize for UMap<K, V> {
    fn serialize<S: Serializer>(&self, s: S) -> Result<S::Ok, S::Error> {
        let mut m = s.serialize_map(None)?;
        for (k, v) in &self.0 { m.serialize_key(k)?; m.serialize_value(v)? }
        m.end()
    }
}
struct MapV<K, V>(PhantomData<(K, V)>);
impl<'de, K: Deserialize<'de>, V: Deserialize<'de>> Visitor<'de> for MapV<K, V> {
    type Value = UMap<K, V>;
    fn expecting(&self, f: &mut fmt::Formatter) -> fmt::Result { f.write_str("a map") }
    fn visit_map<A: MapAccess<'de>>(self, mut a: A) -> Result<UMap<K, V>, A::Error> {
        let mut v = Vec::new();
        while let Some(k) = a.next_key()? { let x = a.next_value()?; v.push((k, x)) }
        Ok(UMap(v))
    }
}
impl<'de, K: Deserialize<'de>, V: Deserialize<'de>> Deserialize<'de> for UMap<K, V> {
    fn deserialize<D: Deserializer<'de>>(d: D) -> Result<Self, D::Error> { d.deserialize_map(MapV(PhantomData)) }
}
impl<K: Abs, V: Abs> Abs for UMap<K, V> {
    fn to_abs(&self) -> Value { json!({"k":"map","xs": self.0.iter().map(|(k, v)| json!([k.to_abs(), v.to_abs()])).collect::<Vec<_>>()}) }
    fn gen(rng: &mut StdRng, d: u32) -> Self { let n = if d > 2 { rng.gen_range(0..2) } else { rng.gen_range(0..4) }; UMap((0..n).map(|_| (K::gen(rng, d + 1), V::gen(rng, d + 1))).collect()) }
}

/// A map with a known length written entry-wise (serialize_entry) - BTreeMap does this already; kept for symmetry of the report.
pub trait SFull: Abs + Serialize + for<'de> Deserialize<'de> {}
impl<T: Abs + Serialize + for<'de> Deserialize<'de>> SFull for T {}

use crate::c20::VecSink;

#[cfg(feature = "alloc")]
fn ser<T: Serialize>(v: &T) -> Result<Vec<u8>, String> {
    minicbor_serde::to_vec(v).map_err(|e| e.to_string())
}
#[cfg(not(feature = "alloc"))]
fn ser<T: Serialize>(v: &T) -> Result<Vec<u8>, String> { ser_sink(v) }
/// Serialise through Serializer::new over the harness' own sink (the same call in every configuration).
pub fn ser_sink<T: Serialize>(v: &T) -> Result<Vec<u8>, String> {
    let mut s = minicbor_serde::Serializer::new(VecSink(Vec::new()));
    match v.serialize(&mut s) { Ok(()) => Ok(s.into_encoder().into_writer().0), Err(e) => Err(e.to_string()) }
}

/// Deserialise `b` as T through the bridge: value, the decoder's position afterwards, and the re-serialisation of the value.
pub fn sdecode_report<T: SFull>(b: &[u8]) -> Value {
    crate::alloc::set_case("serde-decode", core::any::type_name::<T>(), b);
    crate::alloc::reset();
    let mut de = minicbor_serde::Deserializer::new(b);
    let r = T::deserialize(&mut de);
    let alloc = crate::alloc::total();
    let pos = de.decoder().position();
    match r {
        Ok(v) => {
            let re = ser(&v);
            json!({"p":"run","dec_ok":true,"dec":v.to_abs(),"pos":pos,"reenc_ok":re.is_ok(),"reenc":bytes(&re.unwrap_or_default()),"alloc":alloc})
        }
        Err(e) => json!({"p":"run","dec_ok":false,"cls":serr_class(&e),"pos":pos,"alloc":alloc})
    }
}

/// The bridge's DecodeError hides the minicbor error; its Display text names the class.
pub fn serr_class(e: &minicbor_serde::error::DecodeError) -> &'static str {
    let s = e.to_string();
    if s.starts_with("end of input bytes") { "eoi" } else if s.starts_with("unexpected type") { "type" }
    else if s.starts_with("invalid char") || s.starts_with("invalid utf-8") || s.contains("overflows target type") { "other" }
    else if s.starts_with("unexpected tag") { "tag" } else { "msg" }
}

/// Events for one random value of T: "rt" (serialise, deserialise back), "alt" (a re-framed encoding of the same item), "mut" (totality).
pub fn exercise<T: SFull>(name: &str, rng: &mut StdRng, sink: &mut crate::gen::Sink, n: usize, want: &str) {
    for i in 0..n {
        crate::types::set_many(i + 1 == n && want != "mut");
        let v = T::gen(rng, 0);
        crate::types::set_many(false);
        let val = v.to_abs();
        let enc = match crate::ops::guarded_res(|| ser(&v)) {
            Ok(b) => b,
            Err(why) => { sink.put(json!({"fam":"serde","name":"rt","ty":name,"val":val,"ser_ok":false,"why":why,"bytes":[],"obs":{"p":"none"}})); continue }
        };
        sink.distinct_inputs += 1;
        if want == "rt" || want == "all" {
            let dec = crate::ops::guarded(|| sdecode_report::<T>(&enc));
            sink.put(json!({"fam":"serde","name":"rt","ty":name,"val":val,"ser_ok":true,"bytes":bytes(&enc),"obs":dec}));
        }
        if want == "alt" || want == "all" {
            let alt = crate::cbgen::reframe(rng, &enc);
            if alt != enc {
                let dec = crate::ops::guarded(|| sdecode_report::<T>(&alt));
                sink.put(json!({"fam":"serde","name":"alt","ty":name,"val":val,"bytes":bytes(&enc),"alt":bytes(&alt),"obs":dec}));
            }
        }
        if want == "mut" || want == "all" {
            for (i, m) in crate::cbgen::typed_mutations(rng, &enc).into_iter().enumerate() {
                let dec = crate::ops::guarded(|| sdecode_report::<T>(&m));
                sink.monitored += 1;
                let bad = dec["p"] != "run" || dec["pos"].as_u64().map(|p| p as usize > m.len()).unwrap_or(true)
                    || dec["alloc"].as_u64().map(|a| a as usize > 256 * m.len() + 16384).unwrap_or(true);
                if bad || i < 6 || i % 53 == 0 { sink.put(json!({"fam":"serde","name":"mut","ty":name,"buf":bytes(&m),"obs":dec})); }
            }
        }
    }
}

/// Comparison for replayed cases: the specification's bytes must deserialise to the specification's value, consuming them exactly,
/// and (for the reference encoding) the value must serialise back to the same bytes.
pub fn matches(obs: &Value, exp: &Value) -> bool {
    if obs["p"] == "run" && obs["dec_ok"] == false && exp["must"] == false { return true }      // an input the shape may refuse
    obs["p"] == "run" && obs["dec_ok"] == true && obs["dec"] == exp["dec"] && obs["pos"] == exp["pos"]
        && obs["reenc_ok"] == true && (exp["reenc"].is_null() || obs["reenc"] == exp["reenc"])
}

#[cfg(feature = "full")]
mod both {
use super::*;
// ---- C18: the types both codecs know ------------------------------------------------------------------------------
pub trait Both: crate::types::Full + Serialize + for<'de> Deserialize<'de> {}
impl<T: crate::types::Full + Serialize + for<'de> Deserialize<'de>> Both for T {}

pub fn both_report<T: Both>(name: &str, rng: &mut StdRng, sink: &mut crate::gen::Sink, n: usize) {
    for i in 0..n {
        crate::types::set_many(i + 1 == n);
        let v = T::gen(rng, 0);
        crate::types::set_many(false);
        let val = v.to_abs();
        let nb = match minicbor::to_vec(&v) { Ok(b) => b, Err(_) => continue };
        let sb = ser(&v).unwrap_or_default();
        sink.distinct_inputs += 1;
        let n_of_s = crate::ops::guarded(|| crate::types::decode_report::<T>(&sb));
        let s_of_n = crate::ops::guarded(|| sdecode_report::<T>(&nb));
        let alt = crate::cbgen::reframe(rng, &nb);
        let n_alt = crate::ops::guarded(|| crate::types::decode_report::<T>(&alt));
        let s_alt = crate::ops::guarded(|| sdecode_report::<T>(&alt));
        sink.put(json!({"fam":"both","name":"x","ty":name,"val":val,"nb":bytes(&nb),"sb":bytes(&sb),"n_of_s":n_of_s,"s_of_n":s_of_n,
                        "alt":bytes(&alt),"n_alt":n_alt,"s_alt":s_alt}));
    }
}

/// Replay of a specification case: the reference bytes (or a re-framing) through both decoders.
pub fn both_decode<T: Both>(b: &[u8]) -> Value {
    let n = crate::types::decode_report::<T>(b);
    let s = sdecode_report::<T>(b);
    json!({"p":"run","native":n,"serde":s})
}

// ---- the shared types that borrow text from the input (&str and what contains it): the owned counterparts above say nothing about
// the borrowing entry points of either codec.  The event has the shape of `both_report`'s; the type name is the owned counterpart's.
pub trait ToAbs { fn ta(&self) -> Value; }
impl ToAbs for &str { fn ta(&self) -> Value { json!({"k":"text","b":bytes(self.as_bytes())}) } }
impl ToAbs for u8 { fn ta(&self) -> Value { crate::types::Abs::to_abs(self) } }
impl<T: ToAbs> ToAbs for Option<T> { fn ta(&self) -> Value { match self { None => json!({"k":"none"}), Some(x) => json!({"k":"some","x":x.ta()}) } } }
impl<A: ToAbs, B: ToAbs> ToAbs for (A, B) { fn ta(&self) -> Value { json!({"k":"seq","xs":[self.0.ta(), self.1.ta()]}) } }
impl<T: ToAbs> ToAbs for Vec<T> { fn ta(&self) -> Value { json!({"k":"seq","xs":self.iter().map(|x| x.ta()).collect::<Vec<_>>()}) } }

fn n_report<'b, T: minicbor::Decode<'b, ()> + ToAbs>(b: &'b [u8]) -> Value {
    let mut d = minicbor::Decoder::new(b);
    match d.decode::<T>() {
        Ok(v) => json!({"p":"run","dec_ok":true,"dec":v.ta(),"pos":d.position()}),
        Err(e) => json!({"p":"run","dec_ok":false,"cls":crate::abs::err_class(&e),"pos":d.position()})
    }
}
fn s_report<'b, T: Deserialize<'b> + ToAbs>(b: &'b [u8]) -> Value {
    let mut de = minicbor_serde::Deserializer::new(b);
    let r = T::deserialize(&mut de);
    let pos = de.decoder().position();
    match r {
        Ok(v) => json!({"p":"run","dec_ok":true,"dec":v.ta(),"pos":pos}),
        Err(e) => json!({"p":"run","dec_ok":false,"cls":serr_class(&e),"pos":pos})
    }
}
macro_rules! borrowed_shape {
    ($ty:literal, $t:ty, $v:expr, $rng:expr, $sink:expr) => {{
        let v: $t = $v;
        let val = v.ta();
        if let Ok(nb) = minicbor::to_vec(&v) {
            let sb = ser(&v).unwrap_or_default();
            $sink.distinct_inputs += 1;
            let n_of_s = crate::ops::guarded(|| n_report::<$t>(&sb));
            let s_of_n = crate::ops::guarded(|| s_report::<$t>(&nb));
            let alt = crate::cbgen::reframe($rng, &nb);
            let n_alt = crate::ops::guarded(|| n_report::<$t>(&alt));
            let s_alt = crate::ops::guarded(|| s_report::<$t>(&alt));
            $sink.put(json!({"fam":"both","name":"x","ty":$ty,"borrowed":true,"val":val,"nb":bytes(&nb),"sb":bytes(&sb),"n_of_s":n_of_s,"s_of_n":s_of_n,
                             "alt":bytes(&alt),"n_alt":n_alt,"s_alt":s_alt}));
        }
    }};
}
pub fn both_borrowed(rng: &mut StdRng, sink: &mut crate::gen::Sink, n: usize) {
    use crate::types::Abs;
    for _ in 0..n {
        let s = String::gen(rng, 0);
        borrowed_shape!("string", &str, s.as_str(), rng, sink);
        let o = Option::<String>::gen(rng, 0);
        borrowed_shape!("optstring", Option<&str>, o.as_deref(), rng, sink);
        let t = <(u8, String)>::gen(rng, 0);
        borrowed_shape!("tup2", (u8, &str), (t.0, t.1.as_str()), rng, sink);
        let v = Vec::<String>::gen(rng, 0);
        borrowed_shape!("vecstring", Vec<&str>, v.iter().map(|x| x.as_str()).collect(), rng, sink);
    }
}

macro_rules! shared {
    ($($key:literal => $t:ty),* $(,)?) => {
        pub fn both_named(name: &str, b: &[u8]) -> Option<Value> {
            match name { $( $key => Some(both_decode::<$t>(b)), )* _ => None }
        }
        pub fn both_all(rng: &mut StdRng, sink: &mut crate::gen::Sink, n: usize) {
            $( both_report::<$t>($key, rng, sink, n); )*
        }
    };
}
use core::sync::atomic::*;
use std::collections::*;
// the names are those of spec/Builtin.tla!TypeTable; the list is spec/Serde.tla!SharedNames
shared!(
    "u8" => u8, "u16" => u16, "u32" => u32, "u64" => u64, "usize" => usize, "i8" => i8, "i16" => i16, "i32" => i32, "i64" => i64, "isize" => isize,
    "bool" => bool, "char" => char, "f32" => f32, "f64" => f64,
    "string" => String, "boxstr" => Box<str>, "cowstr" => std::borrow::Cow<'static, str>, "unit" => (), "phantom" => core::marker::PhantomData<u8>,
    "nzu8" => core::num::NonZeroU8, "nzu16" => core::num::NonZeroU16, "nzu32" => core::num::NonZeroU32, "nzu64" => core::num::NonZeroU64, "nzusize" => core::num::NonZeroUsize,
    "nzi8" => core::num::NonZeroI8, "nzi16" => core::num::NonZeroI16, "nzi32" => core::num::NonZeroI32, "nzi64" => core::num::NonZeroI64, "nzisize" => core::num::NonZeroIsize,
    "wrapu16" => core::num::Wrapping<u16>, "cellu32" => core::cell::Cell<u32>, "refcellstring" => core::cell::RefCell<String>, "boxu64" => Box<u64>,
    "abool" => AtomicBool, "au8" => AtomicU8, "au16" => AtomicU16, "au32" => AtomicU32, "au64" => AtomicU64, "ausize" => AtomicUsize,
    "ai8" => AtomicI8, "ai16" => AtomicI16, "ai32" => AtomicI32, "ai64" => AtomicI64, "aisize" => AtomicIsize,
    "optu8" => Option<u8>, "optstring" => Option<String>, "optvecu16" => Option<Vec<u16>>,
    "tup1" => (u8,), "tup2" => (u8, String), "tup3" => (i16, bool, Option<u8>), "tup4" => (u64, String, f32, ()),
    "tup16" => (u8, u8, u8, u8, u8, u8, u8, u8, u8, u8, u8, u8, u8, u8, u8, u8),
    "arr0u8" => [u8; 0], "arr1string" => [String; 1], "arr3i32" => [i32; 3], "arr23u16" => [u16; 23], "arr24bool" => [bool; 24], "arr25i8" => [i8; 25], "arr16u8" => [u8; 16], "arr32u8" => [u8; 32],
    "vecu8" => Vec<u8>, "vecstring" => Vec<String>, "vecvecu16" => Vec<Vec<u16>>, "vecoptbool" => Vec<Option<bool>>, "vecdequei32" => VecDeque<i32>, "linkedlistu64" => LinkedList<u64>,
    "btreesetu16" => BTreeSet<u16>, "binaryheapu8" => BinaryHeap<u8>, "hashsetstring" => HashSet<String>, "hashseti32" => HashSet<i32>,
    "btreemapu8string" => BTreeMap<u8, String>, "btreemapstringvecu8" => BTreeMap<String, Vec<u8>>, "hashmapu16bool" => HashMap<u16, bool>, "hashmapstringi64" => HashMap<String, i64>,
    "vectup" => Vec<(u8, Option<String>)>, "maptuple" => BTreeMap<u8, (i8, f64)>,
);

}
#[cfg(feature = "full")]
pub use both::*;

/// Replayed C18 case: both decoders give the specification's value at the specification's position (`must`), or - for
/// re-framings a side may refuse - that value or an error.
pub fn both_matches(obs: &Value, exp: &Value) -> bool {
    let side = |o: &Value| -> bool {
        if o["p"] != "run" { return false }
        if o["dec_ok"] == true { o["dec"] == exp["dec"] && o["pos"] == exp["pos"] } else { exp["must"] != true }
    };
    obs["p"] == "run" && side(&obs["native"]) && side(&obs["serde"])
}
