//! run_op: execute one operation of the real implementation and project what happened.
//! The same function serves both directions (replay of specification cases, and recording
//! of traces for validation).
use crate::abs::*;
use minicbor::data::{Int, Type};
use minicbor::decode::{Decoder, Error};
use serde_json::{json, Value};
use std::panic::{catch_unwind, AssertUnwindSafe};

pub fn guarded<F: FnOnce() -> Value>(f: F) -> Value {
    match catch_unwind(AssertUnwindSafe(f)) {
        Ok(v) => v,
        Err(e) => {
            let msg = if let Some(s) = e.downcast_ref::<&str>() { s.to_string() }
                      else if let Some(s) = e.downcast_ref::<String>() { s.clone() } else { "?".into() };
            json!({"p":"panic","msg":msg})
        }
    }
}

/// Like `guarded` for a fallible step: a panic becomes an `Err` naming it.
pub fn guarded_res<T, F: FnOnce() -> Result<T, String>>(f: F) -> Result<T, String> {
    match catch_unwind(AssertUnwindSafe(f)) {
        Ok(r) => r,
        Err(_) => Err("panic".into())
    }
}

fn res<T>(r: Result<T, Error>, d: &Decoder, f: impl FnOnce(T) -> Value) -> Value {
    match r {
        Ok(v) => ok(f(v), d.position()),
        Err(e) => { let mut o = err(err_class(&e), d.position()); o["epos"] = json!(e.position().map(|p| p as i64).unwrap_or(-1)); o }
    }
}

pub fn type_name(t: Type) -> String {
    match t {
        Type::Unknown(n) => format!("Unknown({})", n),
        t => format!("{:?}", t)
    }
}

/// An element type that consumes exactly one data item of any kind.
pub struct Skipped;
impl<'b, C> minicbor::Decode<'b, C> for Skipped {
    fn decode(d: &mut Decoder<'b>, _: &mut C) -> Result<Self, Error> { d.skip().map(|_| Skipped) }
}

/// Decoder accessor by name at (buf, pos).
pub fn acc(name: &str, buf: &[u8], pos: usize) -> Value {
    crate::alloc::set_case("acc", name, buf);
    let mut d = Decoder::new(buf);
    d.set_position(pos);
    acc_on(&mut d, name, buf)
}

/// The same accessor through `Decoder::probe()`: its outcome, and where the probing decoder stands afterwards.
pub fn probe(name: &str, buf: &[u8], pos: usize) -> Value {
    crate::alloc::set_case("probe", name, buf);
    let mut d = Decoder::new(buf);
    d.set_position(pos);
    let mut o = { let mut p = d.probe(); acc_on(&mut p, name, buf) };
    o["opos"] = json!(d.position());
    o
}

/// An element type that consumes one item of any kind and counts itself in the caller's context.
pub struct Counting;
impl<'b> minicbor::Decode<'b, u64> for Counting {
    fn decode(d: &mut Decoder<'b>, n: &mut u64) -> Result<Self, Error> { d.skip()?; *n += 1; Ok(Counting) }
}

fn acc_on<'b>(d: &mut Decoder<'b>, name: &str, buf: &'b [u8]) -> Value {
    let d = &mut *d;
    match name {
        "u8"  => { let r = d.u8();  res(r, &d, |v| vint(false, v as u64)) }
        "u16" => { let r = d.u16(); res(r, &d, |v| vint(false, v as u64)) }
        "u32" => { let r = d.u32(); res(r, &d, |v| vint(false, v as u64)) }
        "u64" => { let r = d.u64(); res(r, &d, |v| vint(false, v)) }
        "i8"  => { let r = d.i8();  res(r, &d, |v| vint_i128(v as i128)) }
        "i16" => { let r = d.i16(); res(r, &d, |v| vint_i128(v as i128)) }
        "i32" => { let r = d.i32(); res(r, &d, |v| vint_i128(v as i128)) }
        "i64" => { let r = d.i64(); res(r, &d, |v| vint_i128(v as i128)) }
        "int" => { let r = d.int(); res(r, &d, vint_of) }
        "char" => { let r = d.char(); res(r, &d, vchar) }
        "bool" => { let r = d.bool(); res(r, &d, vbool) }
        "null" => { let r = d.null(); res(r, &d, |_| vunit()) }
        "undefined" => { let r = d.undefined(); res(r, &d, |_| vunit()) }
        "simple" => { let r = d.simple(); res(r, &d, vsimple) }
        #[cfg(feature = "half")]
        "f16" => { let r = d.f16(); res(r, &d, vf32) }
        "f32" => { let r = d.f32(); res(r, &d, vf32) }
        "f64" => { let r = d.f64(); res(r, &d, vf64) }
        "bytes" => { let r = d.bytes(); res(r, &d, |s| vslice("bytes", buf, s)) }
        "str" => { let r = d.str(); res(r, &d, |s| vslice("str", buf, s.as_bytes())) }
        "bytes_iter" => {
            let r: Result<(Vec<u8>, bool), Error> = (|| { let mut cat = Vec::new(); let mut borrowed = true;
                for c in d.bytes_iter()? { let c = c?; borrowed &= vslice("x", buf, c)["off"] != -1; cat.extend_from_slice(c) } Ok((cat, borrowed)) })();
            res(r, &d, |(cat, b)| json!({"k":"bytescat","cat":bytes(&cat),"borrowed":b}))
        }
        "str_iter" => {
            let r: Result<(Vec<u8>, bool), Error> = (|| { let mut cat = Vec::new(); let mut borrowed = true;
                for c in d.str_iter()? { let c = c?; borrowed &= vslice("x", buf, c.as_bytes())["off"] != -1; cat.extend_from_slice(c.as_bytes()) } Ok((cat, borrowed)) })();
            res(r, &d, |(cat, b)| json!({"k":"strcat","cat":bytes(&cat),"borrowed":b}))
        }
        "array_iter" => {
            let r: Result<u64, Error> = (|| { let mut n = 0u64; for x in d.array_iter::<Skipped>()? { x?; n += 1 } Ok(n) })();
            res(r, &d, |n| json!({"k":"count","n":n}))
        }
        "map_iter" => {
            let r: Result<u64, Error> = (|| { let mut n = 0u64; for x in d.map_iter::<Skipped, Skipped>()? { x?; n += 1 } Ok(n) })();
            res(r, &d, |n| json!({"k":"count","n":n}))
        }
        // (the context counts decoded elements, keys and values each; the iterator's own yields are counted next to it)
        "array_iter_with" => {
            let mut ctx = 0u64;
            let r: Result<u64, Error> = (|| { let mut n = 0u64; for x in d.array_iter_with::<u64, Counting>(&mut ctx)? { x?; n += 1 } Ok(n) })();
            let c = ctx; res(r, &d, |n| if n == c { json!({"k":"count","n":n}) } else { json!({"k":"count","n":n,"ctx":c}) })
        }
        "map_iter_with" => {
            let mut ctx = 0u64;
            let r: Result<u64, Error> = (|| { let mut n = 0u64; for x in d.map_iter_with::<u64, Counting, Counting>(&mut ctx)? { x?; n += 1 } Ok(n) })();
            let c = ctx; res(r, &d, |n| if 2 * n == c { json!({"k":"count","n":n}) } else { json!({"k":"count","n":n,"ctx":c}) })
        }
        "array" => { let r = d.array(); res(r, &d, vlen) }
        "map" => { let r = d.map(); res(r, &d, vlen) }
        "tag" => { let r = d.tag(); res(r, &d, |t| vtag(t.as_u64())) }
        "datatype" => { let r = d.datatype(); res(r, &d, |t| vtype(&type_name(t))) }
        "skip" => { let r = d.skip(); res(r, &d, |_| vunit()) }
        "item" => { let r = full_item(d, 0); res(r, &d, |_| vunit()) }
        _ => json!({"p":"unsupported"})
    }
}

/// Full decoding of one data item through the public typed accessors only (dispatch on datatype()),
/// the way a user-written `Decode` impl for a dynamic value would do it.  It contributes an end
/// position to compare skip() with; it is not an oracle.
pub fn full_item(d: &mut Decoder, depth: usize) -> Result<(), Error> {
    match d.datatype()? {
        Type::Bool => { d.bool()?; }
        Type::Null => { d.null()?; }
        Type::Undefined => { d.undefined()?; }
        Type::U8 | Type::U16 | Type::U32 | Type::U64 => { d.u64()?; }
        Type::I8 | Type::I16 | Type::I32 | Type::I64 | Type::Int => { d.int()?; }
        #[cfg(feature = "half")]
        Type::F16 => { d.f16()?; }
        #[cfg(not(feature = "half"))]
        Type::F16 => { return Err(Error::message("f16 needs feature half")) }
        Type::F32 => { d.f32()?; }
        Type::F64 => { d.f64()?; }
        Type::Simple => { d.simple()?; }
        Type::Bytes | Type::BytesIndef => { for c in d.bytes_iter()? { c?; } }
        Type::String | Type::StringIndef => { for c in d.str_iter()? { c?; } }
        Type::Array | Type::ArrayIndef => match d.array()? {
            Some(n) => for _ in 0..n { full_item(d, depth + 1)? },
            None => { while d.datatype()? != Type::Break { full_item(d, depth + 1)? } d.set_position(d.position() + 1) }
        }
        Type::Map | Type::MapIndef => match d.map()? {
            Some(n) => for _ in 0..n { full_item(d, depth + 1)?; full_item(d, depth + 1)? },
            None => { while d.datatype()? != Type::Break { full_item(d, depth + 1)?; full_item(d, depth + 1)? } d.set_position(d.position() + 1) }
        }
        Type::Tag => { d.tag()?; full_item(d, depth + 1)? }
        Type::Break => return Err(Error::message("unexpected break")),
        Type::Unknown(_) => return Err(Error::message("unknown type"))
    }
    Ok(())
}

macro_rules! dec_int {
    ($t:ty, $buf:expr, $pos:expr) => {{
        let mut d = Decoder::new($buf);
        d.set_position($pos);
        let r: Result<$t, Error> = d.decode();
        res(r, &d, |v| vint_i128(v as i128))
    }};
}
macro_rules! dec_nz {
    ($t:ty, $buf:expr, $pos:expr) => {{
        let mut d = Decoder::new($buf);
        d.set_position($pos);
        let r: Result<$t, Error> = d.decode();
        res(r, &d, |v| vint_i128(v.get() as i128))
    }};
}
macro_rules! dec_atomic {
    ($t:ty, $buf:expr, $pos:expr) => {{
        let mut d = Decoder::new($buf);
        d.set_position($pos);
        let r: Result<$t, Error> = d.decode();
        res(r, &d, |v| vint_i128(v.into_inner() as i128))
    }};
}

/// `Decoder::decode::<T>()` for the integer-like types of C05.
pub fn dec_intlike(ty: &str, buf: &[u8], pos: usize) -> Value {
    use core::num::*;
    use core::sync::atomic::*;
    match ty {
        "u8" => dec_int!(u8, buf, pos), "u16" => dec_int!(u16, buf, pos), "u32" => dec_int!(u32, buf, pos),
        "u64" => dec_int!(u64, buf, pos), "usize" => dec_int!(usize, buf, pos),
        "i8" => dec_int!(i8, buf, pos), "i16" => dec_int!(i16, buf, pos), "i32" => dec_int!(i32, buf, pos),
        "i64" => dec_int!(i64, buf, pos), "isize" => dec_int!(isize, buf, pos),
        "nzu8" => dec_nz!(NonZeroU8, buf, pos), "nzu16" => dec_nz!(NonZeroU16, buf, pos),
        "nzu32" => dec_nz!(NonZeroU32, buf, pos), "nzu64" => dec_nz!(NonZeroU64, buf, pos),
        "nzusize" => dec_nz!(NonZeroUsize, buf, pos),
        "nzi8" => dec_nz!(NonZeroI8, buf, pos), "nzi16" => dec_nz!(NonZeroI16, buf, pos),
        "nzi32" => dec_nz!(NonZeroI32, buf, pos), "nzi64" => dec_nz!(NonZeroI64, buf, pos),
        "nzisize" => dec_nz!(NonZeroIsize, buf, pos),
        "au8" => dec_atomic!(AtomicU8, buf, pos), "au16" => dec_atomic!(AtomicU16, buf, pos),
        "au32" => dec_atomic!(AtomicU32, buf, pos), "au64" => dec_atomic!(AtomicU64, buf, pos),
        "ausize" => dec_atomic!(AtomicUsize, buf, pos),
        "ai8" => dec_atomic!(AtomicI8, buf, pos), "ai16" => dec_atomic!(AtomicI16, buf, pos),
        "ai32" => dec_atomic!(AtomicI32, buf, pos), "ai64" => dec_atomic!(AtomicI64, buf, pos),
        "aisize" => dec_atomic!(AtomicIsize, buf, pos),
        "wu8" => { let mut d = Decoder::new(buf); d.set_position(pos);
                   let r: Result<Wrapping<u8>, Error> = d.decode(); res(r, &d, |v| vint_i128(v.0 as i128)) }
        "wi64" => { let mut d = Decoder::new(buf); d.set_position(pos);
                   let r: Result<Wrapping<i64>, Error> = d.decode(); res(r, &d, |v| vint_i128(v.0 as i128)) }
        "int" => { let mut d = Decoder::new(buf); d.set_position(pos);
                   let r: Result<Int, Error> = d.decode(); res(r, &d, vint_of) }
        "char" => { let mut d = Decoder::new(buf); d.set_position(pos);
                   let r: Result<char, Error> = d.decode(); res(r, &d, vchar) }
        _ => json!({"p":"unsupported"})
    }
}

/// Int <-> primitive conversions.  The 128-bit side is (neg, 16-byte magnitude), value = mag or -1-mag.
fn i128_of(neg: bool, mag: u128) -> Option<i128> {
    if !neg { i128::try_from(mag).ok() } else { i128::try_from(mag).ok().map(|m| -1 - m) }
}
fn vwide(v: i128) -> Value {
    if v >= 0 { json!({"k":"wide","neg":false,"mag":bytes(&(v as u128).to_be_bytes())}) }
    else { json!({"k":"wide","neg":true,"mag":bytes(&((-1 - v) as u128).to_be_bytes())}) }
}
fn vwide_u(v: u128) -> Value { json!({"k":"wide","neg":false,"mag":bytes(&v.to_be_bytes())}) }

macro_rules! from_small {
    ($t:ty, $v:expr) => {
        match <$t>::try_from($v) { Ok(x) => Some(Int::from(x)), Err(_) => None }
    };
}

/// Int::from / Int::try_from of a primitive.  Input (neg, mag16) must first be a value of `ty`
/// (the harness only builds inputs that are); returns the resulting Int or an error.
pub fn int_from(ty: &str, neg: bool, mag: u128) -> Value {
    let r: Option<Result<Int, ()>> = (|| {
        if ty == "u128" {
            if neg { return None }
            return Some(Int::try_from(mag).map_err(|_| ()))
        }
        let v = i128_of(neg, mag)?;
        Some(match ty {
            "u8" => Ok(from_small!(u8, v)?), "u16" => Ok(from_small!(u16, v)?), "u32" => Ok(from_small!(u32, v)?),
            "u64" => Ok(from_small!(u64, v)?), "i8" => Ok(from_small!(i8, v)?), "i16" => Ok(from_small!(i16, v)?),
            "i32" => Ok(from_small!(i32, v)?), "i64" => Ok(from_small!(i64, v)?),
            "i128" => Int::try_from(v).map_err(|_| ()),
            _ => return None
        })
    })();
    match r {
        None => json!({"p":"na"}),
        Some(Ok(i)) => json!({"p":"ok","v":vint_of(i),"pos":0}),
        Some(Err(())) => json!({"p":"err","cls":"conv","pos":0})
    }
}

/// TryFrom<Int> for a primitive (From for i128).
pub fn int_into(ty: &str, neg: bool, mag: u64) -> Value {
    let i = if neg { Int::from(-1i8) } else { Int::from(0u8) };
    // build the Int through its public API: decode it from its CBOR head
    let mut enc = vec![if neg { 0x3b } else { 0x1b }];
    enc.extend_from_slice(&mag.to_be_bytes());
    let i = Decoder::new(&enc).int().unwrap_or(i);
    macro_rules! conv { ($t:ty) => { match <$t>::try_from(i) { Ok(x) => json!({"p":"ok","v":vwide(x as i128),"pos":0}), Err(_) => json!({"p":"err","cls":"conv","pos":0}) } } }
    match ty {
        "u8" => conv!(u8), "u16" => conv!(u16), "u32" => conv!(u32), "u64" => conv!(u64),
        "i8" => conv!(i8), "i16" => conv!(i16), "i32" => conv!(i32), "i64" => conv!(i64),
        "u128" => match u128::try_from(i) { Ok(x) => json!({"p":"ok","v":vwide_u(x),"pos":0}), Err(_) => json!({"p":"err","cls":"conv","pos":0}) },
        "i128" => json!({"p":"ok","v":vwide(i128::from(i)),"pos":0}),
        _ => json!({"p":"unsupported"})
    }
}

/// Encoder float methods on a Vec sink: the bytes written.
#[cfg(feature = "alloc")]
pub fn encf(name: &str, bits: &[u8]) -> Value {
    let mut e = minicbor::Encoder::new(Vec::new());
    let r = match name {
        #[cfg(feature = "half")]
        "f16" => e.f16(f32::from_bits(u32::from_be_bytes([bits[0], bits[1], bits[2], bits[3]]))).map(|_| ()),
        "f32" => e.f32(f32::from_bits(u32::from_be_bytes([bits[0], bits[1], bits[2], bits[3]]))).map(|_| ()),
        "f64" => { let mut a = [0u8; 8]; a.copy_from_slice(bits); e.f64(f64::from_bits(u64::from_be_bytes(a))).map(|_| ()) }
        _ => return json!({"p":"unsupported"})
    };
    match r {
        Ok(()) => { let b = e.into_writer(); json!({"p":"ok","v":{"k":"enc","b":bytes(&b)},"pos":b.len()}) }
        Err(_) => json!({"p":"err","cls":"enc","pos":0})
    }
}

/// One Encoder method call described by a record [m, ...args]; false if the call returned an error.
#[cfg(feature = "alloc")]
pub fn enc_call(e: &mut minicbor::Encoder<Vec<u8>>, c: &Value) -> bool {
    let m = c["m"].as_str().unwrap_or("");
    let int = || -> i128 { let mag = get_u64(&c["mag"]) as i128; if c["neg"].as_bool().unwrap_or(false) { -1 - mag } else { mag } };
    let r = match m {
        "u8" => e.u8(int() as u8).map(|_| ()), "u16" => e.u16(int() as u16).map(|_| ()), "u32" => e.u32(int() as u32).map(|_| ()),
        "u64" => e.u64(int() as u64).map(|_| ()), "i8" => e.i8(int() as i8).map(|_| ()), "i16" => e.i16(int() as i16).map(|_| ()),
        "i32" => e.i32(int() as i32).map(|_| ()), "i64" => e.i64(int() as i64).map(|_| ()),
        "int" => match Int::try_from(int()) { Ok(i) => e.int(i).map(|_| ()), Err(_) => return false },
        "bool" => e.bool(c["b"].as_bool().unwrap()).map(|_| ()),
        "null" => e.null().map(|_| ()), "undefined" => e.undefined().map(|_| ()),
        "simple" => e.simple(c["i"].as_u64().unwrap() as u8).map(|_| ()),
        "char" => match char::from_u32(c["i"].as_u64().unwrap() as u32) { Some(ch) => e.char(ch).map(|_| ()), None => return false },
        "tag" => e.tag(minicbor::data::Tag::new(get_u64(&c["n"]))).map(|_| ()),
        "array" => e.array(get_u64(&c["n"])).map(|_| ()), "map" => e.map(get_u64(&c["n"])).map(|_| ()),
        "bytes" => e.bytes(&get_bytes(&c["b"])).map(|_| ()),
        "str" => match String::from_utf8(get_bytes(&c["b"])) { Ok(st) => e.str(&st).map(|_| ()), Err(_) => return false },
        "begin_array" => e.begin_array().map(|_| ()), "begin_map" => e.begin_map().map(|_| ()),
        "begin_bytes" => e.begin_bytes().map(|_| ()), "begin_str" => e.begin_str().map(|_| ()), "end" => e.end().map(|_| ()),
        "f32" => { let b = get_bytes(&c["bits"]); e.f32(f32::from_bits(u32::from_be_bytes([b[0], b[1], b[2], b[3]]))).map(|_| ()) }
        "f64" => { let b = get_bytes(&c["bits"]); let mut a = [0u8; 8]; a.copy_from_slice(&b); e.f64(f64::from_bits(u64::from_be_bytes(a))).map(|_| ()) }
        _ => return false
    };
    r.is_ok()
}
#[cfg(feature = "alloc")]
pub fn enc_calls(calls: &[Value]) -> Value {
    let mut e = minicbor::Encoder::new(Vec::new());
    for c in calls { if !enc_call(&mut e, c) { return json!({"p":"err","cls":"enc","pos":e.writer().len()}) } }
    let b = e.into_writer();
    // determinism: the same calls again must give the same bytes
    let mut e2 = minicbor::Encoder::new(Vec::new());
    for c in calls { enc_call(&mut e2, c); }
    if e2.into_writer() != b { return json!({"p":"nondeterministic"}) }
    json!({"p":"ok","v":{"k":"enc","b":bytes(&b)},"pos":b.len()})
}

/// An iterator with a prescribed (well-behaved) size hint: low <= remaining <= up at every point.
#[derive(Clone)]
pub struct Hinted { items: Vec<u64>, pos: usize, slack_low: usize, slack_up: Option<usize> }
impl Hinted {
    /// `low`/`up` are the hint of the fresh iterator over `n` elements; the slack is kept as elements are consumed.
    pub fn new(items: Vec<u64>, n: usize, low: usize, up: Option<usize>) -> Self {
        Hinted { items, pos: 0, slack_low: n.saturating_sub(low), slack_up: up.map(|u| u.saturating_sub(n)) }
    }
}
impl Iterator for Hinted {
    type Item = u64;
    fn next(&mut self) -> Option<u64> { let x = self.items.get(self.pos).copied(); if x.is_some() { self.pos += 1 } x }
    fn size_hint(&self) -> (usize, Option<usize>) {
        let rem = self.items.len() - self.pos;
        (rem.saturating_sub(self.slack_low), self.slack_up.map(|s| rem + s))
    }
}
#[derive(Clone)]
pub struct HintedPairs(Hinted);
impl HintedPairs { pub fn new(h: Hinted) -> Self { HintedPairs(h) } }
impl Iterator for HintedPairs {
    type Item = (u64, u64);
    fn next(&mut self) -> Option<(u64, u64)> { let k = self.0.next()?; let v = self.0.next()?; Some((k, v)) }
    fn size_hint(&self) -> (usize, Option<usize>) {
        let rem = (self.0.items.len() - self.0.pos) / 2;
        (rem.saturating_sub(self.0.slack_low), self.0.slack_up.map(|s| rem + s))
    }
}
/// ArrayIter / MapIter over an iterator with the given size hint.
#[cfg(feature = "alloc")]
pub fn encit(input: &Value) -> Value {
    let xs: Vec<u64> = input["xs"].as_array().unwrap().iter().map(get_u64).collect();
    let low = input["low"].as_u64().unwrap() as usize;
    let up = input["up"].as_i64().and_then(|u| if u < 0 { None } else { Some(u as usize) });
    let r = if input["kind"] == "array" {
        let n = xs.len();
        minicbor::to_vec(minicbor::encode::ArrayIter::new(Hinted::new(xs, n, low, up)))
    } else {
        let n = xs.len() / 2;
        minicbor::to_vec(minicbor::encode::MapIter::new(HintedPairs(Hinted::new(xs, n, low, up))))
    };
    match r { Ok(b) => json!({"p":"ok","v":{"k":"enc","b":bytes(&b)},"pos":b.len()}), Err(_) => json!({"p":"err","cls":"enc","pos":0}) }
}

/// Dispatch: op name + input record -> observation.
pub fn run_op(fam: &str, name: &str, input: &Value) -> Value {
    guarded(|| {

        match fam {
            "acc" => acc(name, &get_bytes(&input["buf"]), input["pos"].as_u64().unwrap_or(0) as usize),
            "probe" => probe(name, &get_bytes(&input["buf"]), input["pos"].as_u64().unwrap_or(0) as usize),
            "dec" => dec_intlike(name, &get_bytes(&input["buf"]), input["pos"].as_u64().unwrap_or(0) as usize),
            #[cfg(feature = "alloc")]
            "enc" => enc_calls(std::slice::from_ref(input)),
            #[cfg(feature = "alloc")]
            "encseq" => enc_calls(input["calls"].as_array().unwrap()),
            #[cfg(feature = "alloc")]
            "encit" => encit(input),
            #[cfg(feature = "alloc")]
            "encf" => encf(name, &get_bytes(&input["bits"])),
            "int_from" => int_from(name, input["neg"].as_bool().unwrap(), get_u128(&input["mag"])),
            "int_into" => int_into(name, input["neg"].as_bool().unwrap(), get_u64(&input["mag"])),
            #[cfg(feature = "io")]
            "aread" => {
                let frames = crate::frames::frames_from_json(&input["frames"]);
                let sched: Vec<crate::aread::Step> = input["sched"].as_array().unwrap().iter().map(crate::aread::Step::from_json).collect();
                crate::aread::run_script(&frames, input["cut"].as_u64().unwrap() as usize, input["maxlen"].as_u64().unwrap() as u32, &sched)
            }
            #[cfg(all(feature = "alloc", feature = "half"))]
            "tok" => if name == "bytes" { crate::toks::op_bytes(&get_bytes(&input["buf"])) } else { crate::toks::op_toks(&input["toks"]) },
            #[cfg(all(feature = "alloc", feature = "half"))]
            "display" => crate::disp::fmt(&get_bytes(&input["buf"])),
            #[cfg(feature = "std")]
            "typed" => crate::types::decode_named(name, &get_bytes(&input["bytes"])).unwrap_or(json!({"p":"unsupported"})),
            #[cfg(feature = "full")]
            "serde" => crate::sfam::sdecode_named(name, &get_bytes(&input["bytes"])).unwrap_or(json!({"p":"unsupported"})),
            #[cfg(feature = "full")]
            "both" => crate::sbridge::both_named(name, &get_bytes(&input["bytes"])).unwrap_or(json!({"p":"unsupported"})),
            #[cfg(all(feature = "std", feature = "half"))]
            "sink" => crate::sinks::raw(name, input),
            #[cfg(feature = "io")]
            "bread" => {
                let frames = crate::frames::frames_from_json(&input["frames"]);
                crate::bio::run_read_script(&frames, input["cut"].as_u64().unwrap() as usize, input["maxlen"].as_u64().unwrap() as u32, &input["sched"])
            }
            #[cfg(feature = "io")]
            "bwrite" => crate::bio::run_write_script(&crate::bio::vals(&input["vals"]), input["maxlen"].as_u64().unwrap() as u32, &input["sched"]),
            #[cfg(feature = "io")]
            "awrite" => {
                let vals = crate::awrite::vals_from_json(&input["vals"]);
                let sched: Vec<crate::awrite::Step> = input["sched"].as_array().unwrap().iter().map(crate::awrite::Step::from_json).collect();
                crate::awrite::run_script(&vals, input["maxlen"].as_u64().unwrap() as u32, &sched)
            }
            _ => json!({"p":"unsupported"})
        }
    })
}
