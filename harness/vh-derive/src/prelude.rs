//! Hand-written part of the derive harness: the value conversions the generated code uses, the custom
//! nil-aware codec, and the two operations (encode a value, decode bytes) on a generated type.
use minicbor::{CborLen, Decode, Decoder, Encode};
use serde_json::{json, Value};

/// optional fields spelled through a type alias (the derive macros see only the alias)
pub type OptU8 = Option<u8>;
pub type OptString = Option<String>;

pub trait Dv: Sized {
    fn from_json(v: &Value) -> Self;
    fn to_json(&self) -> Value;
}

pub fn get_bytes(v: &Value) -> Vec<u8> { v.as_array().map(|a| a.iter().map(|x| x.as_u64().unwrap() as u8).collect()).unwrap_or_default() }
pub fn bytes(b: &[u8]) -> Value { Value::Array(b.iter().map(|x| Value::from(*x)).collect()) }
pub fn fv_u8(v: &Value) -> u8 { v["n"].as_u64().unwrap() as u8 }
pub fn fv_str(v: &Value) -> String { String::from_utf8(get_bytes(&v["b"])).unwrap() }
pub fn fv_bytes(v: &Value) -> Vec<u8> { get_bytes(&v["b"]) }
pub fn j_u8(n: u8) -> Value { json!({"some": true, "n": n, "b": [], "sub": []}) }
pub fn j_bytes(b: &[u8]) -> Value { json!({"some": true, "n": 0, "b": bytes(b), "sub": []}) }
pub fn j_sub(s: Value) -> Value { json!({"some": true, "n": 0, "b": [], "sub": s}) }
pub fn j_none() -> Value { json!({"some": false, "n": 0, "b": [], "sub": []}) }

pub fn err_class(e: &minicbor::decode::Error) -> &'static str {
    if e.is_custom() { "custom" } else if e.is_end_of_input() { "eoi" } else if e.is_type_mismatch() { "type" } else if e.is_tag_mismatch() { "tag" }
    else if e.is_message() { "msg" } else if e.is_unknown_variant() { "unkvar" } else if e.is_missing_value() { "missing" } else { "other" }
}

pub fn exec<T>(op: &str, input: &Value) -> Value
where T: Dv + Encode<()> + CborLen<()> + for<'b> Decode<'b, ()> + PartialEq + std::fmt::Debug
{
    match op {
        "enc" => {
            let v = T::from_json(&input["val"]);
            match minicbor::to_vec(&v) {
                Ok(b) => json!({"p": "run", "ok": true, "bytes": bytes(&b), "len": minicbor::len(&v)}),
                Err(_) => json!({"p": "run", "ok": false, "bytes": [], "len": minicbor::len(&v)})
            }
        }
        "dec" => {
            let b = get_bytes(&input["bytes"]);
            let mut d = Decoder::new(&b);
            match d.decode::<T>() {
                Ok(v) => json!({"p": "run", "ok": true, "val": v.to_json(), "pos": d.position()}),
                Err(e) => json!({"p": "run", "ok": false, "cls": err_class(&e), "pos": d.position()})
            }
        }
        _ => json!({"p": "unsupported"})
    }
}
