//! Hand-written part of the derive harness: the value conversions the generated code uses, the custom
//! nil-aware codec, and the two operations (encode a value, decode bytes) on a generated type.
use minicbor::{CborLen, Decode, Decoder, Encode};
use serde_json::{json, Value};

/// optional fields spelled through a type alias (the derive macros see only the alias)
pub type OptU8 = Option<u8>;
pub type OptString = Option<String>;

pub trait Dv: Sized {
    fn from_json(v: &Value) -> Self;
    fn to_json(&self) -> Value;
}

pub fn get_bytes(v: &Value) -> Vec<u8> { v.as_array().map(|a| a.iter().map(|x| x.as_u64().unwrap() as u8).collect()).unwrap_or_default() }
pub fn bytes(b: &[u8]) -> Value { Value::Array(b.iter().map(|x| Value::from(*x)).collect()) }
pub fn fv_u8(v: &Value) -> u8 { v["n"].as_u64().unwrap() as u8 }
pub fn fv_str(v: &Value) -> String { String::from_utf8(get_bytes(&v["b"])).unwrap() }
pub fn fv_bytes(v: &Value) -> Vec<u8> { get_bytes(&v["b"]) }
pub fn j_u8(n: u8) -> Value { json!({"some": true, "n": n, "b": [], "sub": []}) }
pub fn j_bytes(b: &[u8]) -> Value { json!({"some": true, "n": 0, "b": bytes(b), "sub": []}) }
pub fn j_sub(s: Value) -> Value { json!({"some": true, "n": 0, "b": [], "sub": s}) }
// ---- borrowing (C09): fields that must point into the decoding input -------------------------------------------------
thread_local! {
    static INPUT: std::cell::Cell<(usize, usize)> = const { std::cell::Cell::new((0, 0)) };
    static BORROW_OK: std::cell::Cell<bool> = const { std::cell::Cell::new(true) };
}
pub fn leak_str(s: String) -> &'static str { Box::leak(s.into_boxed_str()) }
pub fn leak_bytes(b: Vec<u8>) -> &'static [u8] { Box::leak(b.into_boxed_slice()) }
fn note_borrow(s: &[u8], must: bool) {
    let (lo, hi) = INPUT.with(|c| c.get());
    if hi == 0 || s.is_empty() || !must { return }
    let p = s.as_ptr() as usize;
    if !(p >= lo && p + s.len() <= hi) { BORROW_OK.with(|c| c.set(false)) }
}
pub fn j_borrowed(b: &[u8]) -> Value { note_borrow(b, true); j_bytes(b) }
pub fn j_cow(c: &std::borrow::Cow<'_, str>, must_borrow: bool) -> Value {
    if must_borrow && !c.is_empty() {
        match c { std::borrow::Cow::Borrowed(s) => note_borrow(s.as_bytes(), true), std::borrow::Cow::Owned(_) => { let (_, hi) = INPUT.with(|c| c.get()); if hi != 0 { BORROW_OK.with(|c| c.set(false)) } } }
    }
    j_bytes(c.as_bytes())
}
pub fn j_cowb(c: &std::borrow::Cow<'_, [u8]>) -> Value {
    if !c.is_empty() {
        match c { std::borrow::Cow::Borrowed(s) => note_borrow(s, true), std::borrow::Cow::Owned(_) => { let (_, hi) = INPUT.with(|c| c.get()); if hi != 0 { BORROW_OK.with(|c| c.set(false)) } } }
    }
    j_bytes(c)
}
pub fn j_none() -> Value { json!({"some": false, "n": 0, "b": [], "sub": []}) }

pub fn err_class(e: &minicbor::decode::Error) -> &'static str {
    if e.is_custom() { "custom" } else if e.is_end_of_input() { "eoi" } else if e.is_type_mismatch() { "type" } else if e.is_tag_mismatch() { "tag" }
    else if e.is_message() { "msg" } else if e.is_unknown_variant() { "unkvar" } else if e.is_missing_value() { "missing" } else { "other" }
}

pub fn exec<T>(op: &str, input: &Value) -> Value
where T: Dv + Encode<()> + CborLen<()> + Decode<'static, ()> + PartialEq + std::fmt::Debug
{
    match op {
        "enc" => {
            let v = T::from_json(&input["val"]);
            match minicbor::to_vec(&v) {
                Ok(b) => json!({"p": "run", "ok": true, "bytes": bytes(&b), "len": minicbor::len(&v)}),
                Err(_) => json!({"p": "run", "ok": false, "bytes": [], "len": minicbor::len(&v)})
            }
        }
        "dec" => {
            // the input lives for the rest of the process: borrowing types are instantiated at 'static
            let b: &'static [u8] = leak_bytes(get_bytes(&input["bytes"]));
            INPUT.with(|c| c.set((b.as_ptr() as usize, b.as_ptr() as usize + b.len())));
            BORROW_OK.with(|c| c.set(true));
            let mut d = Decoder::new(b);
            let r = match d.decode::<T>() {
                Ok(v) => { let val = v.to_json(); json!({"p": "run", "ok": true, "val": val, "pos": d.position(), "bor": BORROW_OK.with(|c| c.get())}) }
                Err(e) => json!({"p": "run", "ok": false, "cls": err_class(&e), "pos": d.position(), "bor": true})
            };
            INPUT.with(|c| c.set((0, 0)));
            r
        }
        _ => json!({"p": "unsupported"})
    }
}
