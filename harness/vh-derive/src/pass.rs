//! A user codec that simply forwards to the type's own impls and declares no nil (spec/Derive.tla!CodTys).
use minicbor::decode::{Decode, Decoder, Error};
use minicbor::encode::{self, Encode, Encoder, Write};

pub fn encode<C, T: Encode<C>, W: Write>(v: &T, e: &mut Encoder<W>, ctx: &mut C) -> Result<(), encode::Error<W::Error>> { v.encode(e, ctx) }
pub fn decode<'b, C, T: Decode<'b, C>>(d: &mut Decoder<'b>, ctx: &mut C) -> Result<T, Error> { T::decode(d, ctx) }
pub fn cbor_len<C, T: minicbor::CborLen<C>>(v: &T, ctx: &mut C) -> usize { v.cbor_len(ctx) }
