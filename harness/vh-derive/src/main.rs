//! vh-derive: the derive-macro harness.  Types are generated (gen_types.rs); this binary replays cases
//! {sid, name (enc|dec), in, exp, rel} and reports mismatches, or records events for trace validation.
mod prelude;
mod cu;
mod pass;
mod gen_types;

use serde_json::{json, Value};
use std::io::{BufRead, BufReader, BufWriter, Write};

fn check(name: &str, obs: &Value, exp: &Value) -> Vec<&'static str> {
    let mut why = vec![];
    if obs["p"] == "uncompilable" { return why }          // the type was left out of this build (reported by the driver)
    if obs["p"] != "run" { why.push("panic"); return why }
    if name == "enc" {
        if obs["ok"] != true || obs["bytes"] != exp["bytes"] { why.push("bytes") }
        if obs["len"] != exp["len"] { why.push("len") }
    } else if name == "xdec" {
        // the reader consumes exactly what the writer wrote (its length is the writer's business: C08)
        if exp["ok"] == true { if !(obs["ok"] == true && obs["val"] == exp["val"] && obs["bor"] == true && obs["pos"].as_u64() == obs["written"].as_array().map(|a| a.len() as u64)) { why.push("dec") } }
        else if obs["ok"] == true { why.push("dec") }
    } else if exp["ok"] == true {
        if !(obs["ok"] == true && obs["val"] == exp["val"] && obs["pos"] == exp["pos"] && obs["bor"] == true) { why.push("dec") }
    } else if obs["ok"] == true { why.push("dec") }
    why
}

fn main() {
    std::panic::set_hook(Box::new(|_| {}));
    let args: Vec<String> = std::env::args().skip(1).collect();
    match args.first().map(|s| s.as_str()) {
        // vh-derive cases <cases.ndjson> <mismatches.ndjson>
        Some("cases") => {
            let inp = BufReader::new(std::fs::File::open(&args[1]).unwrap());
            let mut out = BufWriter::new(std::fs::File::create(&args[2]).unwrap());
            let (mut n, mut bad) = (0u64, 0u64);
            let mut samples = vec![];
            for line in inp.lines() {
                let line = line.unwrap();
                if line.is_empty() { continue }
                let c: Value = serde_json::from_str(&line).unwrap();
                let sid = c["sid"].as_u64().unwrap() as usize;
                let name = c["name"].as_str().unwrap().to_string();
                let obs = if name == "xdec" {
                    // the writer type's real encoder, then the reader type's real decoder
                    let wsid = c["wsid"].as_u64().unwrap() as usize;
                    std::panic::catch_unwind(|| {
                        let enc = gen_types::run(wsid, "enc", &json!({"val": c["in"]["val"]}));
                        if enc["p"] == "uncompilable" { return enc }
                        if enc["ok"] != true { return json!({"p": "run", "ok": false, "cls": "encode", "pos": 0}) }
                        let mut dec = gen_types::run(sid, "dec", &json!({"bytes": enc["bytes"]}));
                        if dec["p"] == "uncompilable" { return dec }
                        dec["written"] = enc["bytes"].clone();
                        dec
                    }).unwrap_or(json!({"p": "panic"}))
                } else { std::panic::catch_unwind(|| gen_types::run(sid, &name, &c["in"])).unwrap_or(json!({"p": "panic"})) };
                n += 1;
                let why = check(&name, &obs, &c["exp"]);
                for w in &why { bad += 1; writeln!(out, "{}", json!({"case": c, "obs": obs, "why": w})).unwrap(); }
                if why.is_empty() && (samples.len() < 3 || (n % 5003 == 0 && samples.len() < 8)) { samples.push(json!({"case": c, "obs": obs})) }
            }
            out.flush().unwrap();
            println!("{}", json!({"cases": n, "mismatches": bad, "types": gen_types::NTYPES, "samples": samples}));
        }
        // vh-derive record <cases.ndjson> <events.ndjson>: run random-schema cases and record what happened (judged by TLC)
        Some("record") => {
            let inp = BufReader::new(std::fs::File::open(&args[1]).unwrap());
            let mut out = BufWriter::new(std::fs::File::create(&args[2]).unwrap());
            let mut n = 0u64;
            let mut samples = vec![];
            for line in inp.lines() {
                let line = line.unwrap();
                if line.is_empty() { continue }
                let c: Value = serde_json::from_str(&line).unwrap();
                let sid = c["sid"].as_u64().unwrap() as usize;
                let wsid = c.get("wsid").and_then(|x| x.as_u64()).map(|x| x as usize).unwrap_or(sid);
                let ev = std::panic::catch_unwind(|| {
                    let enc = gen_types::run(wsid, "enc", &json!({"val": c["in"]["val"]}));
                    if enc["p"] == "uncompilable" || gen_types::run(sid, "dec", &json!({"bytes": []}))["p"] == "uncompilable" { return json!({"skip": true}) }
                    let dec = if enc["ok"] == true { gen_types::run(sid, "dec", &json!({"bytes": enc["bytes"]})) } else { json!({"p":"run","ok":false,"cls":"encode","pos":0}) };
                    let dec = json!({"ok": dec["ok"] == true, "val": if dec["ok"] == true { dec["val"].clone() } else { json!([]) }, "pos": dec["pos"], "cls": dec.get("cls").cloned().unwrap_or(json!("")),
                                     "bor": dec.get("bor").cloned().unwrap_or(json!(true))});
                    let mut ev = json!({"fam": "derive", "name": c["name"], "sid": sid, "schema": c["in"]["schema"], "val": c["in"]["val"],
                                        "enc_ok": enc["ok"] == true, "bytes": enc["bytes"], "len": enc["len"], "dec": dec});
                    if c["in"].get("wschema").is_some() { ev["wschema"] = c["in"]["wschema"].clone(); ev["wsid"] = json!(wsid) }
                    ev
                }).unwrap_or(json!({"fam": "derive", "name": "panic", "sid": sid}));
                if ev["skip"] == true { continue }
                if samples.len() < 2 { samples.push(ev.clone()) }
                writeln!(out, "{}", ev).unwrap();
                n += 1;
            }
            out.flush().unwrap();
            println!("{}", json!({"events": n, "samples": samples}));
        }
        // vh-derive one <sid> <enc|dec> <in-json>
        Some("one") => {
            let input: Value = serde_json::from_str(&args[3]).unwrap();
            println!("{}", gen_types::run(args[1].parse().unwrap(), &args[2], &input));
        }
        _ => { eprintln!("usage: vh-derive cases|one"); std::process::exit(2) }
    }
}
