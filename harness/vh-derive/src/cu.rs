//! The custom nil-aware codec used by generated fields: a u8 written as the unsigned integer value + 1000;
//! 255 is the nil value.
use minicbor::decode::{Decoder, Error};
use minicbor::encode::{self, Encoder, Write};

pub fn encode<C, W: Write>(v: &u8, e: &mut Encoder<W>, _: &mut C) -> Result<(), encode::Error<W::Error>> { e.u16(*v as u16 + 1000)?.ok() }
pub fn decode<'b, C>(d: &mut Decoder<'b>, _: &mut C) -> Result<u8, Error> {
    let n = d.u16()?;
    if (1000..=1255).contains(&n) { Ok((n - 1000) as u8) } else { Err(Error::message("custom codec: out of range")) }
}
pub fn cbor_len<C>(_: &u8, _: &mut C) -> usize { 3 }
pub fn nil() -> Option<u8> { Some(255) }
pub fn is_nil(v: &u8) -> bool { *v == 255 }
