"""C10 (derive macros): see vlib/derive.py."""
from . import core, derive


def run(ver):
    wd = core.workdir("C10")
    derive.replay(ver, wd, derive.WHY_OF["C10"])
    derive.random_schemas(ver, wd, "C10")
    ver.assumptions += derive.ASSUMPTIONS
    return ver.finish("model_checking", derive.RULE["C10"], checker_cmd="tlc MC_Derive + gen/schema2rs.py + vh-derive cases")


def replay(doc):
    return derive.replay_one(doc)
