"""C03 Encoder output is well-formed, deterministic, shortest-form CBOR."""
from . import core


def run(ver):
    wd = core.workdir("C03")
    binp = core.cargo_build("vh")
    mc = {"quick": "4", "thorough": "5"}[ver.tier]
    res = core.run_tlc("MC_C03", "MC_C03.cfg", wd, consts={"Tier": f'"{ver.tier}"', "MaxCalls": mc}, timeout=3000)
    core.tlc_failure(res, "MC_C03")
    ver.add_mc(res, f"MC_C03 MaxCalls={mc}: every method x boundary arguments, every call sequence over a 14-call alphabet; invariants SingleOK BalancedOK OpenOK OnlyBalanced")
    core.replay_cases(ver, binp, res["out_path"], wd, "mc_c03")
    core.validate_traces(ver, binp, "c03", "Trace_C03", wd, gen_args=["20000"])
    core.table_sweep(ver, binp, wd, {"enc"})
    # each built-in Encode impl: the typed events of C01 (value, bytes) with the verdict restricted to "bytes = reference encoding"
    core.validate_traces(ver, binp, "c01", "Trace_Typed", wd, gen_args=["300" if ver.tier == "quick" else "1500"], only_why={"enc"})
    # ... data::Token among them: token sequences through Token's Encode impl (the events of C11, verdict restricted to the bytes written)
    core.validate_traces(ver, binp, "c11", "Trace_C11", wd, stage="trace_tokens", gen_args=["400" if ver.tier == "quick" else "4000"], only_name={"toks"}, only_why={"tokenc", "tokboth"})
    ver.assumptions += ["TLC evaluates the TLA+ operators correctly",
                        "the 2^32 sweep of the quantifier runs against the class table of MC_Tables (every third argument in thorough, a 1/4099 stratum in quick) next to exhaustive 8/16-bit ranges, +-3 around every power of two, 0..2^17 and seeded random arguments validated by TLC",
                        "determinism is checked by executing every call sequence twice",
                        "the built-in Encode impls are judged on the typed events shared with C01 (bytes = reference encoding of the projected value, Trace_Typed why=enc); containers whose bytes must not depend on their history (VecDeque ring position, HashMap order aside) are generated through such histories"]
    return ver.finish("model_checking",
                      "MC: the ghost nesting semantics of call sequences agrees with the RFC 8949 grammar (balanced <=> one well-formed item, open => strict prefix) "
                      "for every sequence up to MaxCalls; S->I: every method x boundary argument and every explored sequence replayed on Encoder<Vec<u8>>; "
                      "I->S: exhaustive u8/i8 (u16/i16 strided in quick), boundary-dense and random 32/64-bit arguments for every integer method, tag, array, map, "
                      "char, all 256 simple values, string lengths around 23/24/255/256/65535/65536, random call sequences; distinct = distinct calls",
                      checker_cmd="tlc MC_C03 + vh cases + tlc Trace_C03")


def replay(doc):
    return core.generic_replay(doc)
