"""C01 Value round-trip: decode(encode(v)) == v for every built-in codec type."""
from . import core


def run(ver):
    wd = core.workdir("C01")
    binp = core.cargo_build("vh")
    res = core.run_tlc("MC_C01", "MC_C01.cfg", wd, timeout=3000)
    core.tlc_failure(res, "MC_C01")
    ver.add_mc(res, "MC_C01: ~110 named instantiations x boundary values; reference encodings are well-formed and preferred")
    core.replay_cases(ver, binp, res["out_path"], wd, "mc_c01")
    core.validate_traces(ver, binp, "c01", "Trace_Typed", wd, gen_args=["500"], only_why={"rt", "enc", "alt"})
    # data::Token is one of the listed types: token sequences written through its Encode impl and read back through its Decode impl
    # (the events of C11, verdict restricted to the encode-then-tokenise direction; integer tokens compared by numeric value)
    core.validate_traces(ver, binp, "c11", "Trace_C11", wd, stage="trace_tokens", gen_args=["400" if ver.tier == "quick" else "4000"], only_name={"toks"}, only_why={"tokrt", "tokboth"})
    ver.assumptions += ["TLC evaluates the TLA+ operators correctly",
                        "the harness projection (types.rs) of Rust values to generic value trees is structural and faithful; unordered collections are projected sorted",
                        "values are boundary-first random draws per instantiation, not all values; lossy-by-construction shapes (nested Option, v6 flow-info/scope-id, "
                        "pre-epoch SystemTime, non-UTF-8 paths) are not generated"]
    return ver.finish("exploration",
                      "S->I: for ~110 instantiations of the built-in impls TLC emits the reference encoding of boundary values; the real code must decode each to "
                      "that value consuming it exactly, re-encode it to the same bytes and compute that length. I->S: per instantiation 40 (quick) / 400 (thorough) "
                      "boundary-first random values: the encoder's bytes must be the reference encoding (any element order for hash collections), decode back to the "
                      "value with exact consumption; a re-framed encoding of the same item (other head widths must succeed; indefinite framing may be refused but "
                      "never yields another value); distinct = values drawn",
                      checker_cmd="tlc MC_C01 + vh cases + tlc Trace_Typed")


def replay(doc):
    return core.generic_replay(doc)
