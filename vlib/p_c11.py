"""C11 Token streams are faithful: tokenise and re-encode is the identity."""
from . import core


def run(ver):
    wd = core.workdir("C11")
    binp = core.cargo_build("vh")
    for rich, mt, mts in (("FALSE", {"quick": "3", "thorough": "4"}[ver.tier], {"quick": "2", "thorough": "3"}[ver.tier]),
                          ("TRUE", {"quick": "2", "thorough": "3"}[ver.tier], "1")):
        tag = f"mc_c11_rich{rich}_{mt}_{mts}"
        res = core.run_tlc("MC_C11", "MC_C11.cfg", wd, tag=tag, consts={"Rich": rich, "MaxTok": mt, "MaxToks": mts}, timeout=3000)
        core.tlc_failure(res, tag)
        ver.add_mc(res, f"MC_C11 Rich={rich} MaxTok={mt} MaxToks={mts}: token stream / re-encoding of every byte string of token groups, encode-tokenise of every "
                        "token sequence; invariants CountBound PinnedComplete ReencodeSame TokRoundTrip")
        core.replay_cases(ver, binp, res["out_path"], wd, tag)
    core.validate_traces(ver, binp, "c11", "Trace_C11", wd, gen_args=["2000"])
    ver.assumptions += ["TLC evaluates the TLA+ operators correctly",
                        "token equality is data-model equality: integer tokens by numeric value, simple(20..23) = false/true/null/undefined, a NaN half is any NaN",
                        "tokens for simple(24..31) have no well-formed encoding and are outside the round trip (see the C03 known finding)"]
    return ver.finish("model_checking",
                      "MC: spec-level identities (re-encoding gives the same items with shortest heads and is the identity on preferred input, one token per byte at "
                      "most, encode-tokenise round trip) on all byte strings of <= MaxTok token groups and all token sequences <= MaxToks; S->I: each replayed on "
                      "Tokenizer / Encoder::tokens; I->S: generated item sequences (preferred and not, depth 6), mutations, truncations, random bytes, half patterns "
                      "(every 17th quick / all thorough), all simple tokens, random token sequences",
                      checker_cmd="tlc MC_C11 (x2) + vh cases + tlc Trace_C11")


def replay(doc):
    return core.generic_replay(doc)
