"""C04 Typed decoding agrees with the RFC 8949 data model on every well-formed encoding."""
from . import core


def run(ver):
    wd = core.workdir("C04")
    binp = core.cargo_build("vh")
    for rich, mt in (("FALSE", {"quick": "2", "thorough": "3"}[ver.tier]), ("TRUE", {"quick": "1", "thorough": "2"}[ver.tier])):
        tag = f"mc_c04_rich{rich}_{mt}"
        res = core.run_tlc("MC_C04", "MC_C04.cfg", wd, tag=tag, consts={"Rich": rich, "MaxTok": mt, "HalfOn": "TRUE"}, timeout=3400)
        core.tlc_failure(res, tag)
        ver.add_mc(res, f"MC_C04 Rich={rich} MaxTok={mt}: every prefix of every string of head/string/float groups x 25 accessors; invariants TreeAgreement "
                        "CrossShape PrefixNeverOK PrefixEOI")
        core.replay_cases(ver, binp, res["out_path"], wd, tag)
    # the same accessors in a build without the `half` (and `alloc`) feature: the float accessors have per-configuration arms there
    none = core.cargo_build("vh", no_default=True, target_subdir="cfg-none")
    tag = "mc_c04_nohalf"
    res = core.run_tlc("MC_C04", "MC_C04.cfg", wd, tag=tag, consts={"Rich": "FALSE", "MaxTok": {"quick": "2", "thorough": "3"}[ver.tier], "HalfOn": "FALSE"}, timeout=3400)
    core.tlc_failure(res, tag)
    ver.add_mc(res, "MC_C04 HalfOn=FALSE: the expected outcomes for a build without `half` (f32 / f64 refuse a half float, everything else as before)")
    core.replay_cases(ver, none, res["out_path"], wd, tag)
    core.validate_traces(ver, binp, "c04", "Trace_C04", wd, gen_args=["6000"])
    # the ~110 target types: re-framed encodings of their values (the typed events shared with C01, conjunct "alt"), the encoding of every
    # value decoded as every other type (an error, or the same data item: "cross"), strict prefixes decoded as the type itself ("prefix")
    core.validate_traces(ver, binp, "c01", "Trace_Typed", wd, stage="trace_types", gen_args=["500"], only_why={"alt"})
    core.validate_traces(ver, binp, "c04x", "Trace_Typed", wd, stage="trace_cross", gen_args=["500"], only_why={"cross", "prefix"})
    ver.assumptions += ["TLC evaluates the TLA+ operators correctly",
                        "simple() answering (or not) for false/true/null/undefined is left open; f8 00..1f is not well-formed and only totality is demanded",
                        "a cut inside a text string is an end-of-input case only while the bytes so far can still become valid UTF-8",
                        "for target types whose acceptance is lossy by design (sets, maps, f64 reading narrower floats, durations, a bare Tag) a cross-type decode is only required to return"]
    return ver.finish("model_checking",
                      "MC: two spec-level definitions (accessor semantics, data-model tree decoding) agree on every well-formed input of the model, no accessor "
                      "succeeds across shapes, prefixes never succeed and report end-of-input where a completion would be accepted; S->I: every (prefix of a group "
                      "string) x 25 accessors replayed on the real Decoder incl. borrowed-slice offsets; I->S: generated items (depth 8, random head widths, "
                      "indefinite framing, chunked strings, bad UTF-8) x 25 accessors at offset 0 and random offsets, and their strict prefixes",
                      checker_cmd="tlc MC_C04 (x2) + vh cases + tlc Trace_C04")


def replay(doc):
    return core.generic_replay(doc)
