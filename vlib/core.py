"""Shared machinery of bin/check: run TLC, run the harness, classify mismatches, write evidence."""
import hashlib
import json
import os
import re
import shutil
import subprocess
import sys
import time
from concurrent.futures import ThreadPoolExecutor

VERIF = os.path.dirname(os.path.dirname(os.path.abspath(__file__)))
SPEC = os.path.join(VERIF, "spec")
HARNESS = os.path.join(VERIF, "harness")
WORK = os.path.join(VERIF, "work")
REPLAYS = os.path.join(VERIF, "replays")
EVIDENCE = os.path.join(VERIF, "evidence")
JAR = "/opt/veriftools/tla/tla2tools.jar:/opt/veriftools/tla/CommunityModules-deps.jar"


class ToolError(Exception):
    """Build failure, TLC error, timeout, vacuity: exit 2, never a VIOLATION."""


class HarnessAbort(Exception):
    """The code under test requested an allocation above the refusal limit (lengths taken from the input): the process
    cannot survive that, but it leaves a witness naming the operation and the input."""
    def __init__(self, witness):
        super().__init__("allocation refused")
        self.witness = witness


def log(*a):
    print(*a, file=sys.stderr, flush=True)


def workdir(name):
    d = os.path.join(WORK, name)
    shutil.rmtree(d, ignore_errors=True)
    os.makedirs(d)
    os.makedirs(os.path.join(WORK, "tmp"), exist_ok=True)
    return d


# ---------------------------------------------------------------- harness ----
_built = set()


def cargo_build(package="vh", features=None, no_default=False, target_subdir=None, extra_env=None):
    key = (package, tuple(features or ()), no_default, target_subdir)
    if key in _built:
        return bin_path(package, target_subdir)
    cmd = ["cargo", "build", "--offline", "-q", "-p", package]
    if not no_default and not features and not target_subdir and os.path.exists(os.path.join(HARNESS, "vh-derive", "src", "gen_types.rs")):
        # the two harness binaries are always built together so that cargo's feature unification (and therefore the
        # fingerprints of the shared dependencies) is the same whichever of them a check asks for
        cmd = ["cargo", "build", "--offline", "-q", "-p", "vh", "-p", "vh-derive"]
    if features:
        cmd += ["--features", ",".join(features)]
    if no_default:
        cmd += ["--no-default-features"]
    env = dict(os.environ, CARGO_NET_OFFLINE="true")
    if target_subdir:
        env["CARGO_TARGET_DIR"] = os.path.join(HARNESS, "target", target_subdir)
    if extra_env:
        env.update(extra_env)
    t0 = time.time()
    r = subprocess.run(cmd, cwd=HARNESS, env=env, capture_output=True, text=True)
    if r.returncode != 0:
        raise ToolError("cargo build failed:\n" + r.stderr[-4000:])
    log(f"[build] {package} {features or ''} {time.time() - t0:.1f}s")
    _built.add(key)
    return bin_path(package, target_subdir)


def bin_path(package, target_subdir=None):
    base = os.path.join(HARNESS, "target", target_subdir) if target_subdir else os.path.join(HARNESS, "target")
    return os.path.join(base, "debug", package)


def run_harness(binp, args, timeout=3600, stdin=None):
    wpath = os.path.join(WORK, "tmp", f"witness-{os.getpid()}.json")
    if os.path.exists(wpath):
        os.remove(wpath)
    os.makedirs(os.path.dirname(wpath), exist_ok=True)
    r = subprocess.run([binp] + args, capture_output=True, text=True, timeout=timeout, input=stdin, env=dict(os.environ, VH_WITNESS=wpath))
    if r.returncode != 0 and os.path.exists(wpath):
        w = json.load(open(wpath))
        os.remove(wpath)
        w["harness_cmd"] = args[:4]
        raise HarnessAbort(w)
    if r.returncode != 0:
        raise ToolError(f"harness {' '.join(args[:3])} exited {r.returncode}: {r.stderr[-2000:]}")
    last = [l for l in r.stdout.splitlines() if l.strip()]
    return json.loads(last[-1]) if last else {}


# -------------------------------------------------------------------- TLC ----
CASE_RE = re.compile(r'^<<"(CASE|EDGE|MISMATCH|NOTE)", (.*)>>$')


def _java(extra_opts=""):
    env = dict(os.environ)
    env["JAVA_TOOL_OPTIONS"] = f"-Xss1g -Djava.io.tmpdir={os.path.join(WORK, 'tmp')} {extra_opts}".strip()
    return env


def parse_tla_string(s):
    """A TLA+ string literal as printed by TLC -> python str."""
    return json.loads(s)


def run_tlc(module, cfg, wd, workers=12, timeout=1800, consts=None, env_extra=None, heap=None, tag=None,
            simulate=None, deadlock=False, coverage=False):
    """Run TLC on spec/<module>.tla with spec/<cfg>.  Output goes to <wd>/<tag>.out.
    Returns dict(states, distinct, out_path, ok, errors)."""
    tag = tag or module
    out_path = os.path.join(wd, tag + ".out")
    cfg_path = os.path.join(SPEC, cfg)
    if consts:
        # derive a cfg with overridden constants
        text = open(cfg_path).read()
        for k, v in consts.items():
            if v.startswith("<-"):
                text, n = re.subn(rf"(?m)^(\s*(?:CONSTANTS?\s+)?{k}\s*<-\s*).*$", lambda m: m.group(1) + v[2:].strip(), text)
                if n == 0:
                    text += f"\nCONSTANT {k} <- {v[2:].strip()}\n"
                continue
            text, n = re.subn(rf"(?m)^(\s*(?:CONSTANTS?\s+)?{k}\s*=\s*).*$", lambda m: m.group(1) + v, text)
            if n == 0:
                text += f"\nCONSTANT {k} = {v}\n"
        cfg_path = os.path.join(wd, tag + ".cfg")
        open(cfg_path, "w").write(text)
    cmd = ["java", "-XX:+UseParallelGC"]
    if heap:
        cmd.append(f"-Xmx{heap}")
    cmd += ["-cp", JAR, "tlc2.TLC", "-workers", str(workers), "-metadir", os.path.join(wd, tag + ".md"),
            "-cleanup", "-noGenerateSpecTE", "-config", cfg_path]
    if coverage:
        cmd += ["-coverage", "1"]
    if simulate:
        cmd += ["-simulate", simulate]
    if deadlock:
        cmd += ["-deadlock"]          # TLC's -deadlock switch turns deadlock checking OFF
    cmd.append(os.path.join(SPEC, module + ".tla"))
    env = _java()
    if env_extra:
        env.update(env_extra)
    t0 = time.time()
    with open(out_path, "w") as out:
        try:
            r = subprocess.run(cmd, cwd=wd, env=env, stdout=out, stderr=subprocess.STDOUT, timeout=timeout)
        except subprocess.TimeoutExpired:
            raise ToolError(f"TLC timeout on {module} after {timeout}s")
    res = {"out_path": out_path, "states": 0, "distinct": 0, "ok": False, "errors": [], "wall_s": time.time() - t0,
           "rc": r.returncode, "actions": {}}
    with open(out_path, errors="replace") as f:
        for line in f:
            if line.startswith("<<"):
                continue
            m = re.match(r"^(\d[\d,]*) states generated, (\d[\d,]*) distinct states found", line)
            if m:
                res["states"] = int(m.group(1).replace(",", ""))
                res["distinct"] = int(m.group(2).replace(",", ""))
            if coverage:
                m = re.match(r"^<(\w+) line \d+, col \d+ to line \d+, col \d+ of module (\w+)>: (\d+):(\d+)\s*$", line)
                if m:      # action name -> (distinct states found through it, states generated); the last report wins
                    res["actions"][m.group(1)] = (int(m.group(3)), int(m.group(4)))
            if "Model checking completed. No error has been found." in line:
                res["ok"] = True
            if line.startswith("Error:") or "is violated" in line or "Exception" in line:
                res["errors"].append(line.strip())
    shutil.rmtree(os.path.join(wd, tag + ".md"), ignore_errors=True)
    return res


def tlc_lines(out_path, kind):
    """Yield the payloads of <<"KIND", ...>> lines printed by TLC."""
    with open(out_path, errors="replace") as f:
        for line in f:
            if not line.startswith('<<"' + kind + '", '):
                continue
            yield line[len('<<"' + kind + '", '):].rstrip("\n")[:-2]


def extract_cases(out_path, dest, kind="CASE"):
    """CASE lines (a JSON document in a TLA+ string) -> ndjson file.  Returns the count."""
    n = 0
    with open(dest, "w") as out:
        for payload in tlc_lines(out_path, kind):
            out.write(parse_tla_string(payload))
            out.write("\n")
            n += 1
    return n


def tlc_failure(res, what):
    if not res["ok"]:
        tail = subprocess.run(["grep", "-v", "^<<", res["out_path"]], capture_output=True, text=True).stdout[-3000:]
        raise ToolError(f"TLC did not complete cleanly on {what}:\n{tail}")


def validate_shards(trace_module, cfg, shard_paths, wd, jobs=12, timeout=1800):
    """Validate every trace shard against the trace specification, in parallel JVMs.
    Returns (events_checked, [mismatch events])."""
    def one(path):
        tag = "tv-" + os.path.basename(path).replace(".ndjson", "")
        res = run_tlc(trace_module, cfg, wd, workers=1, timeout=timeout, tag=tag, heap="3g",
                      env_extra={"TRACE": path,
                                 "JAVA_TOOL_OPTIONS": f"-Xss1g -Djava.io.tmpdir={os.path.join(WORK, 'tmp')} "
                                                      "-Dtlc2.tool.queue.IStateQueue=StateDeque"})
        if not res["ok"]:
            tail = subprocess.run(["grep", "-v", "^<<", res["out_path"]], capture_output=True, text=True).stdout[-3000:]
            raise ToolError(f"trace validation of {path} failed to complete:\n{tail}")
        if any(True for _ in tlc_lines(res["out_path"], "NOTCONSUMED")):
            raise ToolError(f"trace {path} was not consumed completely")
        mism = []
        for payload in tlc_lines(res["out_path"], "MISMATCH"):
            # payload: <line>, "<json>"
            i = payload.index(",")
            m = json.loads(parse_tla_string(payload[i + 1:].strip()))
            if isinstance(m, dict) and "why" in m and "ev" in m:
                ev = m["ev"]
                ev["why"] = m["why"]
                m = ev
            mism.append(m)
        os.remove(res["out_path"])
        return res["distinct"] - 1, mism
    total, all_m = 0, []
    with ThreadPoolExecutor(max_workers=jobs) as ex:
        for n, m in ex.map(one, shard_paths):
            total += n
            all_m.extend(m)
    return total, all_m


# ------------------------------------------------------------ verdicts --------
def load_findings():
    p = os.path.join(VERIF, "known_findings.json")
    if not os.path.exists(p):
        return []
    return json.load(open(p)).get("findings", [])


def sig_matches(sig, item):
    """A finding signature is a dict of dotted-path -> expected value (or list of allowed values)."""
    for path, want in sig.items():
        cur = item
        for part in path.split("."):
            if isinstance(cur, dict) and part in cur:
                cur = cur[part]
            else:
                cur = None
                break
        if isinstance(want, list):
            if cur not in want:
                return False
        elif cur != want:
            return False
    return True


class Verdict:
    def __init__(self, pid, tier, seed):
        self.pid, self.tier, self.seed = pid, tier, seed
        self.t0 = time.time()
        self.violations = []       # (signature text, replay path)
        self.known = {}            # what -> count
        self.notes = []
        self.cov = {"states": 0, "transitions": 0, "traces_validated_against_impl": 0, "samples": [],
                    "evaluations": 0, "distinct_nontrivial": 0, "stages": []}
        self.assumptions = []
        self.findings = [f for f in load_findings() if f.get("property") == pid and f.get("status") == "known"]
        # replay files of earlier runs of this property are stale
        if os.path.isdir(REPLAYS):
            for f in os.listdir(REPLAYS):
                if f.startswith(pid + "-"):
                    os.remove(os.path.join(REPLAYS, f))

    def add_mc(self, res, what):
        self.cov["states"] += res["distinct"]
        self.cov["transitions"] += res["states"]
        st = {"stage": "MC " + what, "distinct_states": res["distinct"], "transitions": res["states"], "wall_s": round(res["wall_s"], 1)}
        if res.get("actions"):
            # vacuity guard: an action of the specification that was never taken in this configuration means part of the model was not exercised
            st["action_coverage"] = {a: c[1] for a, c in sorted(res["actions"].items())}
            dead = [a for a, c in res["actions"].items() if c[1] == 0 and a != "Init"]
            if dead:
                self.notes.append(f"vacuity: actions never taken in {what.split(':')[0]}: {', '.join(sorted(dead))}")
        self.cov["stages"].append(st)

    def mismatch(self, stage, item, sigtext=None):
        """Classify one mismatch (a dict with at least fam/name/in or a free-form description)."""
        flat = dict(item.get("case", item))
        flat["obs"] = item.get("obs", flat.get("obs"))
        for f in self.findings:
            if any(sig_matches(sg, flat) for sg in f.get("signatures", [f.get("signature")]) if sg is not None):
                self.known[f["what"]] = self.known.get(f["what"], 0) + 1
                return
        sigtext = sigtext or default_sig(item)
        if any(s == sigtext for s, _ in self.violations):
            return
        os.makedirs(REPLAYS, exist_ok=True)
        h = hashlib.sha1(json.dumps(item, sort_keys=True).encode()).hexdigest()[:12]
        path = os.path.join(REPLAYS, f"{self.pid}-{h}.json")
        json.dump({"property": self.pid, "stage": stage, "signature": sigtext, "item": item}, open(path, "w"), indent=1)
        self.violations.append((sigtext, path))

    def finish(self, level, rule, extra_cov=None, checker_cmd=None):
        for what, n in self.known.items():
            print(f"KNOWN-FINDING: property={self.pid} {what} (observed {n}x)")
        for n in self.notes:
            print("NOTE:", n)
        for _, path in self.violations:
            print(f"VIOLATION property={self.pid} replay={path}")
        cov = dict(self.cov)
        cov["rule"] = rule
        if extra_cov:
            cov.update(extra_cov)
        if checker_cmd:
            cov["checker_cmd"] = checker_cmd
        cov["samples"] = cov["samples"][:12]
        ev = {"property_id": self.pid, "tier": self.tier, "seed": self.seed, "level": level, "coverage": cov,
              "assumptions": self.assumptions, "wall_s": round(time.time() - self.t0, 1),
              "violations": len(self.violations), "known_findings_observed": self.known}
        os.makedirs(EVIDENCE, exist_ok=True)
        json.dump(ev, open(os.path.join(EVIDENCE, f"{self.pid}.json"), "w"), indent=1)
        return 1 if self.violations else 0


def default_sig(item):
    """One violation line per distinct (operation, outcome shape), not per input."""
    c = item.get("case", item)
    obs = item.get("obs", c.get("obs", {}))
    o = obs.get("p") if isinstance(obs, dict) else str(obs)
    return f"{c.get('fam')}:{c.get('name')}:{o}"


def replay_cases(ver, binp, tlc_out, wd, stage, kind="CASE"):
    """S->I: extract the cases TLC emitted, run them on the implementation, classify mismatches."""
    t0 = time.time()
    cases = os.path.join(wd, stage + ".cases.ndjson")
    n = extract_cases(tlc_out, cases, kind)
    if n == 0:
        raise ToolError(f"{stage}: TLC emitted no cases (vacuous)")
    mm = os.path.join(wd, stage + ".mismatch.ndjson")
    summ = run_harness(binp, ["cases", cases, mm])
    if summ.get("unsupported", 0) > 0:
        raise ToolError(f"{stage}: harness does not support {summ['unsupported']} emitted cases")
    for line in open(mm):
        ver.mismatch("S->I " + stage, json.loads(line))
    ver.cov["traces_validated_against_impl"] += summ["cases"]
    ver.cov["evaluations"] += summ["cases"]
    ver.cov["distinct_nontrivial"] += summ["distinct"]
    ver.cov["samples"] += summ["samples"][:3]
    ver.cov["stages"].append({"stage": "S->I " + stage, "cases_replayed": summ["cases"], "mismatches": summ["mismatches"],
                              "wall_s": round(time.time() - t0, 1)})
    os.remove(cases)
    return summ


def validate_traces(ver, binp, family, trace_module, wd, stage="trace", jobs=12, gen_args=None, only_why=None, only_name=None):
    """I->S: have the harness record traces, validate every shard with TLC, classify mismatches."""
    t0 = time.time()
    tdir = os.path.join(wd, stage)
    summ = run_harness(binp, ["gen", family, ver.tier, str(ver.seed), tdir] + (gen_args or []))
    shards = sorted(os.path.join(tdir, f) for f in os.listdir(tdir) if f.endswith(".ndjson"))
    if not shards:
        raise ToolError(f"{stage}: harness recorded no events")
    n, mism = validate_shards(trace_module, trace_module + ".cfg", shards, wd, jobs=jobs)
    if n != summ["events"]:
        raise ToolError(f"{stage}: {summ['events']} events recorded but {n} validated")
    if any(m.get("why") == "HARNESS" for m in mism):
        raise ToolError(f"{stage}: the harness produced an inconsistent event: " + json.dumps([m for m in mism if m.get("why") == "HARNESS"][0])[:600])
    if only_why is not None:
        other = [m for m in mism if m.get("why") not in only_why]
        for w in sorted({m.get("why") for m in other}):
            ver.notes.append(f"{stage}: {sum(1 for m in other if m.get('why') == w)} events fail conjunct '{w}', which belongs to another property's check")
        mism = [m for m in mism if m.get("why") in only_why]
    if only_name is not None:
        other = [m for m in mism if m.get("name") not in only_name]
        if other:
            ver.notes.append(f"{stage}: {len(other)} events of other operations ({', '.join(sorted({str(m.get('name')) for m in other}))}) fail; they belong to another property's check")
        mism = [m for m in mism if m.get("name") in only_name]
    for m in mism:
        ver.mismatch("I->S " + stage, m, sigtext=(f"{m.get('fam')}:{m.get('name')}:{m.get('ty', '')}:{m.get('why')}" if "why" in m else None))
    ver.cov["traces_validated_against_impl"] += n
    ver.cov["evaluations"] += n
    ver.cov["distinct_nontrivial"] += summ.get("distinct_inputs", 0)
    ver.cov["samples"] += summ["samples"][:3]
    ver.cov["stages"].append({"stage": "I->S " + stage, "events_validated": n, "mismatches": len(mism),
                              "distinct_inputs": summ.get("distinct_inputs", 0), "wall_s": round(time.time() - t0, 1)})
    shutil.rmtree(tdir, ignore_errors=True)
    return summ


def validate_runs(ver, binp, family, trace_module, wd, stage="runs", jobs=12, gen_args=None, timeout=900, tool_invariants=()):
    """I->S for stateful objects: the harness records one file per run (header + events); each run must be a
    behaviour of the specification (blocking form: the first unexplained event of a run is the mismatch) and
    every invariant of the specification is evaluated in every state of the matched behaviour."""
    t0 = time.time()
    tdir = os.path.join(wd, stage)
    summ = run_harness(binp, ["gen", family, ver.tier, str(ver.seed), tdir] + (gen_args or []))
    files = sorted(os.path.join(tdir, f) for f in os.listdir(tdir) if f.endswith(".ndjson"))
    if not files:
        raise ToolError(f"{stage}: harness recorded no runs")

    def one(path):
        tag = "rv-" + os.path.basename(path).replace(".ndjson", "")
        res = run_tlc(trace_module, trace_module + ".cfg", wd, workers=1, timeout=timeout, tag=tag, heap="3g",
                      env_extra={"TRACE": path,
                                 "JAVA_TOOL_OPTIONS": f"-Xss1g -Djava.io.tmpdir={os.path.join(WORK, 'tmp')} "
                                                      "-Dtlc2.tool.queue.IStateQueue=StateDeque"})
        mism = []
        for payload in tlc_lines(res["out_path"], "MISMATCH"):
            i = payload.index(",")
            m = json.loads(parse_tla_string(payload[i + 1:].strip()))
            mism.append({"fam": family, "name": "run", "run": os.path.basename(path), "unexplained": m,
                         "obs": {"p": "unexplained:" + str(m.get("ev", {}).get("ev"))}})
        text = open(res["out_path"], errors="replace").read()
        inv = re.findall(r"Invariant (\w+) is violated", text)
        for name in inv:
            if name in tool_invariants:
                raise ToolError(f"harness defect: {name} violated in {path}")
            mism.append({"fam": family, "name": "run", "run": os.path.basename(path), "invariant": name,
                         "header": json.loads(open(path).readline()), "obs": {"p": "invariant:" + name}})
        if not res["ok"] and not inv:
            raise ToolError(f"trace validation of {path} failed:\n" + "\n".join(l for l in text.splitlines() if not l.startswith("<<"))[-3000:])
        if mism:
            keep = os.path.join(REPLAYS, f"{ver.pid}-{os.path.basename(path)}")
            os.makedirs(REPLAYS, exist_ok=True)
            shutil.copy(path, keep)
            for m in mism:
                m["trace_file"] = keep
        os.remove(res["out_path"])
        return res["distinct"], mism
    states, all_m = 0, []
    with ThreadPoolExecutor(max_workers=jobs) as ex:
        for n, m in ex.map(one, files):
            states += n
            all_m.extend(m)
    for m in all_m:
        ver.mismatch("I->S " + stage, m)
    ver.cov["traces_validated_against_impl"] += len(files)
    ver.cov["evaluations"] += summ["events"]
    ver.cov["distinct_nontrivial"] += len(files)
    ver.cov["samples"] += summ["samples"][:2]
    ver.cov["stages"].append({"stage": "I->S " + stage, "runs_validated": len(files), "events": summ["events"],
                              "trace_states": states, "mismatching_runs": len({m["run"] for m in all_m}),
                              "wall_s": round(time.time() - t0, 1)})
    shutil.rmtree(tdir, ignore_errors=True)
    return summ


def table_sweep(ver, binp, wd, kinds):
    """DESIGN.md section 8: TLC emits the decision table of integer reads / head widths over the classes (major, bit length) and checks
    constancy on class representatives (MC_Tables); the harness sweeps the 32-bit argument space (every argument in thorough: stride 1 would
    take 18 min, stride 3 is used; a stratum in quick) at every head width that can carry it and checks each point against its class row."""
    t0 = time.time()
    res = run_tlc("MC_Tables", "MC_Tables.cfg", wd, timeout=1800)
    tlc_failure(res, "MC_Tables")
    ver.add_mc(res, "MC_Tables: outcome of every integer read and the preferred head width are constant on every class (major, bit length); reads are the identity")
    table = os.path.join(wd, "tables.ndjson")
    extract_cases(res["out_path"], table, "TABLE")
    out = os.path.join(wd, "sweep32.json")
    stride = "3" if ver.tier == "thorough" else "4099"
    summ = run_harness(binp, ["sweep32", table, stride, out], timeout=7200)
    doc = json.load(open(out))
    for m in doc["mismatches"]:
        if m["kind"] in kinds:
            ver.mismatch("S->I table sweep", {"fam": "sweep32", "name": m["kind"] + ":" + m["t"], "in": m, "obs": {"p": "differs-from-class-row"}})
    ver.cov["evaluations"] += summ["reads"] + summ["encodes"]
    ver.cov["traces_validated_against_impl"] += summ["reads"] + summ["encodes"]
    ver.cov["stages"].append({"stage": "S->I table sweep (MC_Tables rows x 32-bit arguments)", "stride": int(stride), "reads_checked": summ["reads"],
                              "encodes_checked": summ["encodes"], "mismatches": len(doc["mismatches"]), "wall_s": round(time.time() - t0, 1)})


def run_tlapm(ver, module, wd, what):
    """Bonus: an unbounded TLAPS proof next to a bounded model (no claim depends on it; a failure is a NOTE)."""
    t0 = time.time()
    shutil.copy(os.path.join(SPEC, module + ".tla"), wd)
    try:
        r = subprocess.run(["tlapm", "--threads", "8", module + ".tla"], cwd=wd, capture_output=True, text=True, timeout=600)
        txt = r.stdout + r.stderr
        m = re.search(r"All (\d+) obligations proved", txt)
        proved = int(m.group(1)) if m else 0
    except (subprocess.TimeoutExpired, FileNotFoundError):
        proved, txt = 0, "tlapm unavailable or timed out"
    if not proved:
        ver.notes.append(f"bonus proof {module}: not all obligations proved ({txt.strip().splitlines()[-1][:200] if txt.strip() else ''})")
    ver.cov["stages"].append({"stage": f"TLAPS {module}: {what}", "obligations_proved": proved, "wall_s": round(time.time() - t0, 1)})
    shutil.rmtree(os.path.join(wd, ".tlacache"), ignore_errors=True)


def run_extras(ver, binp, wd):
    """Behaviour beyond the listed properties (spec/Data.tla): recorded and validated like everything else, but a mismatch is a
    NOTE of the hosting check, never a violation of the hosted property."""
    t0 = time.time()
    tdir = os.path.join(wd, "extra")
    summ = run_harness(binp, ["gen", "extra", ver.tier, str(ver.seed), tdir])
    shards = sorted(os.path.join(tdir, f) for f in os.listdir(tdir) if f.endswith(".ndjson"))
    n, mism = validate_shards("Trace_Extra", "Trace_Extra.cfg", shards, wd)
    kinds = {}
    for m in mism:
        kinds.setdefault(m.get("why"), []).append(m)
    for w, ms in sorted(kinds.items()):
        ex = {k: v for k, v in ms[0].items() if k not in ("fam", "why")}
        ver.notes.append(f"beyond the listed properties (spec/Data.tla): {len(ms)} events fail '{w}', e.g. {json.dumps(ex)[:300]}")
    ver.cov["stages"].append({"stage": "extra: spec/Data.tla (registered tags, type names, Int order, context threading) - notes only",
                              "events_validated": n, "mismatches_reported_as_notes": len(mism), "wall_s": round(time.time() - t0, 1)})
    shutil.rmtree(tdir, ignore_errors=True)


def generic_replay(doc):
    """Re-run the case of a replay file on the current tree and show specification vs observation."""
    binp = cargo_build("vh")
    item = doc["item"]
    c = item.get("case", item)
    if "in" in c:
        r = subprocess.run([binp, "one", c["fam"], c["name"], json.dumps(c["in"])], capture_output=True, text=True)
        print("observed now :", r.stdout.strip())
        print("recorded obs :", json.dumps(item.get("obs", c.get("obs"))))
        if "exp" in c:
            print("specification:", json.dumps(c["exp"]))
    else:
        print(json.dumps(item, indent=1)[:4000])
        if "trace_file" in item:
            print("recorded trace:", item["trace_file"])
    return 0
