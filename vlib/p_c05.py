"""C05 Integer decoding is value-preserving across widths."""
import json
from . import core


def run(ver):
    wd = core.workdir("C05")
    binp = core.cargo_build("vh")
    # MC + case emission: every (major, width, boundary argument, cut) x every target
    res = core.run_tlc("MC_C05", "MC_C05.cfg", wd, consts={"Tier": f'"{ver.tier}"'})
    core.tlc_failure(res, "MC_C05")
    ver.add_mc(res, "MC_C05 (boundary triples x targets; invariants ReprAgree ValuePreserving DatatypeAccepts PrefixFails Monotone)")
    core.replay_cases(ver, binp, res["out_path"], wd, "mc_c05")
    # I->S
    core.validate_traces(ver, binp, "c05", "Trace_C05", wd)
    core.table_sweep(ver, binp, wd, {"read"})
    core.run_extras(ver, binp, wd)
    ver.assumptions += ["TLC evaluates the TLA+ operators correctly",
                        "the harness projection (abs.rs) of Rust integers to (neg, magnitude) byte tuples is faithful",
                        "the 2^32 sweeps at the 4- and 8-byte widths are replaced by exhaustive 16-bit ranges, every 2^k +- 3 and seeded random arguments"]
    return ver.finish("model_checking",
                      "S->I: every (major, head width, argument in the boundary set, prefix cut) x every integer target emitted by TLC is replayed; "
                      "I->S: arguments < 2^16 (all in thorough, a seeded 1/64 stratum in quick), every 2^k +- 3, seeded random 64-bit, at every width "
                      "that can carry them, both majors, x accessors/typed decodes/Int conversions; distinct = distinct (operation, input) pairs; "
                      "all are non-trivial (each exercises a width arm and a range check)",
                      checker_cmd="tlc MC_C05 + vh cases + tlc Trace_C05")


def replay(doc):
    binp = core.cargo_build("vh")
    c = doc["item"].get("case", doc["item"])
    import subprocess
    r = subprocess.run([binp, "one", c["fam"], c["name"], json.dumps(c["in"])], capture_output=True, text=True)
    print("observed now :", r.stdout.strip())
    print("recorded obs :", json.dumps(doc["item"].get("obs", c.get("obs"))))
    if "exp" in c:
        print("specification:", json.dumps(c["exp"]))
    return 0
