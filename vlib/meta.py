"""Per-property registration: what is claimed, at which level, with which technique.  bin/mkmanifest
assembles MANIFEST.json from this table; properties without an entry in CHECKS are listed as not_applicable
with the reason in NOT_YET."""

TITLES = {}

CHECKS = {
    "C05": {
        "category": "model_checking",
        "text": "TLC enumerates every (major type, head width, boundary argument, prefix cut) of the integer wire grammar in the bounded model "
                "MC_C05, checks the design invariants (value preservation, prefix failure, datatype acceptance, two independent definitions of "
                "representability agree) and emits the specification's outcome for every integer target; every emitted case is replayed on the "
                "real decoder (S->I). Recorded calls over exhaustive 16-bit ranges, every 2^k+-3 and random 64-bit arguments are validated by TLC "
                "against the same operators (I->S).",
        "design_ref": "DESIGN.md section 6, C05",
        "note": "Also: a table-driven sweep of the 32-bit argument space (every third argument in thorough) through 33 integer targets against class rows emitted by TLC (MC_Tables); spec/Data.tla extras are validated as notes. Trusted: TLC, the TLA+ transcription of RFC 8949 section 3 (spec/CborWire.tla, spec/Decoder.tla), the harness projection of Rust "
                "integers to (sign, magnitude). The 2^32 sweeps of the quantifier are not run through TLC.",
        "technique": "TLA+ spec (C05/Decoder/CborWire) + TLC bounded model checking + spec->impl case replay + impl->spec trace validation",
        "engine": "tlc+vh",
    },
}

CHECKS["C06"] = {
    "category": "model_checking",
    "text": "spec/Skip.tla transcribes the skip loop of both feature variants as a step machine (one action per iteration); TLC checks on every "
            "token sequence up to a bound (well-formed items with suffixes, strict prefixes, ill-formed sequences) that it refines the RFC 8949 item "
            "boundary (spec/SkipProp.tla, spec/CborWire.tla) - exact end on success, error on every strict prefix, refusal only without alloc and only "
            "for nested indefinite containers, linear work. Every explored input is replayed on the real decoder in the alloc and the no-alloc build; "
            "random deep trees, suffixes, prefixes, mutations and chains to depth 500 (4000 thorough) are recorded and validated by TLC, together with a "
            "full decode of the same item through the typed accessors.",
    "design_ref": "DESIGN.md section 6, C06",
    "note": "Trusted: TLC, the transcription of RFC 8949 section 3, the harness projection. Invalid UTF-8 text makes an item invalid though well-formed: "
            "both exact advance and an error are accepted there. Step counts are checked on the model only (no hook installed).",
    "technique": "TLA+ step-machine spec of skip (Skip/SkipProp) + TLC refinement check + spec->impl replay in two feature builds + trace validation",
    "engine": "tlc+vh",
}

CHECKS["C15"] = {
    "category": "model_checking",
    "text": "spec/AsyncReader.tla models the reader's state (prefix bytes, offset, buffer), the caller's future (none/running/suspended) and an "
            "adversarial source; TLC explores every interleaving of deliver-k / pending / transient error / eof with start / resume / drop for every "
            "cut point within the bounds and checks eight safety invariants (in-order, no loss/duplication/tearing, no value from a cut frame, clean "
            "end only at a boundary, errors reported once, buffer bounded). The schedule of every explored transition is replayed on the real "
            "AsyncReader (scripted AsyncRead, hand-polled futures dropped at Pending); seeded random walks of the real reader are validated event by "
            "event against the same actions with all invariants on.",
    "design_ref": "DESIGN.md section 6, C15",
    "note": "Trusted: TLC, futures-io semantics as modelled by the scripted source, the no-op-waker executor. Liveness (every read terminates, every deliverable frame is "
            "eventually handed out under a fair source and executor) is checked on the model (MC_C15L), whose actions are the ones replayed on the code; bounds: <= 4 "
            "frames, <= 3 consecutive Pending, <= 2 transient errors in MC; <= 200 frames in random walks.",
    "technique": "TLA+ state-machine spec (AsyncReader) + TLC exhaustive schedule exploration + schedule replay on the real code + trace validation of random walks",
    "engine": "tlc+vh",
}

CHECKS["C16"] = {
    "category": "model_checking",
    "text": "spec/AsyncWriter.tla models the writer's state (None/WriteFrom offset, shared buffer), the caller's write and sync futures and an "
            "adversarial sink, with a ghost that tracks whether the caller honoured C16's precondition; TLC explores every interleaving within the "
            "bounds and checks that the sink holds whole frames of the armed values in order, completed writes report their payload length, "
            "rejected values contribute no byte and nothing is pending when clean. Every explored compliant schedule is replayed on the real "
            "AsyncWriter (scripted AsyncWrite, futures dropped at Pending) with exact sink bytes compared; seeded random walks of a compliant caller "
            "are validated event by event against the same actions.",
    "design_ref": "DESIGN.md section 6, C16 and section 4 (compliant caller)",
    "note": "Liveness (every future completes, eventually the sink holds exactly the frames of all accepted values) is checked on the model under fairness (MC_C16L). Trusted: TLC, futures-io semantics as modelled by the scripted sink. Bounds in MC: <= 5 values, <= 2-3 consecutive Pending, <= 2 sink "
            "faults, <= 4 syncs.",
    "technique": "TLA+ state-machine spec (AsyncWriter) with compliance ghost + TLC exhaustive schedule exploration + schedule replay + trace validation of random walks",
    "engine": "tlc+vh",
}

CHECKS["C14"] = {
    "category": "model_checking",
    "text": "spec/BlockingIO.tla models the blocking frame Reader (prefix loop, max_len check, read_exact, decode) against an environment that "
            "chooses every read outcome (deliver k, Interrupted, eof at every cut point) and the Writer (encode, max_len check, write_all) against "
            "a sink that accepts k bytes, is interrupted, accepts zero or fails; TLC checks in-order delivery, truncation detection, clean end only "
            "at a frame boundary, resynchronisation after an undecodable payload, the buffer bound, whole frames in the sink and the length "
            "returned. Every explored schedule is replayed on the real Reader / Writer, including frames that claim 0x7ffffff0 bytes (allocation "
            "before the check becomes visible through the counting allocator); random runs are validated event by event.",
    "design_ref": "DESIGN.md section 6, C14",
    "note": "Every twelfth random run moves three frames of up to 70 000 bytes; runs start from new(), a small stale buffer or a pre-sized one (with_buffer); recorded accept / deliver events bind their k (linear validation). Trusted: TLC, std's read_exact/write_all as documented, the counting allocator. Only Interrupted errors are in the model on the read "
            "side, as in the property's quantifier.",
    "technique": "TLA+ state-machine spec (BlockingIO) + TLC exhaustive exploration of fragmentation/interruption/cut schedules + schedule replay + trace validation",
    "engine": "tlc+vh",
}

CHECKS["C13"] = {
    "category": "model_checking",
    "text": "spec/Sinks.tla states the all-or-nothing write_all law and the encode-fits law for the six Write sinks; TLC enumerates every sequence "
            "of write_all calls with lengths 0..cap+1 for small capacities and each is replayed on the real sinks between canaries (results, "
            "content, position). Token sequences of generated items are encoded into every sink kind at every capacity 0..=len+1 and TLC checks "
            "each recorded outcome: success iff it fits, identical bytes in every sink, write error otherwise with a prefix left behind, position = "
            "bytes accepted, nothing outside the sink touched.",
    "design_ref": "DESIGN.md section 6, C13",
    "note": "Besides token sequences, values are written through their own Encode impls (ArrayIter / MapIter under four kinds of size hint, Vec, tuples, maps, options, arrays, Result) into every bounded sink at every capacity. Also: std::io sinks that make short writes (a bounded &mut [u8], a writer taking three bytes per call); an unbounded TLAPS proof of the position law of the length abstraction (bonus). Trusted: TLC; the reference encoding is the encoder's own Vec output (sink independence is what is decided here, byte correctness is C03).",
    "technique": "TLA+ spec of the sink laws (Sinks) + TLC enumeration of write sequences + replay on the real sinks + trace validation over all capacities",
    "engine": "tlc+vh",
}

CHECKS["C19"] = {
    "category": "model_checking",
    "text": "spec/Display.tla gives the documented notation as a structural recursion on the RFC 8949 grammar (Diag) and the token stream of the "
            "Tokenizer; spec/DisplayM.tla transcribes the control-stack machine of the Display impl. TLC checks on every sequence of token groups up "
            "to a bound that the machine renders well-formed items exactly as documented and that output, work and stack are bounded by the input "
            "length (the pinned machine violates the bound on array(1000) with no elements - finding F9, repaired). Every explored input is displayed "
            "by the real code into a size-limited sink; generated, truncated, mutated and random inputs are validated by TLC against Diag / OutBound.",
    "design_ref": "DESIGN.md section 6, C19 and section 7 (F9)",
    "note": "Trusted: TLC; float-to-decimal formatting is Rust's `{:e}` on the bit pattern named by the specification.",
    "technique": "TLA+ spec of the notation (Display) and of the control-stack machine (DisplayM) + TLC refinement check + replay + trace validation",
    "engine": "tlc+vh",
}

CHECKS["C12"] = {
    "category": "model_checking",
    "text": "spec/Half.tla transcribes IEEE 754 binary16/32/64 widening and round-to-nearest-even narrowing on bit fields; TLC enumerates all "
            "65536 half patterns and every rounding class of the narrowing and checks invariants that do not share the operators' code path (exact "
            "on the image of widening, bracketing by the neighbouring halves, monotonicity, overflow to infinity, NaN to NaN). Every enumerated case "
            "is replayed on Encoder::f16/f32 and Decoder::f16/f32/f64; recorded encode/read-back calls over exponent boundaries, subnormals, "
            "neighbours of every half and random f32/f64 patterns are validated by TLC.",
    "design_ref": "DESIGN.md section 6, C12 and Appendix A.8",
    "note": "Also: the narrowing table - TLC prints one row per rounding class and checks constancy on the class; Encoder::f16 is run on every single-precision pattern of those classes (all 2^32 in thorough). Trusted: TLC, the TLA+ transcription of IEEE 754. NaN results are any NaN. The full 2^32 f32 sweep is not run through TLC.",
    "technique": "TLA+ spec of IEEE 754 half conversions (Half/Floats) + TLC enumeration with cross-check invariants + replay + trace validation",
    "engine": "tlc+vh",
}

CHECKS["C03"] = {
    "category": "model_checking",
    "text": "spec/Encoder.tla gives the bytes each Encoder method must append (RFC 8949 preferred heads) and a ghost nesting stack defining "
            "balanced call sequences; spec/CborData.tla is the independent reference encoder/decoder of the data model. TLC checks that for every "
            "call sequence up to a bound balanced <=> exactly one well-formed item and open => strict prefix, and that every single call is one "
            "preferred item carrying the value given. Every explored call and sequence is replayed on Encoder<Vec<u8>> (twice, for determinism); "
            "exhaustive 8/16-bit and boundary-dense/random 32/64-bit arguments, all 256 simple values and random call sequences are validated by TLC.",
    "design_ref": "DESIGN.md section 6, C03 and section 7 (F2)",
    "note": "The built-in Encode impls are judged on the typed events shared with C01 (conjunct enc), data::Token's impl on the token events of C11 (conjunct tokenc). Also: ArrayIter / MapIter under every kind of size hint (Encoder!IterBytes); a table-driven sweep of the 32-bit argument space against class rows emitted by TLC (MC_Tables). Trusted: TLC, the transcription of RFC 8949 section 3 and 4.1. Known finding: simple(24..=31). The built-in Encode impls are decided by the "
            "C01 check's events (bytes equal the reference encoding of the value).",
    "technique": "TLA+ spec of the Encoder as an append-only log with ghost nesting (Encoder/CborData) + TLC + replay + trace validation",
    "engine": "tlc+vh",
}

CHECKS["C11"] = {
    "category": "model_checking",
    "text": "spec/Token.tla defines the token stream of a byte string (a token is written as the Encoder call that produces it, so encoding a "
            "token sequence needs no second definition) and data-model equality of tokens. TLC checks on every byte string of token groups and "
            "every token sequence up to a bound: at most one token per byte, well-formed sequences tokenise completely, re-encoding yields the same "
            "items with shortest heads and is the identity on preferred input, encode-then-tokenise returns value-equal tokens. Every case is "
            "replayed on Tokenizer and Encoder::tokens; generated deep item sequences, mutations, random bytes, half patterns and random token "
            "sequences are validated by TLC.",
    "design_ref": "DESIGN.md section 6, C11",
    "note": "Trusted: TLC, the RFC 8949 transcription; signalling-NaN halves are compared as NaN only.",
    "technique": "TLA+ spec of the token stream (Token) over the Encoder/CborWire specs + TLC identities + replay + trace validation",
    "engine": "tlc+vh",
}

CHECKS["C04"] = {
    "category": "model_checking",
    "text": "spec/Decoder.tla, Floats.tla and C04.tla give every typed accessor as a total function (buf, pos) -> set of acceptable outcomes, "
            "including the strict-prefix/end-of-input rule and UTF-8 validation; spec/CborData.tla decodes the same bytes into data-model trees. "
            "TLC checks the two definitions against each other on every prefix of every string of head/string/float groups, and emits each "
            "accessor's expected outcome; all are replayed on the real Decoder (values, end positions, offsets of borrowed slices, error class on "
            "prefixes). Generated deep items with random head widths and framing are decoded through all 25 accessors and validated by TLC.",
    "design_ref": "DESIGN.md section 6, C04",
    "note": "Also: array_iter / map_iter and their context-taking forms array_iter_with / map_iter_with drained with an any-item element type (count, elements seen by the context, exact end behind the break); Decoder::probe(): the accessor's own outcome and the probing decoder left where it was (C04!ProbeExpect). Trusted: TLC, the RFC 8949 / RFC 3629 transcriptions. The ~110 target types: re-framed encodings of their values, the encoding of every value decoded as every other type (error or the same data item; Trace_Typed conjunct cross, Exact excludes sets, maps, f64, durations, ranges, Tag), strict prefixes decoded as the type (end-of-input class).",
    "technique": "TLA+ spec of the accessors as total outcome functions cross-checked against a data-model decoder + TLC + replay + trace validation",
    "engine": "tlc+vh",
}

CHECKS["C01"] = {
    "category": "exploration",
    "text": "spec/Builtin.tla describes every built-in impl by a wire descriptor written from its documentation (TypeTable: ~110 named "
            "instantiations) and gives the reference encoding EncV of a generic value tree. TLC emits reference encodings of boundary values, "
            "which the real code must decode to exactly that value, re-encode identically and size correctly; recorded round trips of "
            "boundary-first random values of every instantiation are validated by TLC (bytes = reference encoding, decode = value, exact "
            "consumption), as are re-framed encodings of the same item.",
    "design_ref": "DESIGN.md section 6, C01",
    "note": "data::Token is covered through the token events of C11 (conjunct tokrt: what comes back from the bytes Token's Encode wrote). The last value of every loop has 130 - 300 elements; a fatal signal in the code under test (double free ...) is reported as a violation with a witness. Exploration-grade: universal over each value space only by boundaries and sampling; compositions beyond the listed instantiations "
            "are not compiled. The harness projection is structural (no CBOR knowledge).",
    "technique": "TLA+ reference semantics of the built-in impls (Builtin) + TLC case emission and replay + trace validation of sampled round trips",
    "engine": "tlc+vh",
}

CHECKS["C07"] = {
    "category": "exploration",
    "text": "For every built-in instantiation (spec/Builtin.tla TypeTable) and every Token variant the harness records the bytes the Encode impl "
            "writes and the length the CborLen impl computes; TLC requires them to agree for every recorded value (trace spec Trace_Typed, "
            "conjunct `len`) and, for the replayed reference encodings of MC_C01, that the computed length equals the length of the reference "
            "encoding. Derived CborLen impls are covered through the derive harness (see the stage list of the evidence file).",
    "design_ref": "DESIGN.md section 6, C07 and section 7 (F3, F5, F8)",
    "note": "Exploration-grade: boundary-first sampling per instantiation. Fixed on the way: Token::cbor_len for F16 and Bytes.",
    "technique": "TLA+ reference encodings (Builtin/Token) + trace validation of (bytes written, length computed) pairs + replay of TLC-emitted cases",
    "engine": "tlc+vh",
}

CHECKS["C02"] = {
    "category": "model_checking",
    "text": "spec/C02.tla makes the Decoder an object (buf, pos) whose every public call is a total action; TLC explores every byte string up to "
            "a bound over a representative alphabet under short sequences of calls, set_position (also beyond the end) and probe with deadlock "
            "checking on, and every (input, position, entry point) is replayed. The sweep runs 27 accessors, 110 typed decodes, the tokenizer and "
            "the display on all 1- and 2-byte inputs and a 3-byte stratum (all 2^24 in thorough) under a panic boundary and a counting allocator; "
            "the oracle-free part of the invariant is evaluated on every call, violating events and a sample are validated by TLC against the full "
            "model. Type-directed mutations (one and two boundary head arguments, framing flips, truncation, splices) of valid encodings of every "
            "built-in instantiation, drop accounting and Size::head/tail are validated the same way.",
    "design_ref": "DESIGN.md section 6, C02 and section 7 (F1)",
    "note": "The sweep also runs generated items with boundary head arguments and huge declared lengths placed behind skip's switch into stack mode. Trusted: TLC; the in-harness monitor for the three oracle-free predicates. Not claimed: absence of undefined behaviour inside unsafe "
            "code, wall-clock work. Fixed on the way: Duration decode panic.",
    "technique": "TLA+ spec of the Decoder object with total actions + TLC (deadlock check) + replay + monitored sweep sampled into trace validation",
    "engine": "tlc+vh",
}

CHECKS["C08"] = {
    "category": "model_checking",
    "text": "spec/Derive.tla defines schemas (no names), the documented format DocEnc and the reader/writer projection Project; spec/MC_Derive.tla "
            "enumerates schema families x all values x compatible reader schemas and TLC checks DocWellFormed, SelfProject and CompatNeverFails. "
            "gen/schema2rs.py turns every emitted schema into a Rust type with the real derive macros (identifiers, declaration order and n/b "
            "spelling drawn from a seed), vh-derive replays every case. This check claims the documented wire format DocEnc of spec/Derive.tla: every enumerated schema is turned into a Rust type with the real #[derive(Encode)] and its output compared byte for byte.",
    "design_ref": "DESIGN.md section 6, C08 and section 7 (F4-F8)",
    "note": "Families also cover optional fields not spelled Option<T> (boxed, alias, type parameter), borrowing field types, codecs named as module or function by function, transparent codecs, wide indices, tagged / encoding-overriding unit variants; C09 adds every-container-indefinite and all-heads-wider framings and the error clauses (wrong / missing tag, missing mandatory field, unknown variant); C10 adds the writer type's real encoder (xdec), arbitrary-content unknown fields and indefinite writers; rustc-rejected generated types are left out with a note. Trusted: TLC, the schema-to-Rust generator. 693 generated types in quick. Seeded random wider-grammar schemas (gen/randschema.py) are validated by TLC through spec/Trace_Derive.tla.",
    "technique": "TLA+ spec of the derive wire format and compatibility projection (Derive) + TLC schema/value enumeration + code generation + replay on the real macros",
    "engine": "tlc+vh-derive",
}

CHECKS["C09"] = {
    "category": "model_checking",
    "text": "spec/Derive.tla defines schemas (no names), the documented format DocEnc and the reader/writer projection Project; spec/MC_Derive.tla "
            "enumerates schema families x all values x compatible reader schemas and TLC checks DocWellFormed, SelfProject and CompatNeverFails. "
            "gen/schema2rs.py turns every emitted schema into a Rust type with the real derive macros (identifiers, declaration order and n/b "
            "spelling drawn from a seed), vh-derive replays every case. This check claims round trip through the derived decoder: the documented bytes, a wider container head and an indefinite-length container must decode to the value with exact consumption; wrong inputs must fail.",
    "design_ref": "DESIGN.md section 6, C09 and section 7 (F4-F8)",
    "note": "Families also cover optional fields not spelled Option<T> (boxed, alias, type parameter), borrowing field types, codecs named as module or function by function, transparent codecs, wide indices, tagged / encoding-overriding unit variants; C09 adds every-container-indefinite and all-heads-wider framings and the error clauses (wrong / missing tag, missing mandatory field, unknown variant); C10 adds the writer type's real encoder (xdec), arbitrary-content unknown fields and indefinite writers; rustc-rejected generated types are left out with a note. Trusted: TLC, the schema-to-Rust generator. 693 generated types in quick. Seeded random wider-grammar schemas (gen/randschema.py) are validated by TLC through spec/Trace_Derive.tla.",
    "technique": "TLA+ spec of the derive wire format and compatibility projection (Derive) + TLC schema/value enumeration + code generation + replay on the real macros",
    "engine": "tlc+vh-derive",
}

CHECKS["C10"] = {
    "category": "model_checking",
    "text": "spec/Derive.tla defines schemas (no names), the documented format DocEnc and the reader/writer projection Project; spec/MC_Derive.tla "
            "enumerates schema families x all values x compatible reader schemas and TLC checks DocWellFormed, SelfProject and CompatNeverFails. "
            "gen/schema2rs.py turns every emitted schema into a Rust type with the real derive macros (identifiers, declaration order and n/b "
            "spelling drawn from a seed), vh-derive replays every case. This check claims the compatibility relation Project of spec/Derive.tla: for every enumerated (writer, reader) pair related by the documented compatible changes and every writer value, in both directions, the reader must obtain the projected value.",
    "design_ref": "DESIGN.md section 6, C10 and section 7 (F4-F8)",
    "note": "Families also cover optional fields not spelled Option<T> (boxed, alias, type parameter), borrowing field types, codecs named as module or function by function, transparent codecs, wide indices, tagged / encoding-overriding unit variants; C09 adds every-container-indefinite and all-heads-wider framings and the error clauses (wrong / missing tag, missing mandatory field, unknown variant); C10 adds the writer type's real encoder (xdec), arbitrary-content unknown fields and indefinite writers; rustc-rejected generated types are left out with a note. Trusted: TLC, the schema-to-Rust generator. 693 generated types in quick. Seeded random wider-grammar schemas (gen/randschema.py) are validated by TLC through spec/Trace_Derive.tla.",
    "technique": "TLA+ spec of the derive wire format and compatibility projection (Derive) + TLC schema/value enumeration + code generation + replay on the real macros",
    "engine": "tlc+vh-derive",
}

CHECKS["C17"] = {
    "category": "exploration",
    "text": "spec/Serde.tla describes serde types by descriptors over the serde data model and gives the representation documented for the bridge "
            "(SerEnc: structs as maps keyed by field name, unit variants as text, other variants as one-entry maps, None as null, unit as the empty "
            "array, unknown-length sequences and maps indefinite; internally / adjacently tagged, untagged and flattened forms as serde_derive lowers "
            "them), plus the alternative inputs a deserialiser of that shape must accept (wider heads, indefinite bodies, unknown fields). One "
            "description (gen/serde2rs.py) generates ~85 Rust types with the real serde derives and their descriptors. TLC checks that every "
            "representation is one well-formed item and emits (type, bytes, value) cases that the real bridge must deserialise to that value, consume "
            "exactly and serialise back to the reference; recorded round trips and random re-framings of random values are validated by TLC.",
    "design_ref": "DESIGN.md section 6, C17",
    "note": "Exploration-grade: the type family is fixed (generated), values are boundaries + sampling. Known findings: char and unit inside content "
            "that serde buffers (flatten, internally tagged, untagged) do not deserialise.",
    "technique": "TLA+ reference semantics of the bridge's representation (Serde/SerdeTable) + TLC case emission and replay on serde-derived types + trace validation of sampled round trips",
    "engine": "tlc+vh",
}

CHECKS["C18"] = {
    "category": "exploration",
    "text": "spec/Serde.tla embeds the built-in types both codecs know (Embed: 73 instantiations of integers, bool, char, floats, strings, unit, "
            "options, sequences, fixed arrays, tuples, maps and compositions) into the serde model; TLC proves on boundary values that the bridge's "
            "documented representation equals the native reference encoding byte for byte, and emits the common encoding and two re-framings of "
            "every value, which are replayed through both real decoders. Recorded events of random values (native bytes, bridge bytes, each decoded "
            "by the other side, a random re-framing decoded by both) are validated by TLC: identical bytes, the same value with exact consumption in "
            "both cross directions, and for re-framings that value or an error on each side.",
    "design_ref": "DESIGN.md section 6, C18",
    "note": "Shared types that borrow text (&str, Option<&str>, (u8, &str), Vec<&str>) and fixed arrays of 23 / 24 / 25 elements are included; the last value of every loop has 130 - 300 elements. Exploration-grade: boundary values + sampling per instantiation. Hash collections are compared as bags.",
    "technique": "TLA+ embedding of the shared types into the serde model (Serde!Embed) with an agreement invariant checked by TLC + replay through both decoders + trace validation",
    "engine": "tlc+vh",
}

CHECKS["C20"] = {
    "category": "exploration",
    "text": "spec/Cfg.tla states that observations of the same (operation, input) in two feature configurations are identical unless one of the "
            "four documented differences explains the configuration that lacks a feature, each anchored at the byte that triggers it: a no-alloc skip "
            "stopped behind an indefinite array/map head nested in a definite one, a type error reported at a half-precision item without half, a type "
            "error at an indefinite string in the bridge's self-describing path without alloc, collect_str without alloc. Six harness binaries "
            "({none, alloc, std} x {half, no half}) are built by separate cargo invocations and run one deterministic corpus through the accessors, "
            "typed decode / re-encode / length of every built-in instantiation, encoder call sequences, tokenizer, display and the bridge's typed, "
            "self-describing, ignoring and serialising paths; the merged transcripts are validated by TLC pair by pair.",
    "design_ref": "DESIGN.md section 6, C20",
    "note": "The corpus contains strings, arrays and maps with declared lengths 2^31 ... 2^64 - 1 (alone, followed by a few items, nested), and fixed-arity target types meet the structural mutations of their encodings systematically. Exploration-grade: a sampled corpus (about 85 000 operation-input pairs quick). Equality of two recorded observations is literal JSON "
            "equality computed while merging; the judgement of every difference is the specification's. Not observed: error message texts.",
    "technique": "TLA+ spec of the configuration-independence relation and its documented exceptions (Cfg) + trace validation of merged per-configuration transcripts of six separately built binaries",
    "engine": "tlc+vh",
}

NOT_YET = "check not built yet in this round (planned in DESIGN.md section 10); not claimed until it exists"
