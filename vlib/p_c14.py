"""C14 Framed blocking I/O round-trips under any fragmentation and detects truncation."""
from . import core

RCONF = {
    "quick": [("FramesA", 3, 2, 6), ("FramesB", 3, 2, 5), ("FramesC", 3, 1, 4)],
    "thorough": [("FramesA", 3, 3, 7), ("FramesB", 3, 2, 6), ("FramesC", 3, 2, 4), ("FramesB", 4, 2, 6)],
}
WCONF = {
    "quick": [("ValsA", 2, 2, 1), ("ValsB", 2, 2, 1)],
    "thorough": [("ValsA", 2, 3, 1), ("ValsB", 2, 3, 1), ("ValsA", 3, 2, 1)],
}


def run(ver):
    wd = core.workdir("C14")
    binp = core.cargo_build("vh")
    for frames, maxlen, maxintr, maxreads in RCONF[ver.tier]:
        tag = f"mc_c14r_{frames}_{maxlen}_{maxintr}_{maxreads}"
        res = core.run_tlc("MC_C14R", "MC_C14R.cfg", wd, tag=tag, coverage=True,
                           consts={"Frames": "<- " + frames, "MaxLen": str(maxlen), "MaxIntr": str(maxintr), "MaxReads": str(maxreads)})
        core.tlc_failure(res, tag)
        ver.add_mc(res, f"MC_C14R {frames} MaxLen={maxlen} MaxIntr={maxintr} MaxReads={maxreads}: every cut point x every deliver-k / interrupted / eof; 7 invariants")
        core.replay_cases(ver, binp, res["out_path"], wd, tag)
    for vals, maxlen, maxintr, maxfaults in WCONF[ver.tier]:
        tag = f"mc_c14w_{vals}_{maxlen}_{maxintr}_{maxfaults}"
        res = core.run_tlc("MC_C14W", "MC_C14W.cfg", wd, tag=tag, coverage=True,
                           consts={"WVals": "<- " + vals, "WMaxLen": str(maxlen), "MaxIntr": str(maxintr), "MaxFaults": str(maxfaults)})
        core.tlc_failure(res, tag)
        ver.add_mc(res, f"MC_C14W {vals} WMaxLen={maxlen} MaxIntr={maxintr} MaxFaults={maxfaults}: every accept-k / interrupted / zero / fail; 3 invariants")
        core.replay_cases(ver, binp, res["out_path"], wd, tag)
    core.validate_runs(ver, binp, "c14r", "Trace_C14R", wd, stage="runs_reader")
    core.validate_runs(ver, binp, "c14w", "Trace_C14W", wd, stage="runs_writer")
    ver.assumptions += ["TLC evaluates the TLA+ operators correctly",
                        "std::io::Read::read_exact and Write::write_all behave as documented (loops that retry Interrupted)",
                        "after invalid_len or unexpected_eof the reader is out of sync with the stream and the model stops",
                        "allocation bound: no single allocation request during a read() exceeds 2*max_len + 4 KiB (Vec growth slack); frames claiming 0x7ffffff0 bytes make a reader that allocates before checking visible"]
    return ver.finish("model_checking",
                      "MC: reader model over every cut point and every fragmentation / Interrupted placement of streams of <= 4 frames, writer model over every "
                      "short-write / Interrupted / zero / fail schedule; S->I: the schedule of every explored transition replayed on the real Reader / Writer "
                      "(result sequence, bytes consumed, exact sink bytes, allocation bound); I->S: seeded random runs (up to 60 frames quick / 200 thorough, "
                      "payloads to 300 bytes, random fragmentation and Interrupted) validated event by event",
                      checker_cmd="tlc MC_C14R/MC_C14W + vh cases + tlc Trace_C14R/Trace_C14W per run")


def replay(doc):
    return core.generic_replay(doc)
