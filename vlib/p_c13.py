"""C13 Bounded sinks: encoding succeeds iff it fits, never overruns, sink-independent."""
from . import core


def run(ver):
    wd = core.workdir("C13")
    binp = core.cargo_build("vh")
    maxcap, maxcalls = {"quick": ("4", "4"), "thorough": ("6", "5")}[ver.tier]
    res = core.run_tlc("MC_C13", "MC_C13.cfg", wd, consts={"MaxCap": maxcap, "MaxCalls": maxcalls}, timeout=3000, coverage=True)
    core.tlc_failure(res, "MC_C13")
    ver.add_mc(res, f"MC_C13 MaxCap={maxcap} MaxCalls={maxcalls}: every sequence of write_all calls with lengths 0..cap+1 on six sink kinds; "
                    "invariants PositionLaw WholeChunks RefusedIffNoFit")
    core.replay_cases(ver, binp, res["out_path"], wd, "mc_c13")
    core.validate_traces(ver, binp, "c13", "Trace_C13", wd, gen_args=["4000"])
    core.run_tlapm(ver, "SinksProof", wd, "the position law of the length abstraction of a bounded sink holds for every capacity and every sequence of writes (unbounded)")
    ver.assumptions += ["TLC evaluates the TLA+ operators correctly",
                        "the reference bytes of a value are those the same encoder writes into a Vec (sink independence); their correctness is C03's subject",
                        "canaries: 16 bytes either side of borrowed slices; owned sinks (array, boxed slice) are checked for untouched filler beyond the position",
                        "Cursor<[u8; N]> is instantiated for 44 values of N (0..=33 and selected larger ones)"]
    return ver.finish("model_checking",
                      "MC + S->I: all raw write_all sequences (<= MaxCalls calls, lengths 0..cap+1, cap <= MaxCap) on &mut [u8], Cursor<&mut [u8]>, Cursor<[u8;N]>, "
                      "Cursor<Box<[u8]>>, Vec<u8>, Writer<Vec<u8>> replayed on the real sinks with canaries; I->S: token sequences of generated items (incl. ones "
                      "ending in a zero-length write) encoded into every sink kind at every capacity 0..=len+1, validated against EncodeOK / prefix / position laws",
                      checker_cmd="tlc MC_C13 + vh cases + tlc Trace_C13")


def replay(doc):
    return core.generic_replay(doc)
