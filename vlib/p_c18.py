"""C18 serde bridge and native traits interoperate on the shared data model."""
from . import core


def run(ver):
    wd = core.workdir("C18")
    binp = core.cargo_build("vh")
    res = core.run_tlc("MC_C18", "MC_C18.cfg", wd, timeout=3000)
    core.tlc_failure(res, "MC_C18")
    ver.add_mc(res, "MC_C18: shared types x boundary values: the bridge's documented representation of the embedded value equals the native reference "
                    "encoding (Agree); re-framings denote the same item")
    core.replay_cases(ver, binp, res["out_path"], wd, "mc_c18")
    core.validate_traces(ver, binp, "c18", "Trace_Serde", wd, gen_args=["3000"])
    ver.assumptions += ["TLC evaluates the TLA+ operators correctly",
                        "the harness projection of Rust values to generic value trees is structural; unordered collections are projected sorted",
                        "the same collection instance iterates in the same order for both encoders (hash collections)"]
    return ver.finish("exploration",
                      "MC: for 73 shared instantiations and boundary values the two reference semantics (Builtin!EncV from the native impls' documentation, "
                      "Serde!SerEnc from the Serializer's) agree byte for byte. S->I: the common encoding of every such value through both decoders (value, "
                      "exact consumption), and a wider-head and an indefinite re-framing through both (that value or an error). I->S: per type 50 (quick) / 3000 "
                      "(thorough) random values: native bytes = bridge bytes = reference, each decoded by the other side, and a random re-framing decoded by "
                      "both; distinct = values drawn",
                      checker_cmd="tlc MC_C18 + vh cases + tlc Trace_Serde")


def replay(doc):
    return core.generic_replay(doc)
