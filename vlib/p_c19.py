"""C19 Diagnostic display is total, size-bounded and follows the documented notation."""
from . import core


def run(ver):
    wd = core.workdir("C19")
    binp = core.cargo_build("vh")
    for rich, mt in (("FALSE", {"quick": "4", "thorough": "5"}[ver.tier]), ("TRUE", {"quick": "3", "thorough": "4"}[ver.tier])):
        tag = f"mc_c19_rich{rich}_{mt}"
        res = core.run_tlc("MC_C19", "MC_C19.cfg", wd, tag=tag, consts={"Rich": rich, "MaxTok": mt}, timeout=3000, coverage=(ver.tier == "quick"))
        core.tlc_failure(res, tag)
        ver.add_mc(res, f"MC_C19 Rich={rich} MaxTok={mt}: control-stack machine (repaired) on every token-group sequence; invariants Exact OutputBound WorkBound StackBound")
        core.replay_cases(ver, binp, res["out_path"], wd, tag)
    core.validate_traces(ver, binp, "c19", "Trace_C19", wd, gen_args=["2000"])
    ver.assumptions += ["TLC evaluates the TLA+ operators correctly",
                        "scientific notation of floats is Rust's own `{:e}` applied to the bit pattern the specification names (not transcribed into TLA+)",
                        "the size bound checked is 32*len + 256 bytes; the output goes into a sink that refuses anything beyond it, so the check terminates on any code",
                        "work is bounded on the model (steps <= 16*len + 16); on the implementation only termination within the sink limit is observed"]
    return ver.finish("model_checking",
                      "MC: the control-stack machine over the token stream, on every sequence of <= MaxTok token groups (14 core shapes incl. array(1000), 30 with "
                      "the rich alphabet), refines the documented notation and the size/work/stack bounds; S->I: each such input displayed by the real code "
                      "(bound always, exact rendering when well-formed); I->S: generated items (depth 6, random widths/framing, floats), truncations, mutations, "
                      "random bytes and every head kind with extreme declared lengths, validated by TLC against Diag / OutBound",
                      checker_cmd="tlc MC_C19 (x2) + vh cases + tlc Trace_C19")


def replay(doc):
    return core.generic_replay(doc)
