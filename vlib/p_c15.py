"""C15 AsyncReader is cancellation-safe."""
from . import core

CONFIGS = {
    "quick": [("FramesA", 3, 2, 1, 6), ("FramesB", 4, 2, 1, 6), ("FramesC", 3, 3, 2, 4)],
    "thorough": [("FramesA", 3, 3, 2, 7), ("FramesB", 4, 3, 2, 7), ("FramesC", 3, 3, 2, 5), ("FramesC", 2, 3, 2, 5)],
}


def run(ver):
    wd = core.workdir("C15")
    binp = core.cargo_build("vh")
    for frames, maxlen, maxpend, maxerr, maxreads in CONFIGS[ver.tier]:
        tag = f"mc_c15_{frames}_{maxlen}_{maxpend}_{maxerr}_{maxreads}"
        res = core.run_tlc("MC_C15", "MC_C15.cfg", wd, tag=tag, timeout=3000, coverage=True,
                           consts={"Frames": "<- " + frames, "MaxLen": str(maxlen), "MaxPend": str(maxpend),
                                   "MaxErr": str(maxerr), "MaxReads": str(maxreads)})
        core.tlc_failure(res, tag)
        ver.add_mc(res, f"MC_C15 {frames} MaxLen={maxlen} MaxPend={maxpend} MaxErr={maxerr} MaxReads={maxreads}: every cut point x every "
                        "deliver/pending/fail/eof x resume/drop schedule; 8 safety invariants")
        core.replay_cases(ver, binp, res["out_path"], wd, tag)
    # liveness of the same actions (no state constraint, unbounded reads, fair source / executor, a caller that stops at a terminal result)
    for frames, maxlen in ([("FramesA", 3)] if ver.tier == "quick" else [("FramesA", 3), ("FramesB", 4), ("FramesC", 3)]):
        tag = f"mc_c15_live_{frames}"
        res = core.run_tlc("MC_C15", "MC_C15L.cfg", wd, tag=tag, timeout=3000, workers=6, consts={"Frames": "<- " + frames, "MaxLen": str(maxlen)})
        if not res["ok"]:
            text = open(res["out_path"], errors="replace").read()
            if "Temporal properties" in text and "violated" in text:
                ver.mismatch("MC liveness", {"fam": "aread", "name": "liveness", "config": frames, "obs": {"p": "temporal property violated in the model"}})
            else:
                core.tlc_failure(res, tag)
        ver.add_mc(res, f"MC_C15L {frames}: under fairness every read terminates, a terminal result is reached, and by then every deliverable frame was handed out "
                        "(EventuallyTerminal, AllDeliveredAtEnd, NoReadHangs)")
    core.validate_runs(ver, binp, "c15", "Trace_C15", wd)
    ver.assumptions += ["TLC evaluates the TLA+ operators correctly",
                        "the scripted AsyncRead and the hand-polled no-op-waker executor of the harness are faithful to futures-io semantics",
                        "a source outcome Deliver(k) may be consumed by the implementation in several reads; read-ahead beyond the current frame is outside the model",
                        "frame payloads are one CBOR unsigned integer (the frame id) plus identifying filler; decoding ignores trailing bytes"]
    return ver.finish("model_checking",
                      "MC: all schedules of the AsyncReader model (source: deliver k | pending | transient error | eof at every cut point; caller: start | "
                      "resume | drop) within the bounds; S->I: the schedule of every explored transition is replayed on the real AsyncReader with a scripted "
                      "source and the result sequence and bytes consumed compared; I->S: seeded random walks (up to 60 frames quick / 200 thorough, payloads "
                      "to 300 bytes) validated event by event against the same specification with all invariants on; distinct = distinct schedules / runs",
                      checker_cmd="tlc MC_C15 (x3) + vh cases + tlc Trace_C15 per run")


def replay(doc):
    return core.generic_replay(doc)
