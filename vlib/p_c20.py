"""C20 Same behaviour in every feature configuration, up to documented differences."""
import json
import os
import subprocess
from concurrent.futures import ThreadPoolExecutor
from . import core

CONFIGS = [("none", "bridge"), ("none+half", "bridge,half"), ("alloc", "bridge,alloc"), ("alloc+half", "bridge,alloc,half"),
           ("std", "bridge,std"), ("std+half", "bridge,std,half")]
FEAT = {n: {"alloc": "alloc" in f or "std" in f, "std": "std" in f, "half": "half" in f} for n, f in CONFIGS}


def build_all():
    """One harness binary per configuration, each in its own target directory (no feature unification across them)."""
    def one(cfg):
        name, feats = cfg
        return name, core.cargo_build("vh", features=feats.split(","), no_default=True, target_subdir="c20-" + name)
    with ThreadPoolExecutor(max_workers=3) as ex:
        return dict(ex.map(one, CONFIGS))


def project(cfg, obs, eq):
    return {"cfg": cfg, "alloc": FEAT[cfg]["alloc"], "std": FEAT[cfg]["std"], "half": FEAT[cfg]["half"], "p": obs.get("p", "?"),
            "cls": obs.get("cls") or "", "pos": obs.get("pos", 0) if isinstance(obs.get("pos", 0), int) else 0,
            "epos": obs.get("epos", -1) if isinstance(obs.get("epos", -1), int) else -1, "eq": eq}


def merge(corpus_path, outs, dest_dir, shard=20000):
    """Line-by-line merge of the transcripts: one event per corpus line with the projected observation of every configuration
    that ran it.  `eq` numbers the distinct full observations (literal equality of the recorded JSON documents)."""
    os.makedirs(dest_dir, exist_ok=True)
    obs = {}
    for cfg, path in outs.items():
        d = {}
        for line in open(path):
            r = json.loads(line)
            d[r["i"]] = r["obs"]
        obs[cfg] = d
    shards, cur, n, multi, full = [], None, 0, 0, {}
    for i, line in enumerate(open(corpus_path)):
        c = json.loads(line)
        by, seen = [], []
        for cfg, _ in CONFIGS:
            o = obs[cfg].get(i)
            if o is None:
                continue
            key = json.dumps(o, sort_keys=True)
            if key not in seen:
                seen.append(key)
            by.append(project(cfg, o, seen.index(key)))
        if not by:
            continue
        if len(by) > 1:
            multi += 1
        if len(seen) > 1:
            full[i] = {cfg: obs[cfg].get(i) for cfg, _ in CONFIGS if i in obs[cfg]}
        buf = c["in"].get("buf", c["in"].get("bytes", []))
        ev = {"i": i, "fam": c["fam"], "name": c["name"], "buf": buf, "pos0": c["in"].get("pos", 0), "by": by}
        if cur is None or n % shard == 0:
            if cur:
                cur.close()
            p = os.path.join(dest_dir, f"shard-{len(shards):04d}.ndjson")
            shards.append(p)
            cur = open(p, "w")
        cur.write(json.dumps(ev) + "\n")
        n += 1
    if cur:
        cur.close()
    return shards, n, multi, full


def run(ver):
    wd = core.workdir("C20")
    full_bin = core.cargo_build("vh")
    bins = build_all()
    t0 = __import__("time").time()
    corpus = os.path.join(wd, "corpus.ndjson")
    summ = core.run_harness(full_bin, ["c20corpus", ver.tier, str(ver.seed), corpus])
    # the specification's own cases for the bridge (every family type x boundary values x input modes, MC_C17) join the corpus:
    # every configuration must treat them alike
    res = core.run_tlc("MC_C17", "MC_C17.cfg", wd, timeout=3000)
    core.tlc_failure(res, "MC_C17")
    extra = 0
    with open(corpus, "a") as out:
        for payload in core.tlc_lines(res["out_path"], "CASE"):
            c = json.loads(core.parse_tla_string(payload))
            for fam in ("sde", "sser"):
                out.write(json.dumps({"fam": fam, "name": c["name"], "in": {"bytes": c["in"]["bytes"]}}) + "\n")
                extra += 1
    os.remove(res["out_path"])
    summ["lines"] += extra
    outs, ran = {}, {}
    for cfg, _ in CONFIGS:
        outs[cfg] = os.path.join(wd, f"out-{cfg}.ndjson")
        r = core.run_harness(bins[cfg], ["c20run", corpus, outs[cfg]])
        ran[cfg] = r["ran"]
    shards, n, multi, full = merge(corpus, outs, os.path.join(wd, "merged"))
    if multi == 0:
        raise core.ToolError("no operation ran in more than one configuration (vacuous)")
    ver.cov["stages"].append({"stage": "transcripts", "corpus_lines": summ["lines"], "ran_per_config": ran, "events": n,
                              "events_in_two_or_more_configs": multi, "events_with_differing_observations": len(full),
                              "wall_s": round(__import__("time").time() - t0, 1)})
    t0 = __import__("time").time()
    nv, mism = core.validate_shards("Trace_C20", "Trace_C20.cfg", shards, wd)
    if nv != n:
        raise core.ToolError(f"{n} merged events but {nv} validated")
    lines = open(corpus).read().splitlines()
    for m in mism:
        i = m["i"]
        c = json.loads(lines[i])
        item = {"fam": c["fam"], "name": c["name"], "in": c["in"], "why": m["why"], "configs": [m.get("a"), m.get("b")], "by": full.get(i),
                "obs": {"p": f"{m.get('a')}!={m.get('b')}"}}
        ver.mismatch("I->S merged transcripts", item, sigtext=f"{c['fam']}:{c['name']}:{m['why']}:{m.get('a')}:{m.get('b')}")
    ver.cov["traces_validated_against_impl"] += n
    ver.cov["evaluations"] += sum(ran.values())
    ver.cov["distinct_nontrivial"] += multi
    ver.cov["states"] += n
    ver.cov["transitions"] += n
    ver.cov["samples"] += [json.loads(open(shards[0]).readline())]
    ver.cov["stages"].append({"stage": "I->S Trace_C20 (every pair of configurations: same or documented difference)", "events_validated": n,
                              "mismatches": len(mism), "wall_s": round(__import__("time").time() - t0, 1)})
    ver.assumptions += ["TLC evaluates the TLA+ operators correctly",
                        "equality of two recorded observations is literal equality of their JSON documents (computed while merging); error messages, "
                        "the text behind the display's error marker and the element order of hash collections are not part of an observation",
                        "the six binaries are built by separate cargo invocations in separate target directories; the harness' own use of std and of "
                        "serde's std feature does not change minicbor's or minicbor-serde's cfg"]
    return ver.finish("exploration",
                      "one deterministic corpus (generated items incl. halves, nested indefinite containers and chunked strings, their mutations, prefixes, "
                      "random bytes; integer heads at every width; encodings, re-framings and mutations of random values of every built-in instantiation and "
                      "serde family type; encoder call sequences) is run by six separately built harness binaries ({none, alloc, std} x {half, no half}) through "
                      "accessors, typed decode + re-encode + length, tokenizer, display, and the bridge's typed / self-describing / ignoring / serialising paths; TLC "
                      "checks every pair of configurations on every (operation, input): identical observation (result kind, value, error class, decoder position, "
                      "reported error position) or a documented difference anchored at the byte that triggers it; distinct = (operation, input) pairs that ran in two "
                      "or more configurations",
                      checker_cmd="vh c20corpus + 6 x vh c20run + tlc Trace_C20")


def replay(doc):
    bins = build_all()
    item = doc["item"]
    line = json.dumps({"fam": item["fam"], "name": item["name"], "in": item["in"]})
    wd = core.workdir("C20-replay")
    cp = os.path.join(wd, "corpus.ndjson")
    open(cp, "w").write(line + "\n")
    for cfg, _ in CONFIGS:
        out = os.path.join(wd, f"out-{cfg}.ndjson")
        subprocess.run([bins[cfg], "c20run", cp, out], capture_output=True)
        txt = open(out).read().strip()
        print(f"{cfg:11s}", txt[:600] if txt else "(operation absent in this configuration)")
    return 0
