"""C02 Decoding untrusted bytes is total: no panic, no hang, bounded memory, in bounds."""
import json
import os
import shutil
import time
from . import core


def sweep(ver, binp, wd):
    t0 = time.time()
    tdir = os.path.join(wd, "sweep")
    summ = core.run_harness(binp, ["sweep", ver.tier, str(ver.seed), tdir], timeout=7200)
    shards = sorted(os.path.join(tdir, f) for f in os.listdir(tdir) if f.endswith(".ndjson"))
    n, mism = core.validate_shards("Trace_C02", "Trace_C02.cfg", shards, wd)
    if n != summ["events"]:
        raise core.ToolError(f"sweep: {summ['events']} events written but {n} validated")
    # the oracle-free monitor and TLC must agree on the violating events
    for v in summ["violations"]:
        ver.mismatch("I->S sweep (in-harness monitor: no panic / position bound / allocation bound)", v)
    for m in mism:
        ver.mismatch("I->S sweep", m)
    ver.cov["evaluations"] += summ["calls"]
    ver.cov["traces_validated_against_impl"] += n
    ver.cov["distinct_nontrivial"] += summ["inputs"]
    ver.cov["samples"] += summ["samples"][:2]
    ver.cov["stages"].append({"stage": "I->S sweep", "inputs": summ["inputs"], "calls_monitored": summ["calls"],
                              "monitor_violations": summ["monitor_violations"], "events_validated_by_tlc": n, "mismatches": len(mism),
                              "wall_s": round(time.time() - t0, 1)})
    shutil.rmtree(tdir, ignore_errors=True)


def run(ver):
    wd = core.workdir("C02")
    binp = core.cargo_build("vh")
    confs = {"quick": [("2", "2", "TRUE")], "thorough": [("3", "2", "TRUE"), ("2", "3", "FALSE")]}[ver.tier]
    for maxlen, maxcalls, small in confs:
        tag = f"mc_c02_{maxlen}_{maxcalls}_{small}"
        res = core.run_tlc("MC_C02", "MC_C02.cfg", wd, tag=tag, consts={"MaxLen": maxlen, "MaxCalls": maxcalls, "Small": small}, timeout=3400, deadlock=False, coverage=(ver.tier == "quick"))
        core.tlc_failure(res, tag)
        ver.add_mc(res, f"MC_C02 MaxLen={maxlen} MaxCalls={maxcalls} Small={small}: the Decoder object under every short sequence of calls / set_position / probe "
                        "(deadlock check on); invariants Total PosInv OkMoves BeyondFails")
        core.replay_cases(ver, binp, res["out_path"], wd, tag)
    sweep(ver, binp, wd)
    core.validate_traces(ver, binp, "c01mut", "Trace_C02", wd, stage="typed_mutations", gen_args=["1500"])
    ver.assumptions += ["TLC evaluates the TLA+ operators correctly",
                        "the oracle-free part of the invariant (no panic, position <= max(start, len), bytes requested <= 256*len + 16 KiB) is evaluated in the harness on "
                        "every call of the sweep; TLC re-checks every violating event and a seeded sample against the full model",
                        "the harness is built with overflow checks and debug assertions on, so arithmetic overflow is a panic",
                        "'never reads outside the input' is decided at the level of the cursor arithmetic and of the offsets of returned borrows; undefined behaviour inside "
                        "unsafe code is outside this technique (DESIGN.md section 8); work is observed as termination, not counted"]
    return ver.finish("model_checking",
                      "MC: every byte string up to MaxLen over a representative alphabet x every entry point x short call sequences with set_position (also beyond the end) and "
                      "probe; S->I: every (input, position, entry point) replayed; I->S: the sweep (all 1- and 2-byte inputs, all 3-byte inputs in thorough / 256x72x24 in quick) "
                      "x 27 accessors + 110 typed decodes + tokenizer + display, at offset 0 and at a random offset, monitored in-harness and sampled into TLC; type-directed "
                      "mutations of valid encodings of every built-in instantiation (boundary head arguments, definite<->indefinite, truncation, splice); drop accounting on "
                      "16 container shapes x failure at every element; Size::head/tail on every first byte",
                      checker_cmd="tlc -deadlock MC_C02 + vh cases + vh sweep + tlc Trace_C02")


def replay(doc):
    return core.generic_replay(doc)
