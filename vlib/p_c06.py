"""C06 skip() consumes exactly one data item."""
import json
import subprocess
from . import core


def run(ver):
    wd = core.workdir("C06")
    full = core.cargo_build("vh")
    none = core.cargo_build("vh", no_default=True, target_subdir="cfg-none")
    maxtok = {"quick": "5", "thorough": "6"}[ver.tier]
    richtok = {"quick": "3", "thorough": "4"}[ver.tier]
    for alloc, binp in (("TRUE", full), ("FALSE", none)):
        for rich, mt in (("FALSE", maxtok), ("TRUE", richtok)):
            tag = f"mc_c06_alloc{alloc}_rich{rich}"
            res = core.run_tlc("MC_C06", "MC_C06.cfg", wd, consts={"Alloc": alloc, "MaxTok": mt, "Rich": rich}, tag=tag, timeout=3000, coverage=(ver.tier == "quick"))
            core.tlc_failure(res, tag)
            ver.add_mc(res, f"MC_C06 Alloc={alloc} Rich={rich} MaxTok={mt} (skip step machine refines the item boundary; "
                            "invariants Refines SkipOK SkipAccepts SkipPrefix NoOverrun Bounded WorkLinear)")
            core.replay_cases(ver, binp, res["out_path"], wd, tag)
    core.validate_traces(ver, full, "c06", "Trace_C06", wd, stage="trace_alloc", gen_args=["3000"])
    core.validate_traces(ver, none, "c06", "Trace_C06", wd, stage="trace_noalloc", gen_args=["3000"])
    ver.assumptions += ["TLC evaluates the TLA+ operators correctly",
                        "the no-alloc build is the harness built with --no-default-features in its own target directory",
                        "a text string that is not valid UTF-8 makes an item invalid though well-formed: skip may fail on it (as full decoding does) or advance exactly",
                        "without alloc, the documented refusal is accepted whenever an array/map contains an indefinite array/map",
                        "work bound is checked on the model (steps <= len+1); on the implementation only termination is observed"]
    return ver.finish("model_checking",
                      "MC: every token sequence up to MaxTok over the 12 head kinds (and up to a shorter bound over 26 shapes incl. strings, wide heads, floats), "
                      "both feature variants, step machine checked against the RFC item boundary; S->I: every such input skipped by the real decoder in the "
                      "alloc and the no-alloc build; I->S: random trees (depth 8, <= 200 nodes, random widths/framing/bad UTF-8) x 4 suffixes, prefixes, mutations, "
                      "chains to depth 1000 (4000 thorough), plus full decoding of the same item; distinct = distinct inputs",
                      checker_cmd="tlc MC_C06 (x4) + vh cases (full, cfg-none) + tlc Trace_C06")


def replay(doc):
    c = doc["item"].get("case", doc["item"])
    noalloc = c.get("cfg") == "none" or "allocFALSE" in doc.get("stage", "")
    binp = core.cargo_build("vh", no_default=True, target_subdir="cfg-none") if noalloc else core.cargo_build("vh")
    r = subprocess.run([binp, "one", c["fam"], c["name"], json.dumps(c["in"])], capture_output=True, text=True)
    print("observed now :", r.stdout.strip())
    print("recorded obs :", json.dumps(doc["item"].get("obs", c.get("obs"))))
    if "exp" in c:
        print("specification:", json.dumps(c["exp"]))
    return 0
