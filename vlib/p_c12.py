"""C12 Floating-point values survive bit-exactly; half precision converts per IEEE 754."""
from . import core


def run(ver):
    wd = core.workdir("C12")
    binp = core.cargo_build("vh")
    res = core.run_tlc("MC_C12", "MC_C12.cfg", wd, consts={"Tier": f'"{ver.tier}"'}, timeout=3000)
    core.tlc_failure(res, "MC_C12")
    ver.add_mc(res, "MC_C12: all 65536 half patterns, stratified singles over every rounding class; invariants ExactOnImage NaNStaysNaN BytesRoundTrip Overflow Bracket Monotone")
    core.replay_cases(ver, binp, res["out_path"], wd, "mc_c12")
    core.validate_traces(ver, binp, "c12", "Trace_C12", wd, gen_args=["20000"])
    ver.assumptions += ["TLC evaluates the TLA+ operators correctly",
                        "NaN results of widening / narrowing are accepted as any NaN of the right width (payload and quiet bit not pinned)",
                        "not all 2^32 single patterns go through TLC: every (sign, exponent, leading 10 mantissa bits) x 6 tail patterns in the thorough tier, a stratum in quick, "
                        "plus neighbours of every half value and seeded random patterns"]
    return ver.finish("model_checking",
                      "MC + S->I: all 2^16 half patterns decoded through f16()/f32()/f64() (and refused when presented as a wider float to a narrower accessor), "
                      "narrowing over sign x exponent x leading mantissa x tail classes, each replayed on Encoder::f16/f32 and Decoder::f16/f32/f64; I->S: f32/f64 "
                      "bit patterns (all exponents x boundary mantissas, neighbours of every half, f32-representable doubles, random) encoded and read back "
                      "through every accessor; distinct = distinct bit patterns",
                      checker_cmd="tlc MC_C12 + vh cases + tlc Trace_C12")


def replay(doc):
    return core.generic_replay(doc)
