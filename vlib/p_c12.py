"""C12 Floating-point values survive bit-exactly; half precision converts per IEEE 754."""
import json
import os
import time
from . import core


def narrowing_sweep(ver, binp, wd, tlc_out):
    """DESIGN.md section 8: the rows TLC printed for the rounding classes (all of them in thorough: 2 x 256 x 1024 x 4) become a binary table; the
    harness runs Encoder::f16 on every single-precision pattern whose class has a row (all 2^32 in thorough) and compares with the row."""
    import struct
    t0 = time.time()
    table = bytearray(b"\xff\xff" * (2 * 256 * 1024 * 4))
    rows = 0
    with open(tlc_out, errors="replace") as f:
        for line in f:
            if line.startswith('<<"TBL", '):
                s_, e_, c_, tc, h = (int(x) for x in line[9:].rstrip().rstrip(">").split(", "))
                ix = ((s_ * 256 + e_) * 1024 + c_) * 4 + tc
                struct.pack_into("<H", table, 2 * ix, 0xfffe if h == 65535 else h)
                rows += 1
    os.remove(tlc_out)
    if rows == 0:
        raise core.ToolError("MC_C12 printed no table rows")
    tp = os.path.join(wd, "f16table.bin")
    open(tp, "wb").write(table)
    out = os.path.join(wd, "sweepf16.json")
    summ = core.run_harness(binp, ["sweepf16", tp, out], timeout=7200)
    doc = json.load(open(out))
    for m in doc["mismatches"]:
        ver.mismatch("S->I narrowing sweep", {"fam": "sweepf16", "name": "f16", "in": m, "obs": {"p": "differs-from-class-row"}})
    ver.cov["evaluations"] += summ["narrowed"]
    ver.cov["traces_validated_against_impl"] += summ["narrowed"]
    ver.cov["stages"].append({"stage": "S->I narrowing sweep (class rows of MC_C12 x every single-precision pattern of those classes)", "class_rows": rows,
                              "patterns_narrowed": summ["narrowed"], "mismatches": len(doc["mismatches"]), "wall_s": round(time.time() - t0, 1)})
    os.remove(tp)


def run(ver):
    wd = core.workdir("C12")
    binp = core.cargo_build("vh")
    res = core.run_tlc("MC_C12", "MC_C12.cfg", wd, consts={"Tier": f'"{ver.tier}"'}, timeout=3000)
    core.tlc_failure(res, "MC_C12")
    ver.add_mc(res, "MC_C12: all 65536 half patterns, stratified singles over every rounding class; invariants ExactOnImage NaNStaysNaN BytesRoundTrip Overflow Bracket Monotone")
    res_out = res["out_path"] + ".keep"
    os.link(res["out_path"], res_out)
    core.replay_cases(ver, binp, res["out_path"], wd, "mc_c12")
    core.validate_traces(ver, binp, "c12", "Trace_C12", wd, gen_args=["20000"])
    narrowing_sweep(ver, binp, wd, res_out)
    ver.assumptions += ["TLC evaluates the TLA+ operators correctly",
                        "NaN results of widening / narrowing are accepted as any NaN of the right width (payload and quiet bit not pinned)",
                        "not all 2^32 single patterns go through TLC: every (sign, exponent, leading 10 mantissa bits) x 6 tail patterns in the thorough tier, a stratum in quick, "
                        "plus neighbours of every half value and seeded random patterns"]
    return ver.finish("model_checking",
                      "MC + S->I: all 2^16 half patterns decoded through f16()/f32()/f64() (and refused when presented as a wider float to a narrower accessor), "
                      "narrowing over sign x exponent x leading mantissa x tail classes, each replayed on Encoder::f16/f32 and Decoder::f16/f32/f64; I->S: f32/f64 "
                      "bit patterns (all exponents x boundary mantissas, neighbours of every half, f32-representable doubles, random) encoded and read back "
                      "through every accessor; distinct = distinct bit patterns",
                      checker_cmd="tlc MC_C12 + vh cases + tlc Trace_C12")


def replay(doc):
    return core.generic_replay(doc)
