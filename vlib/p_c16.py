"""C16 AsyncWriter delivers whole frames in order under short writes and cancel+sync."""
from . import core

CONFIGS = {
    # (Vals, MaxLen, MaxPend, MaxErr, MaxSyncs, OnlyCompliant)
    "quick": [("ValsA", 2, 2, 1, 3, "TRUE"), ("ValsB", 2, 2, 1, 2, "FALSE"), ("ValsC", 3, 1, 2, 3, "TRUE")],
    "thorough": [("ValsA", 2, 2, 2, 4, "TRUE"), ("ValsA", 2, 2, 1, 3, "FALSE"), ("ValsB", 2, 3, 2, 3, "FALSE"), ("ValsC", 3, 2, 2, 4, "TRUE")],
}


def run(ver):
    wd = core.workdir("C16")
    binp = core.cargo_build("vh")
    for vals, maxlen, maxpend, maxerr, maxsyncs, only in CONFIGS[ver.tier]:
        tag = f"mc_c16_{vals}_{maxlen}_{maxpend}_{maxerr}_{maxsyncs}_{only}"
        res = core.run_tlc("MC_C16", "MC_C16.cfg", wd, tag=tag, timeout=3000, coverage=True,
                           consts={"Vals": "<- " + vals, "MaxLen": str(maxlen), "MaxPend": str(maxpend), "MaxErr": str(maxerr),
                                   "MaxSyncs": str(maxsyncs), "OnlyCompliant": only})
        core.tlc_failure(res, tag)
        ver.add_mc(res, f"MC_C16 {vals} MaxLen={maxlen} MaxPend={maxpend} MaxErr={maxerr} MaxSyncs={maxsyncs} OnlyCompliant={only}: every "
                        "accept-k/zero/pending/fail x write/sync/resume/drop schedule; 5 invariants (conditional on the compliance ghost)")
        core.replay_cases(ver, binp, res["out_path"], wd, tag)
    # liveness of the same actions: a compliant caller that syncs whenever a frame is waiting, a sink that eventually accepts bytes
    for vals in (["ValsA"] if ver.tier == "quick" else ["ValsA", "ValsB", "ValsC"]):
        tag = f"mc_c16_live_{vals}"
        res = core.run_tlc("MC_C16", "MC_C16L.cfg", wd, tag=tag, timeout=3000, workers=6, consts={"Vals": "<- " + vals, "MaxLen": "2"})
        if not res["ok"]:
            text = open(res["out_path"], errors="replace").read()
            if "Temporal properties" in text and "violated" in text:
                ver.mismatch("MC liveness", {"fam": "awrite", "name": "liveness", "config": vals, "obs": {"p": "temporal property violated in the model"}})
            else:
                core.tlc_failure(res, tag)
        ver.add_mc(res, f"MC_C16L {vals}: under fairness every future completes and eventually the sink holds exactly the frames of all accepted values "
                        "(EventuallyAllInSink, NoFutureHangs)")
    core.validate_runs(ver, binp, "c16", "Trace_C16", wd, tool_invariants=("CallerCompliant",))
    ver.assumptions += ["TLC evaluates the TLA+ operators correctly",
                        "the scripted AsyncWrite and the hand-polled no-op-waker executor of the harness are faithful to futures-io semantics",
                        "compliant caller: after a write that did not return Ok while a frame was armed (dropped, or failed in the sink), sync completes before the next write",
                        "only schedules of compliant callers are replayed; the behaviour seen by non-compliant callers (documented discard-on-rewrite) is modelled but not demanded"]
    return ver.finish("model_checking",
                      "MC: all schedules of the AsyncWriter model (sink: accept k | accept 0 | pending | transient error; caller: write next value | sync | "
                      "resume | drop; values incl. one that fails to encode and one above max_len) within the bounds; S->I: the schedule of every explored "
                      "transition with a compliant caller is replayed on the real AsyncWriter and results + exact sink bytes compared; I->S: seeded random walks "
                      "of a compliant caller (up to 60 values quick / 200 thorough, payloads to 300 bytes) validated event by event, final sink bytes included",
                      checker_cmd="tlc MC_C16 (x3) + vh cases + tlc Trace_C16 per run")


def replay(doc):
    return core.generic_replay(doc)
