"""C17 serde bridge round-trips the serde data model with the documented representation."""
from . import core


def run(ver):
    wd = core.workdir("C17")
    binp = core.cargo_build("vh")
    res = core.run_tlc("MC_C17", "MC_C17.cfg", wd, timeout=3000)
    core.tlc_failure(res, "MC_C17")
    ver.add_mc(res, "MC_C17: serde type family x boundary values x input modes (reference, wider heads, indefinite bodies, unknown fields); "
                    "every representation is one well-formed item, the modes denote the same data item")
    core.replay_cases(ver, binp, res["out_path"], wd, "mc_c17")
    core.validate_traces(ver, binp, "c17", "Trace_Serde", wd, gen_args=["4000"], only_why={"ser", "enc", "rt", "reenc", "alt"})
    ver.assumptions += ["TLC evaluates the TLA+ operators correctly",
                        "serde_derive lowers the enum representations and flatten to Serializer calls as its documentation says (spec/Serde.tla header)",
                        "the harness projection of Rust values to generic value trees is structural; the family is generated from one description "
                        "(gen/serde2rs.py) into the Rust types and the descriptors"]
    return ver.finish("exploration",
                      "S->I: for each of the ~85 types of the family (every Serializer/Deserializer method, all four enum representations, flatten, "
                      "unknown-length sequences and maps) TLC emits the documented representation of boundary values in five input modes; the bridge must "
                      "deserialise each to that value consuming it exactly and serialise the value to the reference bytes. I->S: per type 40 (quick) / 1200 "
                      "(thorough) random values: the bytes written must be the documented representation and deserialise back to an equal value; a randomly "
                      "re-framed encoding yields that value or an error; distinct = values drawn",
                      checker_cmd="tlc MC_C17 + vh cases + tlc Trace_Serde")


def replay(doc):
    return core.generic_replay(doc)
