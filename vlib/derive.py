"""Derive machinery shared by C07 (derived part), C08, C09, C10: run MC_Derive, turn the emitted schemas into Rust types with
the real derive macros, build the derive harness, replay every case, classify mismatches by conjunct."""
import hashlib
import json
import os
import sys
import time

from . import core

sys.path.insert(0, os.path.join(core.VERIF, "gen"))
import schema2rs  # noqa: E402
import randschema  # noqa: E402

GEN_RS = os.path.join(core.HARNESS, "vh-derive", "src", "gen_types.rs")

NESTED_DEFS = None


DERIVE_CAP = 6000


def nested_defs():
    """The predefined nested types, as schemas (must agree with spec/Derive.tla: they are emitted by TLC too)."""
    F = lambda idx, opt, tag, ty: {"idx": idx, "opt": opt, "tag": tag, "ty": ty, "skip": False}
    S = lambda enc, fields: {"kind": "struct", "enc": enc, "tag": -1, "transparent": False, "shape": "named", "fields": fields}
    V = lambda idx, enc, shape, fields: {"idx": idx, "enc": enc, "tag": -1, "shape": shape, "fields": fields}
    E = lambda io, vs: {"kind": "enum", "enc": "array", "tag": -1, "index_only": io, "variants": vs}
    return {
        "InA": S("array", [F(0, False, -1, "u8"), F(1, True, -1, "u8")]),
        "InM": S("map", [F(0, False, -1, "u8"), F(1, True, -1, "u8")]),
        "E2": E(False, [V(0, "array", "unit", []), V(1, "array", "tuple", [F(0, False, -1, "u8")])]),
        "E2x": E(False, [V(0, "array", "unit", []), V(1, "array", "tuple", [F(0, False, -1, "u8")]),
                         V(2, "map", "named", [F(0, True, -1, "u8"), F(1, False, -1, "str")])]),
        "E2u": E(False, [V(0, "array", "named", [F(0, True, -1, "u8"), F(1, True, -1, "str")]), V(1, "array", "tuple", [F(0, False, -1, "u8")])]),
        "E2m": E(False, [V(0, "map", "unit", []), V(1, "array", "tuple", [F(0, False, -1, "u8")])]),
        "E2mu": E(False, [V(0, "map", "named", [F(0, True, -1, "u8"), F(1, True, -1, "str")]), V(1, "array", "tuple", [F(0, False, -1, "u8")])]),
        "E2a": {"kind": "enum", "enc": "map", "tag": -1, "index_only": False, "variants": [V(0, "array", "unit", []), V(1, "map", "tuple", [F(0, False, -1, "u8")])]},
        "E2au": {"kind": "enum", "enc": "map", "tag": -1, "index_only": False, "variants": [V(0, "array", "tuple", [F(0, True, -1, "u8")]), V(1, "map", "tuple", [F(0, False, -1, "u8")])]},
        "Eu": E(False, [V(0, "array", "unit", []), V(1, "array", "unit", [])]),
        "Eux": E(False, [V(0, "array", "unit", []), V(1, "array", "unit", []), V(2, "array", "unit", []), V(3, "array", "tuple", [F(0, False, -1, "u8")])]),
        "Io": E(True, [V(0, "array", "unit", []), V(1, "array", "unit", [])]),
        "Iox": E(True, [V(0, "array", "unit", []), V(1, "array", "unit", []), V(7, "array", "unit", [])]),
    }


_cache = {}


def prepare(ver, wd):
    """MC_Derive -> cases with schema ids, generated types, built harness.  Returns (binary, cases path, MC result)."""
    key = (ver.tier,)
    if key in _cache:
        return _cache[key]
    res = core.run_tlc("MC_Derive", "MC_Derive.cfg", wd, consts={"Tier": f'"{ver.tier}"'}, timeout=3400)
    core.tlc_failure(res, "MC_Derive")
    raw = os.path.join(wd, "derive.raw.ndjson")
    n = core.extract_cases(res["out_path"], raw)
    if n == 0:
        raise core.ToolError("MC_Derive emitted no cases")
    # schema ids are assigned in canonical order so that the generated source does not depend on TLC's worker interleaving
    keys = {}
    for line in open(raw):
        c = json.loads(line)
        keys.setdefault(schema2rs.canon(c["in"]["schema"]), c["in"]["schema"])
        if "wschema" in c["in"]:
            keys.setdefault(schema2rs.canon(c["in"]["wschema"]), c["in"]["wschema"])
    # rustc cannot take every definition of the thorough model in one crate (34 000 types, 300 000 lines: killed after two hours):
    # beyond DERIVE_CAP the replayed definitions are a seeded hash sample of the model's, a different one for every seed; the
    # invariants of MC_Derive are evaluated by TLC on all of them regardless
    total_mc = len(keys)
    if total_mc > DERIVE_CAP:
        import hashlib
        def h(k):
            return int(hashlib.sha1(f"{ver.seed}:{k}".encode()).hexdigest()[:8], 16)
        kept = set(sorted(keys, key=h)[:DERIVE_CAP])
        keys = {k: v for k, v in keys.items() if k in kept}
        ver.notes.append(f"derive: S->I replays {DERIVE_CAP} of the {total_mc} type definitions of the thorough model (hash sample seeded by the run's seed) "
                         "together with every case that involves only those; the model's own invariants are checked on all of them")
    mc_keys = set(keys)
    # seeded random schemas from the wider grammar join the generated types (I->S, validated by TLC on recorded events)
    nsch, nvals, npairs = (400, 12, 250) if ver.tier == "thorough" else (90, 8, 50)
    rschemas, rt, compat = randschema.generate(ver.seed, nsch, nvals, npairs)
    for s_ in rschemas:
        keys.setdefault(schema2rs.canon(s_), s_)
    order = sorted(keys)
    ids = {k: i for i, k in enumerate(order)}
    rcases = os.path.join(wd, "derive.random.ndjson")
    with open(rcases, "w") as out:
        for si, v in rt:
            out.write(json.dumps({"name": "rt", "sid": ids[schema2rs.canon(rschemas[si])], "in": {"schema": rschemas[si], "val": v}}) + "\n")
        for wi, ri, v in compat:
            out.write(json.dumps({"name": "compat", "sid": ids[schema2rs.canon(rschemas[ri])], "wsid": ids[schema2rs.canon(rschemas[wi])],
                                  "in": {"schema": rschemas[ri], "wschema": rschemas[wi], "val": v}}) + "\n")
    schemas = [keys[k] for k in order]
    cases = os.path.join(wd, "derive.cases.ndjson")
    with open(cases, "w") as out:
        n = 0
        for line in open(raw):
            c = json.loads(line)
            k1 = schema2rs.canon(c["in"]["schema"])
            k2 = schema2rs.canon(c["in"]["wschema"]) if "wschema" in c["in"] else None
            if k1 not in mc_keys or (k2 is not None and k2 not in mc_keys):
                continue
            c["sid"] = ids[k1]
            if k2 is not None:
                c["wsid"] = ids[k2]
            out.write(json.dumps(c) + "\n")
            n += 1
    os.remove(raw)
    excluded = set()
    for attempt in range(4):
        src = schema2rs.generate(schemas, "minicbor-verif", nested_defs(), exclude=excluded)
        old = open(GEN_RS).read() if os.path.exists(GEN_RS) else ""
        if src != old:
            open(GEN_RS, "w").write(src)
            core.log(f"[derive] generated {len(schemas) - len(excluded)} types -> {GEN_RS}")
        try:
            core._built.discard(("vh-derive", (), False, None))
            binp = core.cargo_build("vh-derive")
            break
        except core.ToolError:
            # which generated types does rustc reject?  (a change to the macros can make the derived code of some definitions
            # uncompilable; the others are still evaluated, the rejected ones are reported)
            bad = uncompilable_sids(src)
            if not bad or bad <= excluded or attempt == 3:
                raise
            excluded |= bad
            core.log(f"[derive] {len(bad)} generated types do not compile against this repository; retrying without them")
    if excluded:
        ver.notes.append(f"derive: the derived code of {len(excluded)} of {len(schemas)} generated type definitions does not compile against this repository "
                         f"(e.g. {json.dumps(schemas[sorted(excluded)[0]])[:300]}); they are left out of this run")
        # restore the committed source for the next run on an unchanged tree
        _cache[("excluded",)] = excluded
    _cache[key] = (binp, cases, res, len(schemas), n)
    _cache[("random",) + key] = (rcases, len(rschemas), len(rt) + len(compat))
    return _cache[key]


def uncompilable_sids(src):
    """Run cargo once more for its diagnostics and map every error location in gen_types.rs to the generated type it lies in."""
    import re
    import subprocess
    r = subprocess.run(["cargo", "build", "--offline", "-q", "-p", "vh-derive", "--message-format=short"], cwd=core.HARNESS, capture_output=True, text=True,
                       env=dict(os.environ, CARGO_NET_OFFLINE="true"))
    lines = src.splitlines()
    starts = [(i + 1, int(l.split()[2])) for i, l in enumerate(lines) if l.startswith("// @sid ") and l.split()[2] != "end"]
    end = next((i + 1 for i, l in enumerate(lines) if l.startswith("// @sid end")), len(lines))
    bad = set()
    for m in re.finditer(r"gen_types\.rs:(\d+):\d+: error", r.stderr):
        ln = int(m.group(1))
        if ln >= end:
            continue
        cur = None
        for start, sid in starts:
            if start <= ln:
                cur = sid
            else:
                break
        if cur is not None:
            bad.add(cur)
    return bad


WHY_OF = {"C08": {"bytes"}, "C07": {"len"}, "C09": {"dec:same", "dec:xsame", "dec:wider", "dec:indef", "dec:indefall", "dec:wideall", "dec:badtag", "dec:missing", "dec:unkvar", "panic"}, "C10": {"dec:fwd", "dec:bwd", "dec:xfwd", "dec:xbwd", "dec:fwdany"}}


def replay(ver, wd, only):
    """Replay all derive cases; keep the mismatches whose conjunct belongs to this property."""
    t0 = time.time()
    binp, cases, res, ntypes, ncases = prepare(ver, wd)
    ver.add_mc(res, f"MC_Derive Tier={ver.tier}: {ntypes} schemas x all values, compatible (writer, reader) pairs; invariants DocWellFormed SelfProject CompatNeverFails")
    mm = os.path.join(wd, "derive.mismatch.ndjson")
    summ = core.run_harness(binp, ["cases", cases, mm], timeout=3000)
    kept, other = 0, {}
    for line in open(mm):
        m = json.loads(line)
        c = m["case"]
        why = m["why"] if m["why"] != "dec" else "dec:" + c["in"].get("rel", "same")
        m["why"] = why
        if why in only:
            kept += 1
            flat = {"fam": "derive", "name": c["name"], "why": why, "schema": c["in"]["schema"], "in": c["in"], "exp": c["exp"], "obs": m["obs"], "sid": c["sid"]}
            ver.mismatch("S->I derive", flat, sigtext=derive_sig(flat))
        else:
            other[why] = other.get(why, 0) + 1
    for w, k in sorted(other.items()):
        ver.notes.append(f"derive replay: {k} cases fail conjunct '{w}', which belongs to another property's check")
    ver.cov["traces_validated_against_impl"] += summ["cases"]
    ver.cov["evaluations"] += summ["cases"]
    ver.cov["distinct_nontrivial"] += ntypes
    ver.cov["samples"] += summ["samples"][:2]
    ver.cov["stages"].append({"stage": "S->I derive", "generated_types": ntypes, "cases_replayed": summ["cases"], "mismatches_of_this_property": kept,
                              "wall_s": round(time.time() - t0, 1)})


def shape_of(schema):
    """A coarse description of a schema, used to group mismatches into one violation per shape."""
    if schema["kind"] == "enum":
        return "enum:" + ("index_only" if schema["index_only"] else schema["enc"])
    fs = schema["fields"]
    return f"struct:{schema['enc']}:{'transparent' if schema['transparent'] else schema['shape']}:{len(fs)}f"


def derive_sig(flat):
    return f"derive:{flat['name']}:{flat['why']}:{shape_of(flat['schema'])}"


def run_len(ver, wd):
    replay(ver, wd, WHY_OF["C07"])


ASSUMPTIONS = ["TLC evaluates the TLA+ operators correctly",
               "gen/schema2rs.py turns a schema into a Rust type faithfully; identifiers, declaration order and the n/b spelling are drawn from a seed and cannot reach the expected bytes",
               "a tag on an absent optional field in array encoding is written before the null (documented: the tag precedes what it annotates)",
               "a nil value of a custom nil-aware codec inside an array is written by that codec (only an absent Option is null)"]
RULE = {
    "C08": "TLC enumerates schemas (one-field structs over every field type x optional x tag x gap x encoding x shape, three-field structs over index patterns with gaps and all "
           "presence patterns, skipped fields, transparent newtypes, custom nil-aware codecs, enums with unit/tuple/named variants and tags/encodings at both levels, index_only, "
           "25-field structs, optional fields spelled Box<Option<T>> / through a type alias / through a type parameter, borrowing field types) x all values; each schema "
           "becomes a real #[derive(Encode)] type and its output must equal the documented bytes DocEnc; seeded random schemas from a wider grammar (up to 7 fields, arbitrary "
           "indices and tags, every field type, enums with up to 5 variants) are recorded and judged by TLC (Trace_Derive)",
    "C09": "for the same schemas x values the documented bytes, the same with a wider container head and as an indefinite-length container must decode to the value (skipped "
           "fields at default) consuming the input exactly, with every field of a borrowing type (&str, &ByteSlice, &[u8], Cow marked b) pointing into the input; a wrong or "
           "missing tag at any tag site, a missing mandatory field and an unknown top-level variant must be errors; random schemas as for C08",
    "C10": "pairs (writer, reader) related by the documented compatible changes (drop an optional field, add an optional field at a gap or new index with or without tag, two "
           "changes in thorough, more variants / unit-to-struct variants of an enum used as an optional field) x all writer values, both directions: the reader must obtain "
           "the projected value - from the documented bytes and from what the writer type's real encoder writes; missing mandatory fields must fail; random (writer, reader) "
           "pairs from the wider grammar related by one to three compatible changes are recorded and judged by TLC",
}


def random_schemas(ver, wd, pid):
    """I->S with seeded random schemas from a wider grammar: the generated types run every (schema, value) and (writer, reader,
    value); TLC judges the recorded events against DocEnc / Project (spec/Trace_Derive.tla)."""
    t0 = time.time()
    binp = prepare(ver, wd)[0]
    rcases, nsch, ncases = _cache[("random", ver.tier)]
    ev = os.path.join(wd, "derive.events")
    os.makedirs(ev, exist_ok=True)
    shard = os.path.join(ev, "shard-0000.ndjson")
    summ = core.run_harness(binp, ["record", rcases, shard])
    # split into shards for parallel validation
    lines = open(shard).read().splitlines()
    os.remove(shard)
    shards = []
    for k in range(0, len(lines), 400):
        p = os.path.join(ev, f"shard-{k // 400:04d}.ndjson")
        open(p, "w").write("\n".join(lines[k:k + 400]) + "\n")
        shards.append(p)
    n, mism = core.validate_shards("Trace_Derive", "Trace_Derive.cfg", shards, wd)
    if n != summ["events"]:
        raise core.ToolError(f"random schemas: {summ['events']} events recorded but {n} validated")
    want = {"C08": {"bytes"}, "C07": {"len"}, "C09": {"dec:same"}, "C10": {"dec:rcompat"}}[pid]
    kept = 0
    for m in mism:
        if m.get("name") == "panic":
            raise core.ToolError("random schemas: the derive harness panicked outside the code under test")
        if m["why"] in want:
            kept += 1
            flat = {"fam": "derive", "name": m["name"], "why": m["why"], "schema": m["schema"], "in": {"schema": m["schema"], "val": m["val"], "wschema": m.get("wschema")},
                    "exp": {}, "obs": {"bytes": m.get("bytes"), "len": m.get("len"), "dec": m.get("dec")}, "sid": m["sid"]}
            ver.mismatch("I->S random schemas", flat, sigtext="random:" + derive_sig(flat))
    ver.cov["traces_validated_against_impl"] += n
    ver.cov["evaluations"] += n
    ver.cov["samples"] += summ["samples"][:1]
    ver.cov["stages"].append({"stage": "I->S random schemas (Trace_Derive)", "random_schemas": nsch, "events_validated": n, "mismatches_of_this_property": kept,
                              "wall_s": round(time.time() - t0, 1)})


def replay_one(doc):
    item = doc["item"]
    binp = core.cargo_build("vh-derive")
    import subprocess
    r = subprocess.run([binp, "one", str(item["sid"]), item["name"], json.dumps(item["in"])], capture_output=True, text=True)
    print("schema       :", json.dumps(item["schema"]))
    print("observed now :", r.stdout.strip())
    print("recorded obs :", json.dumps(item["obs"]))
    print("specification:", json.dumps(item["exp"]))
    return 0
