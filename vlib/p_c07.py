"""C07 CborLen is exact: len(v) equals the number of bytes encode(v) writes."""
from . import core


def run(ver):
    wd = core.workdir("C07")
    binp = core.cargo_build("vh")
    res = core.run_tlc("MC_C01", "MC_C01.cfg", wd, timeout=3000)
    core.tlc_failure(res, "MC_C01")
    ver.add_mc(res, "MC_C01: reference encodings of boundary values of ~110 built-in instantiations (the length of each is emitted with the case)")
    core.replay_cases(ver, binp, res["out_path"], wd, "mc_c01")
    core.validate_traces(ver, binp, "c07", "Trace_Typed", wd, gen_args=["500"], only_why={"len"})
    derived(ver, wd)
    ver.assumptions += ["TLC evaluates the TLA+ operators correctly",
                        "the number of bytes written is observed on a Vec sink; that an exact-size buffer suffices and one byte less does not is C13's law applied to that length"]
    return ver.finish("exploration",
                      "S->I: the computed length of every decoded boundary value must equal the length of the reference encoding; I->S: for boundary-first random "
                      "values of ~110 built-in instantiations and for every Token variant x boundary arguments (all 256 simple values, strings around 23/24/255/256) "
                      "the recorded cbor_len must equal the number of bytes recorded from the encoder; derived types: see the stage list",
                      checker_cmd="tlc MC_C01 + vh cases + tlc Trace_Typed")


def derived(ver, wd):
    """Derived CborLen impls are exercised by the derive harness once it exists (C08 machinery)."""
    try:
        from . import derive
    except ImportError:
        ver.cov["stages"].append({"stage": "derived types", "note": "not built yet: derived CborLen is not covered by this run"})
        return
    derive.run_len(ver, wd)
    derive.random_schemas(ver, wd, "C07")


def replay(doc):
    return core.generic_replay(doc)
