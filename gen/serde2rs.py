#!/usr/bin/env python3
"""One description of the serde type family (C17) -> the Rust types with the real serde derives
(harness/vh/src/sfam.rs: types, structural projection `Abs`, registry) and their descriptors for the
specification (spec/SerdeTable.tla).  The description carries shapes only; the wire format lives in
spec/Serde.tla, the behaviour in serde_derive + minicbor-serde."""
import os
import sys

V = os.path.dirname(os.path.dirname(os.path.abspath(__file__)))


def nm(s):
    return "<<" + ", ".join(str(b) for b in s.encode()) + ">>"


class E:
    """A type expression: Rust spelling and TLA+ descriptor."""
    def __init__(self, rs, tla):
        self.rs, self.tla = rs, tla


def I(t): return E(t, f'SI("{t}")')
u8, u16, u32, u64, i8, i16, i32, i64 = (I(t) for t in "u8 u16 u32 u64 i8 i16 i32 i64".split())
boolean = E("bool", "SBool")
char = E("char", "SChar")
f32 = E("f32", "SF32")
f64 = E("f64", "SF64")
string = E("String", "SStr")
unit = E("()", "SUnit")
sbytes = E("SBytes", "SBytesD")
refbytes = E("RefBytes", "SBytesD")
dispstr = E("DispStr", "SStr")
def opt(e): return E(f"Option<{e.rs}>", f"SOpt({e.tla})")
def seq(e): return E(f"Vec<{e.rs}>", f"SSeq({e.tla})")
def useq(e): return E(f"USeq<{e.rs}>", f"SUSeq({e.tla})")
def tup(*es): return E("(" + "".join(e.rs + ", " for e in es) + ")", "STup(<<" + ", ".join(e.tla for e in es) + ">>)")
def arr(e, n): return E(f"[{e.rs}; {n}]", "STup(<<" + ", ".join([e.tla] * n) + ">>)")
def bmap(k, v): return E(f"BTreeMap<{k.rs}, {v.rs}>", f"SMap({k.tla}, {v.tla})")
def umap(k, v): return E(f"UMap<{k.rs}, {v.rs}>", f"SUMap({k.tla}, {v.tla})")
def boxed(e): return E(f"Box<{e.rs}>", e.tla)
def ref(name): return E(name, "T_" + name)


class F:
    def __init__(self, name, e, rename=None, flatten=False, skipnone=False):
        self.name, self.e, self.wire, self.flatten, self.skipnone = name, e, rename or name, flatten, skipnone

    def attr(self):
        a = []
        if self.wire != self.name:
            a.append(f'rename = "{self.wire}"')
        if self.flatten:
            a.append("flatten")
        if self.skipnone:
            a.append('default, skip_serializing_if = "Option::is_none"')
        return f"#[serde({', '.join(a)})] " if a else ""

    def tla(self):
        if self.flatten:
            return f"SFlat({self.e.tla})"
        return f"{'SFSkip' if self.skipnone else 'SF'}({nm(self.wire)}, {self.e.tla})"


DECLS = []      # (rust source, tla definition)
TABLE = []      # (key, rust type, tla descriptor)


def fields_tla(fs):
    return "<<" + ", ".join(f.tla() for f in fs) + ">>"


def struct(name, fs, key=None):
    body = " ".join(f"{f.attr()}pub {f.name}: {f.e.rs}," for f in fs)
    rs = f"#[derive(Debug, Serialize, Deserialize)]\npub struct {name} {{ {body} }}\n"
    rs += f"impl Abs for {name} {{\n    fn to_abs(&self) -> Value {{ json!({{\"k\":\"rec\",\"xs\":[{', '.join(f'self.{f.name}.to_abs()' for f in fs)}]}}) }}\n"
    rs += f"    fn gen(_rng: &mut StdRng, _d: u32) -> Self {{ {name} {{ {' '.join(f'{f.name}: Abs::gen(_rng, _d + 1),' for f in fs)} }} }}\n}}\n"
    DECLS.append((rs, f"T_{name} == SStruct({fields_tla(fs)})"))
    TABLE.append((key or name.lower(), name, "T_" + name))
    return ref(name)


def unit_struct(name):
    rs = f"#[derive(Debug, Serialize, Deserialize)]\npub struct {name};\n"
    rs += f"impl Abs for {name} {{ fn to_abs(&self) -> Value {{ json!({{\"k\":\"unit\"}}) }} fn gen(_: &mut StdRng, _: u32) -> Self {{ {name} }} }}\n"
    DECLS.append((rs, f"T_{name} == SUnit"))
    TABLE.append((name.lower(), name, "T_" + name))
    return ref(name)


def newtype(name, e):
    rs = f"#[derive(Debug, Serialize, Deserialize)]\npub struct {name}(pub {e.rs});\n"
    rs += f"impl Abs for {name} {{ fn to_abs(&self) -> Value {{ self.0.to_abs() }} fn gen(rng: &mut StdRng, d: u32) -> Self {{ {name}(Abs::gen(rng, d)) }} }}\n"
    DECLS.append((rs, f"T_{name} == {e.tla}"))
    TABLE.append((name.lower(), name, "T_" + name))
    return ref(name)


def tuple_struct(name, es):
    assert len(es) != 1, "a one-field tuple struct is a newtype struct"
    rs = f"#[derive(Debug, Serialize, Deserialize)]\npub struct {name}({', '.join('pub ' + e.rs for e in es)});\n"
    rs += f"impl Abs for {name} {{ fn to_abs(&self) -> Value {{ json!({{\"k\":\"seq\",\"xs\":[{', '.join(f'self.{i}.to_abs()' for i in range(len(es)))}]}}) }}\n"
    rs += f"    fn gen(rng: &mut StdRng, d: u32) -> Self {{ {name}({', '.join('Abs::gen(rng, d + 1)' for _ in es)}) }} }}\n"
    DECLS.append((rs, f"T_{name} == STup(<<{', '.join(e.tla for e in es)}>>)"))
    TABLE.append((name.lower(), name, "T_" + name))
    return ref(name)


class Var:
    def __init__(self, name, kind="unit", e=None, es=None, fs=None, rename=None):
        self.name, self.kind, self.e, self.es, self.fs, self.wire = name, kind, e, es, fs, rename or name


def enum(name, vs, rep="ext", tag="", content=""):
    attr = {"ext": "", "int": f'#[serde(tag = "{tag}")]\n', "adj": f'#[serde(tag = "{tag}", content = "{content}")]\n', "unt": "#[serde(untagged)]\n"}[rep]
    arms_decl, arms_abs, arms_gen, tlav = [], [], [], []
    for i, v in enumerate(vs):
        ren = f'#[serde(rename = "{v.wire}")] ' if v.wire != v.name else ""
        if v.kind == "unit":
            arms_decl.append(f"{ren}{v.name},")
            arms_abs.append(f'{name}::{v.name} => json!({{"k":"var","i":{i},"x":{{"k":"unit"}}}}),')
            arms_gen.append(f"{i} => {name}::{v.name},")
            tlav.append(f"SVU({nm(v.wire)})")
        elif v.kind == "newtype":
            arms_decl.append(f"{ren}{v.name}({v.e.rs}),")
            arms_abs.append(f'{name}::{v.name}(x) => json!({{"k":"var","i":{i},"x":x.to_abs()}}),')
            arms_gen.append(f"{i} => {name}::{v.name}(Abs::gen(rng, d + 1)),")
            tlav.append(f"SVN({nm(v.wire)}, {v.e.tla})")
        elif v.kind == "tuple":
            xs = [f"x{j}" for j in range(len(v.es))]
            arms_decl.append(f"{ren}{v.name}({', '.join(e.rs for e in v.es)}),")
            arms_abs.append(f'{name}::{v.name}({", ".join(xs)}) => json!({{"k":"var","i":{i},"x":{{"k":"seq","xs":[{", ".join(x + ".to_abs()" for x in xs)}]}}}}),')
            arms_gen.append(f"{i} => {name}::{v.name}({', '.join('Abs::gen(rng, d + 1)' for _ in v.es)}),")
            tlav.append(f"SVT({nm(v.wire)}, <<{', '.join(e.tla for e in v.es)}>>)")
        else:
            arms_decl.append(f"{ren}{v.name} {{ {' '.join(f'{f.attr()}{f.name}: {f.e.rs},' for f in v.fs)} }},")
            arms_abs.append(f'{name}::{v.name} {{ {", ".join(f.name for f in v.fs)} }} => json!({{"k":"var","i":{i},"x":{{"k":"rec","xs":[{", ".join(f.name + ".to_abs()" for f in v.fs)}]}}}}),')
            arms_gen.append(f"{i} => {name}::{v.name} {{ {' '.join(f'{f.name}: Abs::gen(rng, d + 1),' for f in v.fs)} }},")
            tlav.append(f"SVS({nm(v.wire)}, {fields_tla(v.fs)})")
    arms_gen[-1] = "_ => " + arms_gen[-1].split(" => ", 1)[1]
    rs = f"#[derive(Debug, Serialize, Deserialize)]\n{attr}pub enum {name} {{ {' '.join(arms_decl)} }}\n"
    rs += f"impl Abs for {name} {{\n    fn to_abs(&self) -> Value {{ match self {{ {' '.join(arms_abs)} }} }}\n"
    rs += f"    #[allow(unused_variables)]\n    fn gen(rng: &mut StdRng, d: u32) -> Self {{ match rng.gen_range(0..{len(vs)}u32) {{ {' '.join(arms_gen)} }} }}\n}}\n"
    DECLS.append((rs, f'T_{name} == SEnum("{rep}", {nm(tag)}, {nm(content)}, <<{", ".join(tlav)}>>)'))
    TABLE.append((name.lower(), name, "T_" + name))
    return ref(name)


def direct(key, e):
    TABLE.append((key, e.rs, e.tla))


# ======================================================================== the family
# every primitive Serializer / Deserializer method, directly at the top level
for e in (u8, u16, u32, u64, i8, i16, i32, i64):
    direct("p_" + e.rs, e)
direct("p_bool", boolean); direct("p_char", char); direct("p_f32", f32); direct("p_f64", f64)
direct("p_string", string); direct("p_unit", unit); direct("p_bytes", sbytes); direct("p_refbytes", refbytes); direct("p_vecrefbytes", seq(refbytes)); direct("p_dispstr", dispstr)
direct("p_optu8", opt(u8)); direct("p_optunit", opt(unit)); direct("p_optstring", opt(string)); direct("p_optvec", opt(seq(i16)))
direct("p_vecu8", seq(u8)); direct("p_vecstring", seq(string)); direct("p_vecvec", seq(seq(u16))); direct("p_vecopt", seq(opt(boolean)))
direct("p_useq", useq(u16)); direct("p_usequseq", useq(useq(string)))
direct("p_tup1", tup(u8)); direct("p_tup2", tup(u8, string)); direct("p_tup3", tup(i16, boolean, opt(u8))); direct("p_tup4", tup(u64, string, f32, unit))
direct("p_arr0", arr(u8, 0)); direct("p_arr3", arr(i32, 3)); direct("p_arr32", arr(u8, 32))
direct("p_mapstru8", bmap(string, u8)); direct("p_mapu8str", bmap(u8, string)); direct("p_maptupkey", bmap(tup(u8, boolean), seq(u8)))
direct("p_umap", umap(string, i32)); direct("p_umapnested", umap(u8, useq(u8)))
direct("p_boxed", boxed(u64))
# types whose serde impls ask the format whether it is human readable: the compact forms (std::net as octet tuples / enums of them)
_oct4 = "STup(<<" + ", ".join(['SI("u8")'] * 4) + ">>)"
_oct16 = "STup(<<" + ", ".join(['SI("u8")'] * 16) + ">>)"
_s4 = f'STup(<<{_oct4}, SI("u16")>>)'
_s6 = f'STup(<<{_oct16}, SI("u16")>>)'
direct("p_ipv4", E("SIpv4", _oct4)); direct("p_ipv6", E("SIpv6", _oct16))
direct("p_ipaddr", E("SIpAddr", f'SEnum("ext", <<>>, <<>>, <<SVN({nm("V4")}, {_oct4}), SVN({nm("V6")}, {_oct16})>>)'))
direct("p_sockv4", E("SSockV4", _s4))
direct("p_sockaddr", E("SSockAddr", f'SEnum("ext", <<>>, <<>>, <<SVN({nm("V4")}, {_s4}), SVN({nm("V6")}, {_s6})>>)'))
direct("p_readable", E("Readable", "SFalse"))

# structs
US = unit_struct("US")
NT = newtype("NT", u16)
NS = newtype("NS", string)
NO = newtype("NO", opt(u8))
TS = tuple_struct("TS", [u8, string, opt(i8)])
TS0 = tuple_struct("TS0", [])
NI = newtype("NI", i64)       # a one-field tuple struct is a newtype struct for serde
S0 = struct("S0", [])
S1 = struct("S1", [F("a", u8), F("b", string), F("c", opt(i32))])
S2 = struct("S2", [F("x", S1), F("y", seq(S1)), F("z", tup(u8, NT)), F("u", US)])
S3 = struct("S3", [F("first", u16, rename="f"), F("second", opt(string), skipnone=True), F("third", opt(u8), skipnone=True), F("r#type", boolean, rename="type")])
S4 = struct("S4", [F("b", boolean), F("c", char), F("f", f32), F("g", f64), F("y", sbytes), F("u", unit), F("i", i64), F("w", u64)])
S5 = struct("S5", [F("m", bmap(string, S1)), F("n", bmap(u8, opt(NT))), F("o", opt(S0))])
S6 = struct("S6", [F("q", useq(S1)), F("r", umap(string, S0)), F("s", dispstr)])
direct("p_opts1", opt(S1)); direct("p_vecs3", seq(S3))

# externally tagged enums (the default representation)
EU = enum("EU", [Var("X"), Var("Y", rename="why"), Var("Z")])
E1 = enum("E1", [Var("A"), Var("B", "newtype", e=u8), Var("C", "tuple", es=[u8, string]), Var("D", "struct", fs=[F("x", i16), F("y", opt(string))])])
E2 = enum("E2", [Var("P", "newtype", e=S1), Var("Q", "newtype", e=E1), Var("R", "newtype", e=seq(E1)), Var("N", "newtype", e=unit),
                 Var("O", "newtype", e=opt(u8)), Var("T", "tuple", es=[EU, E1]), Var("M", "newtype", e=bmap(string, EU)), Var("K", "tuple", es=[u8, u8]), Var("J", "tuple", es=[])])
direct("p_opte1", opt(E1)); direct("p_vece1", seq(E1)); direct("p_mape1", bmap(u8, E1)); direct("p_tupenum", tup(EU, E1, u8))
S7 = struct("S7", [F("e", E1), F("f", EU), F("g", opt(E2))])

# internally tagged
IT = enum("IT", [Var("A"), Var("D", "struct", fs=[F("x", i16), F("y", string)]), Var("N", "newtype", e=S1), Var("O", "struct", fs=[F("o", opt(u8)), F("v", seq(u16))])], rep="int", tag="t")
# adjacently tagged
AT = enum("AT", [Var("A"), Var("B", "newtype", e=u8), Var("C", "tuple", es=[u8, string]), Var("D", "struct", fs=[F("x", i16)]), Var("E", "newtype", e=E1), Var("O", "newtype", e=opt(string))],
          rep="adj", tag="t", content="c")
# untagged (the shapes of the variants are pairwise distinguishable)
# (serde tries the variants in order against the buffered content, and a String accepts UTF-8 bytes: bytes come first)
UT = enum("UT", [Var("B", "newtype", e=u64), Var("Y", "newtype", e=sbytes), Var("S", "newtype", e=string), Var("C", "tuple", es=[u8, string]), Var("D", "struct", fs=[F("x", i16)]),
                 Var("F", "newtype", e=boolean), Var("G", "struct", fs=[F("g", f64), F("h", opt(i8))])], rep="unt")
direct("p_vecit", seq(IT)); direct("p_vecat", seq(AT)); direct("p_vecut", seq(UT))
S8 = struct("S8", [F("i", IT), F("a", AT), F("u", UT)])

# flatten
In1 = struct("In1", [F("p", u16), F("q", string)])
FL = struct("FL", [F("a", u8), F("inner", In1, flatten=True), F("z", boolean)])
FLM = struct("FLM", [F("num", u8), F("rest", bmap(string, u16), flatten=True)])
In2 = struct("In2", [F("k", opt(i8)), F("inner", In1, flatten=True)])
FL2 = struct("FL2", [F("w", i8), F("deep", In2, flatten=True)])
FLE = struct("FLE", [F("n", u32), F("inner", In1, flatten=True), F("e", E1), F("v", seq(u8))])
ITF = enum("ITF", [Var("V", "struct", fs=[F("a", u8), F("inner", In1, flatten=True)]), Var("W")], rep="int", tag="kind")

# shapes that the bridge's self-description cannot carry through serde's buffered `Content` (char and unit have no
# representation of their own: char is an unsigned integer, unit an empty array)
InC = struct("InC", [F("c", char)])
FLC = struct("FLC", [F("a", u8), F("inner", InC, flatten=True)])
ITC = enum("ITC", [Var("V", "struct", fs=[F("c", char)])], rep="int", tag="t")
UTC = enum("UTC", [Var("C", "newtype", e=char), Var("B", "newtype", e=boolean)], rep="unt")
UTU = enum("UTU", [Var("N"), Var("S", "newtype", e=string)], rep="unt")
InU = struct("InU", [F("u", unit)])
FLU = struct("FLU", [F("a", u8), F("inner", InU, flatten=True)])

RS_HEAD = """//! GENERATED by gen/serde2rs.py - do not edit.  The serde type family of property C17: real serde derives,
//! the structural projection `Abs`, and the registry keyed by the names of spec/SerdeTable.tla.
#![allow(non_snake_case, clippy::all)]
use crate::sbridge::{sdecode_report, exercise, DispStr, Readable, RefBytes, SBytes, SIpAddr, SIpv4, SIpv6, SSockAddr, SSockV4, UMap, USeq};
use crate::types::Abs;
use rand::{rngs::StdRng, Rng};
use serde::{Deserialize, Serialize};
use serde_json::{json, Value};
use std::collections::BTreeMap;

"""


def main():
    out = RS_HEAD + "\n".join(rs for rs, _ in DECLS)
    out += "\npub fn sdecode_named(name: &str, b: &[u8]) -> Option<Value> {\n    match name {\n"
    for key, rs, _ in TABLE:
        out += f"        \"{key}\" => Some(sdecode_report::<{rs}>(b)),\n"
    out += "        _ => None\n    }\n}\n"
    out += "/// C20: typed deserialisation (and re-serialisation through the harness' sink) in whatever configuration this binary is.\n"
    out += "pub fn sde_named(name: &str, b: &[u8], ser: bool) -> Option<Value> {\n    match name {\n"
    for key, rs, _ in TABLE:
        out += f"        \"{key}\" => Some(crate::c20::sde::<{rs}>(b, ser)),\n"
    out += "        _ => None\n    }\n}\n"
    out += "pub fn exercise_all(rng: &mut StdRng, sink: &mut crate::gen::Sink, n: usize, want: &str) {\n"
    for key, rs, _ in TABLE:
        out += f"    exercise::<{rs}>(\"{key}\", rng, sink, n, want);\n"
    out += "}\n"
    out += "pub const NAMES: &[&str] = &[" + ", ".join(f'"{k}"' for k, _, _ in TABLE) + "];\n"
    open(os.path.join(V, "harness", "vh", "src", "sfam.rs"), "w").write(out)
    tla = "------------------------------- MODULE SerdeTable -------------------------------\n"
    tla += "(* GENERATED by gen/serde2rs.py - do not edit.  Descriptors of the serde type family of the harness (harness/vh/src/sfam.rs). *)\n"
    tla += "EXTENDS Serde\n"
    tla += "\n".join(t for _, t in DECLS) + "\n"
    tla += "STable == [\n   " + ",\n   ".join(f"{k} |-> {t}" for k, _, t in TABLE) + " ]\n"
    tla += "SNames == DOMAIN STable\n"
    tla += "=============================================================================\n"
    open(os.path.join(V, "spec", "SerdeTable.tla"), "w").write(tla)
    print(f"{len(TABLE)} table entries, {len(DECLS)} declared types", file=sys.stderr)


if __name__ == "__main__":
    main()
