#!/usr/bin/env python3
"""Seeded random schemas from a wider grammar than spec/MC_Derive.tla enumerates (more fields, arbitrary index patterns and
tags, every field type and spelling, enums with up to five variants), random values of each, and random readers related to a
writer by the documented compatible changes.  Only shapes are produced here: what the bytes must be and what a reader must
obtain is decided by TLC from spec/Derive.tla on the recorded events (spec/Trace_Derive.tla)."""
import random

BASIC = ["u8", "str", "bytes", "cu", "bstr", "bslice", "bu8"]
NESTED_TYS = ["inA", "inM", "e2", "e2x", "e2u", "io", "iox", "e2m", "e2mu", "e2a", "e2au", "eu", "eux"]
TAGS = [0, 7, 23, 24, 255, 256, 65535, 65536, -2, -3]      # -2 / -3: 2^32 and 2^64 - 1 (spec/Derive.tla!TagNum)
COD_TYS = ["pcd", "pce", "pcb", "pcw"]
COMPAT = {"e2": ["e2x", "e2u"], "e2x": ["e2"], "e2u": ["e2"], "io": ["iox"], "iox": ["io"], "e2m": ["e2mu"], "e2mu": ["e2m"], "e2a": ["e2au"], "e2au": ["e2a"], "eu": ["eux"], "eux": ["eu"]}


def fv(some=True, n=0, b=(), sub=()):
    return {"some": some, "n": n, "b": list(b), "sub": sub if isinstance(sub, dict) else list(sub)}


NONE = fv(False)


def vals_t(ty, rng):
    """A random value of a field type (the shapes of spec/MC_Derive.tla!ValsT, wider scalars)."""
    if ty == "u8":
        return fv(n=rng.choice([0, 1, 7, 23, 24, 200, 255]))
    if ty in ("cowb", "cown"):
        return fv(b=rng.choice([b"", b"cow", "é".encode()]))
    if ty in ("bstr",):
        ty = "str"
    if ty in ("bslice", "bu8", "cowbu8"):
        ty = "bytes"
    if ty == "str":
        return fv(b=rng.choice([b"", b"ab", b"x", "é".encode(), b"abcdefghijklmnopqrstuvwxyz"[:rng.randint(0, 26)]]))
    if ty == "bytes":
        return fv(b=rng.choice([b"", b"\x01\x02", bytes(range(24)), b"\xff"]))
    if ty == "cu":
        return fv(n=rng.choice([5, 0, 200]))
    if ty in ("inA", "inM"):
        return fv(sub=[fv(n=rng.choice([7, 200, 0])), rng.choice([NONE, fv(n=1), fv(n=24)])])
    unit, tup = {"var": 1, "fv": []}, {"var": 2, "fv": [fv(n=rng.choice([9, 0, 255]))]}
    if ty in ("e2", "e2m", "e2a"):
        return fv(sub=rng.choice([unit, tup]))
    if ty == "e2x":
        return fv(sub=rng.choice([unit, tup, {"var": 3, "fv": [rng.choice([NONE, fv(n=3)]), fv(b=rng.choice([b"", b"x"]))]}]))
    if ty in ("e2u", "e2mu"):
        return fv(sub=rng.choice([{"var": 1, "fv": [rng.choice([NONE, fv(n=3)]), rng.choice([NONE, fv(b=b"x")])]}, tup]))
    if ty == "e2au":
        return fv(sub=rng.choice([{"var": 1, "fv": [rng.choice([NONE, fv(n=3)])]}, tup]))
    if ty in ("io", "eu"):
        return fv(sub={"var": rng.choice([1, 2]), "fv": []})
    if ty == "eux":
        return fv(sub=rng.choice([{"var": 1, "fv": []}, {"var": 3, "fv": []}, {"var": 4, "fv": [fv(n=rng.choice([9, 0, 255]))]}]))
    if ty in COD_TYS:
        return fv(n=rng.choice([0, 7, 23, 24, 255]))
    if ty == "iox":
        return fv(sub={"var": rng.choice([1, 2, 3]), "fv": []})
    raise ValueError(ty)


def rand_field(idx, rng, allow_skip=True, nested=True):
    if allow_skip and rng.random() < 0.05:
        return {"idx": idx, "opt": False, "tag": -1, "ty": "u8", "skip": True, "osp": "plain"}
    ty = rng.choice(BASIC + (NESTED_TYS if nested else [])) if rng.random() < 0.75 else rng.choice(["u8", "str"])
    opt = rng.random() < 0.55
    if not opt and ty == "str" and rng.random() < 0.15:
        ty = rng.choice(["cowb", "cown", "cowbu8"])
    tag = rng.choice(TAGS) if rng.random() < 0.25 else -1
    if rng.random() < 0.06:
        sp = rng.choice(["plain", "boxed", "alias"])
        return {"idx": idx, "opt": sp == "plain", "tag": tag, "ty": rng.choice(COD_TYS), "skip": False, "osp": sp}
    osp = "plain"
    if opt and ty in ("u8", "str") and rng.random() < 0.3:
        osp = rng.choice(["boxed", "alias", "generic"])
    return {"idx": idx, "opt": opt, "tag": tag, "ty": ty, "skip": False, "osp": osp}


def rand_fields(rng, maxn, in_enum=False):
    n = rng.choice([0, 1, 1, 2, 2, 3, 3, 4, 5, 7][:maxn + 3])
    n = min(n, maxn)
    idxs, cur = [], rng.choice([0, 0, 0, 1, 2])
    for _ in range(n):
        idxs.append(cur)
        cur += rng.choice([1, 1, 1, 2, 3, 10, 22])
    fs = [rand_field(i, rng, allow_skip=not in_enum) for i in idxs]
    if in_enum:                     # variants bind fields by pattern: no type parameters there
        for f in fs:
            if f["osp"] == "generic":
                f["osp"] = "boxed"
    return fs


def rand_struct(rng):
    enc = rng.choice(["array", "map"])
    shape = rng.choice(["named", "named", "tuple"])
    fields = rand_fields(rng, 7)
    if shape == "tuple":
        for f in fields:
            f["skip"] = False
    tag = rng.choice(TAGS) if rng.random() < 0.2 else -1
    return {"kind": "struct", "enc": enc, "tag": tag, "transparent": False, "shape": shape, "fields": fields}


def rand_enum(rng):
    enc = rng.choice(["array", "map"])
    if rng.random() < 0.2:
        idxs = sorted(rng.sample(range(0, 40), rng.randint(1, 5)))
        return {"kind": "enum", "enc": "array", "tag": -1, "index_only": True,
                "variants": [{"idx": i, "enc": "array", "tag": -1, "shape": "unit", "fields": []} for i in idxs]}
    idxs = sorted(rng.sample(range(0, 40), rng.randint(1, 5)))
    vs = []
    for i in idxs:
        shape = rng.choice(["unit", "tuple", "named"])
        fields = rand_fields(rng, 4, in_enum=True) if shape != "unit" else []
        if shape != "unit" and not fields:
            shape = "unit"
        vs.append({"idx": i, "enc": rng.choice(["array", "map"]), "tag": rng.choice(TAGS) if rng.random() < 0.2 else -1, "shape": shape, "fields": fields})
    return {"kind": "enum", "enc": enc, "tag": rng.choice(TAGS) if rng.random() < 0.15 else -1, "index_only": False, "variants": vs}


def rand_value_fields(fields, rng):
    out = []
    for f in fields:
        if f["skip"]:
            out.append(fv())
        elif f["ty"] == "cu":
            out.append(fv(n=255) if f["opt"] and rng.random() < 0.4 else vals_t("cu", rng))
        elif (f["opt"] or f["ty"] in COD_TYS) and rng.random() < 0.45:
            out.append(NONE)
        else:
            out.append(vals_t(f["ty"], rng))
    return out


def rand_value(s, rng):
    if s["kind"] == "struct":
        return rand_value_fields(s["fields"], rng)
    k = rng.randrange(len(s["variants"]))
    return {"var": k + 1, "fv": rand_value_fields(s["variants"][k]["fields"], rng)}


def compatible_reader(s, rng):
    """A reader schema related to the writer struct `s` by one to three documented compatible changes: drop an optional field,
    add an optional field (with or without tag) at a free index, replace a nested enum by a compatible version of it."""
    import copy
    r = copy.deepcopy(s)
    taken = {f["idx"] for f in s["fields"]}          # an index the writer uses is never reused with another meaning
    for _ in range(rng.randint(1, 3)):
        fs = r["fields"]
        kind = rng.choice(["drop", "add", "add", "enum"])
        if kind == "drop":
            cands = [i for i, f in enumerate(fs) if f["opt"] and not f["skip"]]
            if cands:
                del fs[rng.choice(cands)]
        elif kind == "add":
            used = {f["idx"] for f in fs} | taken
            free = [i for i in range(0, 45) if i not in used]
            idx = rng.choice(free)
            f = rand_field(idx, rng, allow_skip=False, nested=rng.random() < 0.3)
            f["opt"] = True
            if f["ty"] == "cu":                      # (what a user-written codec does with the null of a gap is the user's business)
                f["ty"] = "u8"
            if f["ty"] in COD_TYS:                   # (optional only when spelled Option)
                f["osp"] = "plain"
            if f["osp"] == "generic" and r["shape"] == "tuple":
                f["osp"] = "boxed"
            if f["ty"] not in ("u8", "str") and f["ty"] not in COD_TYS:
                f["osp"] = "plain"
            fs.append(f)
            fs.sort(key=lambda x: x["idx"])
        else:
            cands = [f for f in fs if f["ty"] in COMPAT and f["opt"] and not f["skip"]]
            if cands:
                f = rng.choice(cands)
                f["ty"] = rng.choice(COMPAT[f["ty"]])
    return r


def generate(seed, nschemas, nvals, npairs):
    """Returns (schemas, rt cases, compat cases): rt = (schema index, value); compat = (writer index, reader index, value)."""
    rng = random.Random(f"randschema-{seed}")
    schemas, rt, compat = [], [], []
    for _ in range(nschemas):
        s = rand_struct(rng) if rng.random() < 0.7 else rand_enum(rng)
        schemas.append(s)
        for _ in range(nvals):
            rt.append((len(schemas) - 1, rand_value(s, rng)))
    structs = [i for i, s in enumerate(schemas) if s["kind"] == "struct" and any(f["opt"] for f in s["fields"])]
    for _ in range(npairs):
        if not structs:
            break
        wi = rng.choice(structs)
        r = compatible_reader(schemas[wi], rng)
        schemas.append(r)
        for _ in range(max(2, nvals // 2)):
            compat.append((wi, len(schemas) - 1, rand_value(schemas[wi], rng)))
    return schemas, rt, compat
