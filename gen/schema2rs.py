#!/usr/bin/env python3
"""Schemas (JSON records emitted by TLC from spec/MC_Derive.tla, or drawn at random by gen/randschema.py) -> Rust types
with the real #[derive(Encode, Decode, CborLen)], plus structural from_json / to_json conversions and a dispatch table.
Identifiers, declaration order and the n / b / cbor(n(..)) spelling are drawn from a seed: they must not influence bytes."""
import hashlib
import json
import random

NESTED = {"inA": "InA", "inM": "InM", "e2": "E2", "e2x": "E2x", "e2u": "E2u", "io": "Io", "iox": "Iox", "e2m": "E2m", "e2mu": "E2mu", "e2a": "E2a", "e2au": "E2au", "eu": "Eu", "eux": "Eux"}
COD_TYS = ("pcd", "pce", "pcb", "pcw")


def canon(s):
    return json.dumps(s, sort_keys=True, separators=(",", ":"))


def rust_ty(f):
    base = {"u8": "u8", "str": "String", "bytes": "Vec<u8>", "cu": "u8", "bstr": "&'a str", "bslice": "&'a minicbor::bytes::ByteSlice",
            "bu8": "&'a [u8]", "cowb": "std::borrow::Cow<'a, str>", "cown": "std::borrow::Cow<'a, str>",
            "cowbu8": "std::borrow::Cow<'a, [u8]>", "pcd": "u8", "pce": "u8", "pcb": "u8", "pcw": "u8", "oo": "u8"}.get(f["ty"]) or NESTED[f["ty"]]
    if f.get("skip"):
        return "u8"
    if f["ty"] == "oo":
        return "Option<Option<u8>>"
    if f["ty"] in COD_TYS:              # always an Option underneath; `opt` says whether it is spelled so (see spec/Derive.tla!CodTys)
        return {"plain": "Option<u8>", "boxed": "Box<Option<u8>>", "alias": "OptU8"}[f.get("osp", "plain")]
    if f["opt"] and f["ty"] != "cu":
        sp = f.get("osp", "plain")
        if sp == "boxed":
            return f"Box<Option<{base}>>"
        if sp == "alias":
            return {"u8": "OptU8", "String": "OptString"}.get(base) or ("Opt" + base)      # nested types: aliases generated next to them
        if sp == "generic":
            return "G" + str(f["idx"])
        return f"Option<{base}>"
    return base


def generic_params(fields):
    """(type parameter, instantiation) for every field spelled through a type parameter."""
    out = []
    for f in fields:
        if f["opt"] and f["ty"] != "cu" and f.get("osp") == "generic" and not f.get("skip"):
            base = {"u8": "u8", "str": "String"}.get(f["ty"]) or NESTED[f["ty"]]
            out.append(("G" + str(f["idx"]), f"Option<{base}>"))
    return out


def tagnum(t):
    """-2 / -3 code tag numbers beyond 32 bits (see spec/Derive.tla!TagNum)."""
    return {-2: 4294967296, -3: 18446744073709551615}.get(t, t)


BORROW_TYS = ("bstr", "bslice", "bu8", "cowb", "cown", "cowbu8")


def borrows(fields):
    return any(f["ty"] in BORROW_TYS and not f.get("skip") for f in fields)


def field_attr(f, rng):
    if f.get("skip"):
        return "#[cbor(skip)]"
    idx = f["idx"]
    letter = rng.choice(["n", "b"]) if f["ty"] in ("u8", "str", "cu") else "n"
    if f["ty"] in ("bstr", "bslice"):
        letter = rng.choice(["n", "b"])          # these borrow implicitly, whatever the spelling
    if f["ty"] in ("bu8", "cowb", "cowbu8"):
        letter = "b"
    extra = []
    if f["tag"] != -1:
        extra.append(f"tag({tagnum(f['tag'])})")
    # a codec can be named as a module (`with`) or function by function: the spelling must not influence the bytes
    if f["ty"] in ("bytes", "bu8", "cowbu8"):
        if rng.random() < 0.5:
            extra.append('with = "minicbor::bytes"')
        else:
            extra += ['encode_with = "minicbor::bytes::encode"', 'decode_with = "minicbor::bytes::decode"', 'cbor_len = "minicbor::bytes::cbor_len"']
    if f["ty"] == "pcd":
        extra.append('decode_with = "crate::pass::decode"')
    if f["ty"] == "pce":
        extra += ['encode_with = "crate::pass::encode"', 'cbor_len = "crate::pass::cbor_len"'] if rng.random() < 0.5 else ['encode_with = "crate::pass::encode"']
    if f["ty"] == "pcb":
        extra += ['encode_with = "crate::pass::encode"', 'decode_with = "crate::pass::decode"', 'cbor_len = "crate::pass::cbor_len"']
    if f["ty"] == "pcw":
        extra.append('with = "crate::pass"')
    if f["ty"] == "cu" and str(f.get("osp", "")).startswith("p") and f.get("osp") != "plain":
        import itertools
        k = int(f["osp"][1:])
        four = ['encode_with = "crate::cu::encode"', 'decode_with = "crate::cu::decode"', 'nil = "crate::cu::nil"', 'is_nil = "crate::cu::is_nil"']
        order = list(list(itertools.permutations(four))[k % 24])
        order.insert(rng.randint(0, 4), 'cbor_len = "crate::cu::cbor_len"')
        pre = [f"{letter}({idx})"] + extra
        if k % 3 == 0:
            # (split after the first of the five: the macro itself rejects several of the other split points, e.g. a `nil` whose
            # `decode_with` stands in the other attribute)
            cut = 1
            return "#[cbor(" + ", ".join(pre + order[:cut]) + ")] #[cbor(" + ", ".join(order[cut:]) + ")]"
        return "#[cbor(" + ", ".join(pre + order) + ")]"
    if f["ty"] == "cu":
        if rng.random() < 0.5:
            extra.append('with = "crate::cu"')
            if f["opt"]:
                extra.append("has_nil")
        else:
            extra += ['encode_with = "crate::cu::encode"', 'decode_with = "crate::cu::decode"', 'cbor_len = "crate::cu::cbor_len"']
            if f["opt"]:
                extra += ['nil = "crate::cu::nil"', 'is_nil = "crate::cu::is_nil"']
    # the order in which attributes are written, and whether they share one #[cbor(..)] or are split over two, must not matter either
    if len(extra) > 1:
        rng.shuffle(extra)
        if rng.random() < 0.4:
            # (with nil / is_nil in play only the first split point is accepted by the macro in every order)
            k = 1 if any(x.startswith(("nil", "is_nil", "has_nil")) for x in extra) else rng.randint(1, len(extra) - 1)
            return "#[cbor(" + ", ".join([f"{letter}({idx})"] + extra[:k]) + ")] #[cbor(" + ", ".join(extra[k:]) + ")]"
    if extra or rng.random() < 0.3:
        return "#[cbor(" + ", ".join([f"{letter}({idx})"] + extra) + ")]"
    return f"#[{letter}({idx})]"


def from_expr(f, src):
    """Rust expression building the field from the JSON field value `src`."""
    if f.get("skip"):
        return "0u8"
    ty = f["ty"]
    inner = {"u8": f"fv_u8(&{src})", "cu": f"fv_u8(&{src})", "str": f"fv_str(&{src})", "bytes": f"fv_bytes(&{src})",
             "bstr": f"leak_str(fv_str(&{src}))", "bslice": f"leak_bytes(fv_bytes(&{src})).into()", "bu8": f"leak_bytes(fv_bytes(&{src}))",
             "cowb": f"std::borrow::Cow::Owned(fv_str(&{src}))", "cown": f"std::borrow::Cow::Owned(fv_str(&{src}))",
             "cowbu8": f"std::borrow::Cow::Owned(fv_bytes(&{src}))"}.get(ty) \
        or f"<{NESTED.get(ty, 'u8')} as Dv>::from_json(&{src}[\"sub\"])"
    if ty == "oo":
        return f"if {src}[\"some\"] != true {{ None }} else if {src}[\"n\"] == 256 {{ Some(None) }} else {{ Some(Some(fv_u8(&{src}))) }}"
    if ty in COD_TYS:
        e = f"if {src}[\"some\"] == true {{ Some(fv_u8(&{src})) }} else {{ None }}"
        return f"Box::new({e})" if f.get("osp") == "boxed" else e
    if f["opt"] and ty != "cu":
        e = f"if {src}[\"some\"] == true {{ Some({inner}) }} else {{ None }}"
        return f"Box::new({e})" if f.get("osp") == "boxed" else e
    return inner


def to_expr(f, val):
    """Rust expression giving the JSON field value of `val` (a reference)."""
    if f.get("skip"):
        return f"j_u8(*{val})"
    ty = f["ty"]

    def one(v):
        return {"u8": f"j_u8(*{v})", "cu": f"j_u8(*{v})", "str": f"j_bytes({v}.as_bytes())", "bytes": f"j_bytes({v})",
                "bstr": f"j_borrowed({v}.as_bytes())", "bslice": f"j_borrowed(&{v}[..])", "bu8": f"j_borrowed({v})",
                "cowb": f"j_cow({v}, true)", "cown": f"j_cow({v}, false)", "cowbu8": f"j_cowb({v})"}.get(ty) or f"j_sub({v}.to_json())"
    if ty == "oo":
        return f"match {val} {{ Some(Some(x)) => j_u8(*x), Some(None) => serde_json::json!({{\"some\": true, \"n\": 256, \"b\": [], \"sub\": []}}), None => j_none() }}"
    if ty in COD_TYS:
        scrut = f"&**{val}" if f.get("osp") == "boxed" else val
        return f"match {scrut} {{ Some(x) => j_u8(*x), None => j_none() }}"
    if f["opt"] and ty != "cu":
        scrut = f"&**{val}" if f.get("osp") == "boxed" else val
        return f"match {scrut} {{ Some(x) => {one('x')}, None => j_none() }}"
    return one(val)


def gen_fields_struct(name, attrs, shape, fields, rng, enum_variant=False):
    """Returns (definition body, from-json constructor expr using `v` = JSON array of field values, to-json pattern + exprs)."""
    order = list(range(len(fields)))
    rng.shuffle(order)
    if shape == "named":
        names = [f"f{fields[i]['idx']}" if not fields[i].get("skip") else f"s{i}" for i in range(len(fields))]
        rnd = [rng.choice(["alpha", "beta", "gamma", "delta", "kappa", "omega"]) + str(k) for k in range(len(fields))]
        names = [rnd[i] + "_" + names[i] for i in range(len(fields))]
        decl = ", ".join(f"{field_attr(fields[i], rng)} {'pub ' if not enum_variant else ''}{names[i]}: {rust_ty(fields[i])}" for i in order)
        ctor = "{ " + ", ".join(f"{names[i]}: {from_expr(fields[i], f'v[{i}]')}" for i in range(len(fields))) + " }"
        pat = "{ " + ", ".join(names) + " }"
        tos = [to_expr(fields[i], names[i]) for i in range(len(fields))]
        return "{ " + decl + " }", ctor, pat, tos
    # tuple: positional order is the (shuffled) declaration order
    decl = ", ".join(f"{field_attr(fields[i], rng)} {'pub ' if not enum_variant else ''}{rust_ty(fields[i])}" for i in order)
    ctor = "(" + ", ".join(from_expr(fields[i], f"v[{i}]") for i in order) + ")"
    binds = [f"x{i}" for i in range(len(fields))]
    pat = "(" + ", ".join(binds[i] for i in order) + ")"
    tos = [to_expr(fields[i], binds[i]) for i in range(len(fields))]
    return "(" + decl + ")", ctor, pat, tos


def type_attrs(enc, tag, extra=(), rng=None):
    a = []
    if enc == "map":
        a.append("#[cbor(map)]")
    elif enc == "array" and rng is not None and rng.random() < 0.5:
        a.append("#[cbor(array)]")
    if tag is not None and tag != -1:
        a.append(f"#[cbor(tag({tagnum(tag)}))]")
    a.extend(extra)
    return " ".join(a)


def gen_type(name, s, seed):
    rng = random.Random(hashlib.sha1((seed + canon(s)).encode()).hexdigest())
    out = ["#[derive(Debug, Clone, PartialEq, minicbor::Encode, minicbor::Decode, minicbor::CborLen)]"]
    if s["kind"] == "struct":
        if s["transparent"]:
            out.append("#[cbor(transparent)]")
            body, ctor, pat, tos = gen_fields_struct(name, "", "tuple", s["fields"], rng)
        else:
            out.append(type_attrs(s["enc"], s["tag"], rng=rng))
            body, ctor, pat, tos = gen_fields_struct(name, "", s["shape"], s["fields"], rng)
        semi = ";" if body.startswith("(") else ""
        gp = generic_params(s["fields"]) if not s["transparent"] else []
        lt = borrows(s["fields"])
        decl_g = "<" + ", ".join((["'a"] if lt else []) + [g for g, _ in gp]) + ">" if (gp or lt) else ""
        inst_g = "<" + ", ".join((["'static"] if lt else []) + [t for _, t in gp]) + ">" if (gp or lt) else ""
        out.append(f"pub struct {name}{decl_g} {body}{semi}")
        INST[name] = name + inst_g
        out.append(f"impl Dv for {name}{inst_g} {{")
        out.append(f"    fn from_json(v: &Value) -> Self {{ {name} {ctor} }}")
        out.append(f"    fn to_json(&self) -> Value {{ let {name} {pat} = self; Value::Array(vec![{', '.join(tos)}]) }}")
        out.append("}")
        return "\n".join(out)
    extra = ["#[cbor(index_only)]"] if s["index_only"] else []
    out.append(type_attrs(s["enc"], s["tag"], extra, rng=rng))
    vs, froms, tos_all = [], [], []
    order = list(range(len(s["variants"])))
    rng.shuffle(order)
    vnames = [rng.choice(["Red", "Green", "Blue", "Up", "Down"]) + f"V{va['idx']}" for va in s["variants"]]
    parts = {}
    for k in order:
        va = s["variants"][k]
        vn = vnames[k]
        attrs = [f"#[n({va['idx']})]"]
        if not s["index_only"]:
            if va["enc"] != s["enc"]:
                attrs.append("#[cbor(map)]" if va["enc"] == "map" else "#[cbor(array)]")
            if va["tag"] != -1:
                attrs.append(f"#[cbor(tag({tagnum(va['tag'])}))]")
        if va["shape"] == "unit":
            vs.append(f"    {' '.join(attrs)} {vn}")
        else:
            parts[k] = gen_fields_struct(vn, "", va["shape"], va["fields"], rng, enum_variant=True)
            vs.append(f"    {' '.join(attrs)} {vn} {parts[k][0]}")
    for k, va in enumerate(s["variants"]):
        vn = vnames[k]
        if va["shape"] == "unit":
            froms.append(f"            {k + 1} => {name}::{vn},")
            tos_all.append(f"            {name}::{vn} => json!({{\"var\": {k + 1}, \"fv\": []}}),")
        else:
            body, ctor, pat, tos = parts[k]
            froms.append(f"            {k + 1} => {{ let v = &v[\"fv\"]; {name}::{vn} {ctor} }}")
            tos_all.append(f"            {name}::{vn} {pat} => json!({{\"var\": {k + 1}, \"fv\": [{', '.join(tos)}]}}),")
    lt = any(borrows(va["fields"]) for va in s["variants"])
    out.append(f"pub enum {name}{'<' + chr(39) + 'a>' if lt else ''} {{\n" + ",\n".join(vs) + "\n}")
    if lt:
        INST[name] = name + "<'static>"
    out.append(f"impl Dv for {name}{'<' + chr(39) + 'static>' if lt else ''} {{")
    out.append("    fn from_json(v: &Value) -> Self {\n        match v[\"var\"].as_u64().unwrap() {\n" + "\n".join(froms) + "\n            _ => panic!(\"bad variant position\")\n        }\n    }")
    out.append("    #[allow(unused_variables)]\n    fn to_json(&self) -> Value {\n        match self {\n" + "\n".join(tos_all) + "\n        }\n    }")
    out.append("}")
    return "\n".join(out)


PRELUDE_SCHEMAS = None
INST = {}


def generate(schemas, seed, nested_defs, exclude=()):
    """schemas: list of schema dicts (index = sid).  Returns the Rust source of gen_types.rs.  `exclude`: sids whose derived code
    does not compile against the current repository (they are left out and reported by the caller)."""
    out = ["// @generated by gen/schema2rs.py from schemas emitted by TLC (spec/MC_Derive.tla) - do not edit",
           "#![allow(non_camel_case_types, dead_code, unused_parens, clippy::all)]",
           "use crate::prelude::*;", "use serde_json::{json, Value};", ""]
    for nm, s in nested_defs.items():
        out.append(gen_type(nm, s, seed))
        out.append(f"pub type Opt{nm} = Option<{nm}>;")
        out.append("")
    for i, s in enumerate(schemas):
        out.append(f"// @sid {i}")
        if i in exclude:
            out.append("")
            continue
        out.append(gen_type(f"T{i}", s, seed))
        out.append("")
    out.append("// @sid end")
    out.append("pub fn run(sid: usize, op: &str, input: &Value) -> Value {")
    out.append("    match sid {")
    for i in range(len(schemas)):
        if i in exclude:
            out.append(f"        {i} => json!({{\"p\": \"uncompilable\"}}),")
            continue
        out.append(f"        {i} => exec::<{INST.get(f'T{i}', f'T{i}')}>(op, input),")
    out.append("        _ => json!({\"p\": \"unsupported\"})")
    out.append("    }")
    out.append("}")
    out.append(f"pub const NTYPES: usize = {len(schemas)};")
    return "\n".join(out) + "\n"
